"""Bounded stand-in for C11 (a client and a server joined by reliable in-order byte pipes); runs under /venv/bin/python.

Depth-bounded exploration of joint histories: client calls, server calls, and partial deliveries (1 byte, 3 bytes,
everything) in both directions, under the application assumptions of the statement (each side only makes calls its
session accepts - a refused call is simply not part of the history - and the server answers requests it has received
with responses of the matching kind).  Oracles, straight from the statement:
  * what a side has received is always a prefix of what the peer sent, as equal values, in order (exactly once);
  * no ProtocolError other than the designed terminations (unbind, notice of disconnection);
  * whenever both pipes are empty the sides agree on BINDING / not BINDING (BEFORE_OPEN and OPENED alike) and on the set
    of operations in progress.
Labelled bounded.
"""
import sys, os, json, copy, time
sys.path.insert(0, os.path.dirname(os.path.dirname(os.path.abspath(__file__))))
sys.path.insert(0, os.environ.get("SANSLDAP_SRC", "/repo/src"))
import sansldap
from sansldap import LDAPClient, LDAPServer
from sansldap._session import SessionState, LDAPError, ProtocolError, ExtendedOperations
from sansldap._messages import (BindRequest, BindResponse, UnbindRequest, SearchRequest, SearchResultEntry, SearchResultDone, SearchResultReference,
                                ExtendedRequest, ExtendedResponse, LDAPResult, LDAPResultCode, PackingOptions, SearchScope, DereferencingPolicy)
from sansldap._authentication import SimpleCredential
from sansldap._filter import FilterPresent

NOTICE = ExtendedOperations.LDAP_NOTICE_OF_DISCONNECTION.value
violations = []
n_eval = 0


def rec(clause, hist, detail=""):
    if len(violations) < 25:
        violations.append({"function": "joint", "kind": "oracle", "property": "C11", "clause": clause, "inputs": {"history": [repr(h) for h in hist]}, "detail": detail[:400]})


class W:
    """joint world"""
    def __init__(self):
        self.c, self.s = LDAPClient(), LDAPServer()
        self.cs, self.sc = b"", b""                # bytes in flight
        self.sent_c, self.sent_s = [], []          # messages sent (as values), per direction
        self.got_s, self.got_c = [], []            # messages received
        self.req_kind = {}                         # server application's knowledge: id -> kind of the request it received
        self.terminated = False


RES = lambda code: LDAPResult(result_code=code, matched_dn="", diagnostics_message="", referrals=[])


def client_call(w, name):
    c = w.c
    if name == "bind":
        mid = c.bind_simple("cn=x", "pw")
        msg = BindRequest(message_id=mid, controls=[], version=3, name="cn=x", authentication=SimpleCredential(password="pw"))
    elif name == "search":
        mid = c.search_request("dc=x")
        msg = SearchRequest(message_id=mid, controls=[], base_object="dc=x", scope=SearchScope.SUBTREE, deref_aliases=DereferencingPolicy.NEVER, size_limit=0, time_limit=0,
                            types_only=False, filter=FilterPresent("objectClass"), attributes=[])
    elif name == "ext":
        mid = c.extended_request("1.2.3", b"v")
        msg = ExtendedRequest(message_id=mid, controls=[], name="1.2.3", value=b"v")
    elif name == "unbind":
        c.unbind()
        msg = UnbindRequest(message_id=0, controls=[])
    w.cs += c.data_to_send()
    w.sent_c.append(msg)


def server_call(w, name, mid):
    s = w.s
    if name == "bind_ok":
        s.bind_response(mid)
        msg = BindResponse(message_id=mid, controls=[], result=RES(LDAPResultCode.SUCCESS), server_sasl_creds=None)
    elif name == "bind_sasl":
        s.bind_response(mid, sasl_creds=b"c", result_code=LDAPResultCode.SASL_BIND_IN_PROGRESS)
        msg = BindResponse(message_id=mid, controls=[], result=RES(LDAPResultCode.SASL_BIND_IN_PROGRESS), server_sasl_creds=b"c")
    elif name == "entry":
        s.search_result_entry(mid, "cn=e", [])
        msg = SearchResultEntry(message_id=mid, controls=[], object_name="cn=e", attributes=[])
    elif name == "ref":
        s.search_result_reference(mid, ["ldap://r"])
        msg = SearchResultReference(message_id=mid, controls=[], uris=["ldap://r"])
    elif name == "done":
        s.search_result_done(mid)
        msg = SearchResultDone(message_id=mid, controls=[], result=RES(LDAPResultCode.SUCCESS))
    elif name == "extresp":
        s.extended_response(mid)
        msg = ExtendedResponse(message_id=mid, controls=[], result=RES(LDAPResultCode.SUCCESS), name=None, value=None)
    elif name == "notice":
        s.extended_response(mid, name=NOTICE, result_code=LDAPResultCode.UNAVAILABLE)
        msg = ExtendedResponse(message_id=mid, controls=[], result=RES(LDAPResultCode.UNAVAILABLE), name=NOTICE, value=None)
    elif name == "unbind":
        s.unbind()
        msg = UnbindRequest(message_id=0, controls=[])
    w.sc += s.data_to_send()
    w.sent_s.append(msg)


def enabled_actions(w, tier):
    acts = []
    if w.terminated:
        return acts
    alive_c = w.c.state != SessionState.CLOSED
    alive_s = w.s.state != SessionState.CLOSED
    if alive_c:
        acts += [("c", "bind"), ("c", "search"), ("c", "ext")]
        if tier == "thorough" or True:
            acts.append(("c", "unbind"))
    if alive_s:
        # the server application answers requests it has received (and not yet finally answered) with the matching kind
        for mid, kind in sorted(w.req_kind.items()):
            if mid not in w.s._outstanding_requests:
                continue
            if kind == "bind":
                acts += [("s", "bind_ok", mid), ("s", "bind_sasl", mid)]
            elif kind == "search":
                acts += [("s", "entry", mid), ("s", "done", mid)]
                if tier == "thorough":
                    acts.append(("s", "ref", mid))
            elif kind == "ext":
                acts += [("s", "extresp", mid)]
        if w.req_kind and tier == "thorough":
            mid0 = sorted(w.req_kind)[0]
            if mid0 in w.s._outstanding_requests:
                acts.append(("s", "notice", mid0))
    if w.cs and alive_s:
        acts += [("dcs", 1), ("dcs", 3), ("dcs", len(w.cs))]
    if w.sc and alive_c:
        acts += [("dsc", 1), ("dsc", 3), ("dsc", len(w.sc))]
    return acts


def kind_of(msg):
    return {BindRequest: "bind", SearchRequest: "search", ExtendedRequest: "ext"}.get(type(msg))


def step(w, act, hist):
    """Returns False when the application's call was refused (then the action is not part of the history)."""
    global n_eval
    n_eval += 1
    try:
        if act[0] == "c":
            client_call(w, act[1])
        elif act[0] == "s":
            server_call(w, act[1], act[2])
        elif act[0] == "dcs":
            k = min(act[1], len(w.cs))
            chunk, w.cs = w.cs[:k], w.cs[k:]
            got = w.s.receive(chunk)
            for m in got:
                w.got_s.append(m)
                if kind_of(m):
                    w.req_kind[m.message_id] = kind_of(m)
        elif act[0] == "dsc":
            k = min(act[1], len(w.sc))
            chunk, w.sc = w.sc[:k], w.sc[k:]
            w.got_c.extend(w.c.receive(chunk))
    except ProtocolError as e:
        designed = isinstance(e.request, UnbindRequest) or (isinstance(e.request, ExtendedResponse) and e.request.name == NOTICE)
        if not designed:
            rec("no protocol error other than the designed terminations", hist, f"{type(e).__name__}: {e}")
        else:
            (w.got_s if act[0] == "dcs" else w.got_c).append(e.request)
        w.terminated = True
        return True
    except LDAPError:
        return False                    # refused call: the application does not make it (assumption of the statement)
    except Exception as e:
        rec("no exception other than the library's errors", hist, f"{type(e).__name__}: {e}")
        w.terminated = True
        return True
    # ---- oracles
    if w.got_s != w.sent_c[:len(w.got_s)]:
        rec("the server receives exactly what the client sent, in order, as equal values", hist, f"received {w.got_s!r}"[:300])
    if w.got_c != w.sent_s[:len(w.got_c)]:
        rec("the client receives exactly what the server sent, in order, as equal values", hist, f"received {w.got_c!r}"[:300])
    if not w.cs and not w.sc and not w.terminated and w.c.state != SessionState.CLOSED and w.s.state != SessionState.CLOSED:
        if len(w.got_s) != len(w.sent_c) or len(w.got_c) != len(w.sent_s):
            rec("when all bytes are delivered every message sent has been received", hist, f"{len(w.got_s)}/{len(w.sent_c)} and {len(w.got_c)}/{len(w.sent_s)}")
        if (w.c.state == SessionState.BINDING) != (w.s.state == SessionState.BINDING):
            rec("at quiescence both sides agree on the session state (BEFORE_OPEN and OPENED alike)", hist, f"client {w.c.state.name} server {w.s.state.name}")
        if set(w.c._outstanding_requests) != set(w.s._outstanding_requests):
            rec("at quiescence both sides agree on the operations in progress", hist, f"client {sorted(w.c._outstanding_requests)} server {sorted(w.s._outstanding_requests)}")
    return True


def explore(depth, tier, first=None):
    """All joint histories up to `depth`; with first=(i, j) only those whose first two actions are the i-th and then the j-th enabled ones
    (one worker each)."""
    stack = [(W(), [])]
    seen = set()
    if first is not None:
        w, hist = stack.pop()
        for idx in first:
            acts = enabled_actions(w, tier)
            if idx >= len(acts):
                return
            act = acts[idx]
            hist = hist + [act]
            nv = len(violations)
            ok = step(w, act, hist)
            if len(violations) > nv or not ok or w.terminated:
                return
        stack = [(w, hist)]
    while stack:
        w, hist = stack.pop()
        if len(hist) >= depth:
            continue
        for act in enabled_actions(w, tier):
            w2 = copy.deepcopy(w)
            h2 = hist + [act]
            nv = len(violations)
            ok = step(w2, act, h2)
            if len(violations) > nv:
                if len(violations) >= 25:
                    return
                continue
            if not ok or w2.terminated:
                continue
            key = (len(h2), w2.c.state, w2.s.state, frozenset(w2.c._outstanding_requests), frozenset(w2.s._outstanding_requests), frozenset(w2.c._search_requests),
                   frozenset(w2.s._search_requests), w2.cs, w2.sc, bytes(w2.c._incoming_buffer), bytes(w2.s._incoming_buffer), w2.c._message_counter, len(w2.got_s), len(w2.got_c))
            if key in seen:
                continue
            seen.add(key)
            stack.append((w2, h2))


def _worker(arg):
    global n_eval
    first, depth, tier = arg
    n_eval = 0
    del violations[:]
    explore(depth, tier, first)
    return n_eval, list(violations)[:5]


def main():
    tier = os.environ.get("VERIF_TIER", "quick")
    depth = int(os.environ.get("JOINT_DEPTH", "8" if tier == "quick" else "9"))
    t0 = time.time()
    # one worker per pair of first actions (prefixes shorter than two actions are covered by every worker's own first steps)
    import multiprocessing as mp
    w0 = W()
    a0 = enabled_actions(w0, tier)
    pairs = []
    for i in range(len(a0)):
        w1 = copy.deepcopy(w0)
        if step(w1, a0[i], [a0[i]]) and not w1.terminated:
            for j in range(len(enabled_actions(w1, tier))):
                pairs.append((i, j))
    del violations[:]
    with mp.get_context("fork").Pool(min(16, os.cpu_count() or 4)) as pool:
        res = pool.map(_worker, [(p_, depth, tier) for p_ in pairs], chunksize=1)
    global n_eval
    n_eval = sum(r[0] for r in res)
    for r in res:
        violations.extend(r[1])
    del violations[25:]
    out = {"evaluations": n_eval, "distinct_nontrivial": n_eval, "violations": violations, "wall_s": round(time.time() - t0, 2), "depth": depth,
           "bound": f"all joint histories of length <= {depth}: client bind/search/extended/unbind, server responses of the matching kind to received requests (final and SASL bind responses, entries, done, extended"
                    f"{', references, notice of disconnection' if tier == 'thorough' else ''}), deliveries of 1 / 3 / all pending bytes in either direction; equal joint situations merged"}
    json.dump(out, sys.stdout, default=str)


if __name__ == "__main__":
    if len(sys.argv) > 2 and sys.argv[1] == "replay":
        spec = json.load(open(sys.argv[2]))
        hist = [eval(h) for h in spec["inputs"]["history"]]
        w = W()
        for i, a in enumerate(hist):
            step(w, a, hist[:i + 1])
        print(json.dumps({"violations": violations[:5], "client": w.c.state.name, "server": w.s.state.name}, default=str)[:3000])
        sys.exit(1 if violations else 0)
    main()
