"""Bounded stand-in and exact regex decisions for the schema text forms (C16, C17); runs under /venv/bin/python.

C16  definitions with every field present/absent, list lengths 0..3, description / extension strings over the characters
     the encoder and the grammar distinguish (quote, backslash, '|', literal "\\27" / "5c" sequences, non-ASCII, spaces,
     parentheses): T.from_string(str(d)) == d.
C17  sentences generated from the RFC 4512 grammars (ObjectClass, AttributeType incl. the quoted-syntax variant,
     DITContentRule) with their denoted field values and with 1-3 spaces at every SP / 0-2 at every WSP: from_string returns
     those fields; exact: L(ABNF) is contained in the prefix language of each compiled description regex (automata);
     totality: short strings and single-character edits raise nothing but ValueError.
"""
import sys, os, json, time, itertools, re, random, multiprocessing as mp
sys.path.insert(0, os.path.dirname(os.path.dirname(os.path.abspath(__file__))))
sys.path.insert(0, os.environ.get("SANSLDAP_SRC", "/repo/src"))
from pyvc import regexlang as R
import sansldap.schema as SC
from sansldap.schema import (ObjectClassDescription, AttributeTypeDescription, DITContentRuleDescription, ObjectClassKind, AttributeTypeUsage)

violations = []


def rec(prop, clause, inputs, detail=""):
    if sum(1 for x in violations if x["property"] == prop) < 25:
        violations.append({"function": "schema_text", "kind": "oracle", "property": prop, "clause": clause, "inputs": inputs, "detail": detail})


STRINGS = ["x", "a b", "a'b", "a\\b", "a|b", "\\27", "\\5c", "5c\\5c27", "C:\\27\\bin", "it's", "'", "\\", "\\\\", "''", "é", "日本", " lead", "trail ", "(x)", "a$b",
           "x'", "'x", "\\'", "'\\", "a\\5Cb", "{1}", "X-A 'b'", "\U0001F600",
           # texts that differ only in the kind / amount of white space, and in letter case (a parser that normalises or caches would merge them)
           "a  b", "a\tb", "a\u00a0b", "A B", "x ", " x"]
OIDLISTS = [[], ["top"], ["a", "2.5.4.3"], ["cn", "sn", "1.2.840.113556.1.4.1"]]
NAMES = [[], ["cn"], ["a", "b-c"], ["commonName", "cn", "x-1"]]
EXTS = [{}, {"FOO": ["v"]}, {"A": ["v1", "v2"], "B-C_d": ["it's"]}, {"ORIGIN": ["RFC 4519"], "x": ["a\\b", "c'd", "e|f"]}]


_KEYWORDS = {"NAME", "DESC", "OBSOLETE", "SUP", "ABSTRACT", "STRUCTURAL", "AUXILIARY", "MUST", "MAY", "AUX", "NOT", "EQUALITY", "ORDERING", "SUBSTR",
             "SYNTAX", "SINGLE-VALUE", "COLLECTIVE", "NO-USER-MODIFICATION", "USAGE", "userApplications", "directoryOperation",
             "distributedOperation", "dSAOperation"}


def scribble(x):
    """Mutates every list / dict reachable from a parsed definition (what a caller is free to do with a value it was handed)."""
    for f in getattr(x, "__dataclass_fields__", {}):
        v = getattr(x, f)
        if isinstance(v, list):
            v.append("scribble")
        elif isinstance(v, dict):
            for vv in v.values():
                if isinstance(vv, list):
                    vv.append("scribble")
            v["X-SCRIBBLE"] = ["scribble"]


def check_def(cls, d):
    try:
        text = str(d)
        # parsing has no memory: the same definition with every non-keyword token in the other letter case is parsed first in
        # this process (whatever it yields); a spelling remembered from it must not come back in the result for the original text
        try:
            cls.from_string(" ".join(t if t in _KEYWORDS else t.swapcase() for t in text.split(" ")))
        except Exception:
            pass
        back = cls.from_string(text)
        # ... and what a caller does to a parsed value (its lists and dicts are mutable) must not show in a later parse of the same text
        scribble(back)
        back = cls.from_string(text)
    except Exception as e:
        return [("C16", "from_string(str(d)) == d", repr(d)[:260], f"{type(e).__name__}: {str(e)[:100]}")]
    if back != d:
        diff = [f for f in d.__dataclass_fields__ if getattr(d, f) != getattr(back, f)]
        return [("C16", "from_string(str(d)) == d", repr(d)[:260], f"text {text!r}: fields {diff} read back as {[getattr(back, f) for f in diff]!r}"[:300])]
    return []


def c16_cases(tier, seed):
    rnd = random.Random(seed)
    cases = []
    base_oc = dict(oid="1.2.3")
    # one factor at a time
    for n in NAMES:
        cases.append((ObjectClassDescription, ObjectClassDescription(oid="2.5.6.0", names=n)))
        cases.append((AttributeTypeDescription, AttributeTypeDescription(oid="2.5.4.3", names=n)))
        cases.append((DITContentRuleDescription, DITContentRuleDescription(oid="2.5.6.4", names=n)))
    for s in STRINGS:
        cases.append((ObjectClassDescription, ObjectClassDescription(oid="1.2", description=s)))
        cases.append((AttributeTypeDescription, AttributeTypeDescription(oid="1.2", description=s, extensions={"N": [s]})))
        cases.append((DITContentRuleDescription, DITContentRuleDescription(oid="1.2", description=s, extensions={"a-b": [s, "z"]})))
        cases.append((ObjectClassDescription, ObjectClassDescription(oid="1.2", names=["n"], description=s, extensions={"E": [s, s]})))
    for ol in OIDLISTS:
        cases.append((ObjectClassDescription, ObjectClassDescription(oid="1.2", super_types=ol)))
        cases.append((ObjectClassDescription, ObjectClassDescription(oid="1.2", must=ol, may=list(reversed(ol)))))
        cases.append((DITContentRuleDescription, DITContentRuleDescription(oid="1.2", aux=ol, must=ol, may=ol, never=ol)))
    for k in ObjectClassKind:
        for ob in (False, True):
            cases.append((ObjectClassDescription, ObjectClassDescription(oid="1.2", kind=k, obsolete=ob)))
    for u in AttributeTypeUsage:
        for flags in itertools.product((False, True), repeat=4):
            cases.append((AttributeTypeDescription, AttributeTypeDescription(oid="1.2", usage=u, obsolete=flags[0], single_value=flags[1], collective=flags[2], no_user_modification=flags[3])))
    for syn, ln in (("1.3.6.1.4.1.1466.115.121.1.15", None), ("1.3.6.1.4.1.1466.115.121.1.15", 0), ("1.3.6.1.4.1.1466.115.121.1.15", 1), ("1.2.3", 32768), ("1.2", 128)):
        for sup in (None, "name", "2.5.4.41"):
            cases.append((AttributeTypeDescription, AttributeTypeDescription(oid="1.2", syntax=syn, syntax_length=ln, super_type=sup, equality=sup, ordering=sup, substrings=sup)))
    for e in EXTS:
        cases.append((ObjectClassDescription, ObjectClassDescription(oid="1.2", extensions=e)))
        cases.append((AttributeTypeDescription, AttributeTypeDescription(oid="1.2", extensions=e)))
        cases.append((DITContentRuleDescription, DITContentRuleDescription(oid="1.2", extensions=e)))
    # random full combinations
    for _ in range(600 if tier == "quick" else 60000):
        which = rnd.randrange(3)
        desc = rnd.choice([None] + STRINGS)
        ext = {}
        for _k in range(rnd.randrange(3)):
            ext[rnd.choice(["A", "b-c", "X_y", "ORIGIN", "z"])] = [rnd.choice(STRINGS) for _ in range(rnd.randrange(1, 4))]
        if which == 0:
            cases.append((ObjectClassDescription, ObjectClassDescription(oid=rnd.choice(["1.2", "2.5.6.0", "0.9.2342.19200300.100.4.5"]), names=rnd.choice(NAMES), description=desc,
                          obsolete=rnd.random() < .5, super_types=rnd.choice(OIDLISTS), kind=rnd.choice(list(ObjectClassKind)), must=rnd.choice(OIDLISTS), may=rnd.choice(OIDLISTS), extensions=ext)))
        elif which == 1:
            syn = rnd.choice([None, "1.3.6.1.4.1.1466.115.121.1.15"])
            cases.append((AttributeTypeDescription, AttributeTypeDescription(oid=rnd.choice(["1.2", "2.5.4.3"]), names=rnd.choice(NAMES), description=desc, obsolete=rnd.random() < .5,
                          super_type=rnd.choice([None, "name", "2.5.4.41"]), equality=rnd.choice([None, "caseIgnoreMatch"]), ordering=rnd.choice([None, "2.5.13.3"]),
                          substrings=rnd.choice([None, "caseIgnoreSubstringsMatch"]), syntax=syn, syntax_length=rnd.choice([None, 0, 1, 64]) if syn else None,
                          single_value=rnd.random() < .5, collective=rnd.random() < .5, no_user_modification=rnd.random() < .5, usage=rnd.choice(list(AttributeTypeUsage)), extensions=ext)))
        else:
            cases.append((DITContentRuleDescription, DITContentRuleDescription(oid=rnd.choice(["1.2", "2.5.6.4"]), names=rnd.choice(NAMES), description=desc, obsolete=rnd.random() < .5,
                          aux=rnd.choice(OIDLISTS), must=rnd.choice(OIDLISTS), may=rnd.choice(OIDLISTS), never=rnd.choice(OIDLISTS), extensions=ext)))
    return cases


# ---------------------------------------------------------------------------------------------- C17: grammar sentences
def esc(s):
    return "'" + s.replace("\\", "\\5c").replace("'", "\\27") + "'"


class Spacer:
    def __init__(self, rnd, mode):
        self.rnd, self.mode = rnd, mode

    def sp(self):
        return " " if self.mode == 0 else " " * self.rnd.choice([1, 2, 3])

    def wsp(self):
        return "" if self.mode == 0 else " " * self.rnd.choice([0, 1, 2])


def qdescrs(names, S, paren):
    if len(names) == 1 and not paren:
        return f"'{names[0]}'"
    return "(" + S.wsp() + S.sp().join(f"'{n}'" for n in names) + S.wsp() + ")"


def oids(lst, S, paren):
    if len(lst) == 1 and not paren:
        return lst[0]
    return "(" + S.wsp() + (S.wsp() + "$" + S.wsp()).join(lst) + S.wsp() + ")"


def qdstrings(vals, S, paren):
    if len(vals) == 1 and not paren:
        return esc(vals[0])
    return "(" + S.wsp() + S.sp().join(esc(v) for v in vals) + S.wsp() + ")"


def extensions_text(ext, S, paren):
    return "".join(S.sp() + "X-" + k + S.sp() + qdstrings(v, S, paren) for k, v in ext.items())


def gen_sentences(tier, seed):
    rnd = random.Random(seed + 17)
    out = []
    descs = [None, "plain", "it's", "back\\slash", "\\27 literal", "é", "a  b", "( paren ) $ X-FOO 'q'", "NAME 'x' DESC"]
    n_rounds = 260 if tier == "quick" else 20000
    for i in range(n_rounds):
        S = Spacer(rnd, 0 if i % 5 == 0 else 1)
        paren = rnd.random() < .5
        names = rnd.choice(NAMES)
        desc = rnd.choice(descs)
        obsolete = rnd.random() < .4
        ext = rnd.choice([{}, {"FOO": ["abc"]}, {"A-b_C": ["v1", "it's"], "x": ["\\"]}, {"ORIGIN": ["RFC 4519"], "Y": ["a", "b", "c"]},
                          # characters that are structural outside a quoted string are ordinary inside one
                          {"ORIGIN": ["RFC 4519 (user schema)", "draft"]}, {"P": ["a ) b", "( c", "$", "X-Q 'z'"], "Q": [")"]}, {"R": ["( 'x' )"]}])
        oid = rnd.choice(["1.2", "2.5.6.6", "0.9.2342.19200300.100.1.1", "1.0.10.200"])
        head = "(" + S.wsp() + oid
        if names:
            head += S.sp() + "NAME" + S.sp() + qdescrs(names, S, paren)
        if desc is not None:
            head += S.sp() + "DESC" + S.sp() + esc(desc)
        if obsolete:
            head += S.sp() + "OBSOLETE"
        which = i % 3
        if which == 0:
            sup, must, may = rnd.choice(OIDLISTS), rnd.choice(OIDLISTS), rnd.choice(OIDLISTS)
            kind = rnd.choice([None] + list(ObjectClassKind))
            t = head
            if sup:
                t += S.sp() + "SUP" + S.sp() + oids(sup, S, paren)
            if kind is not None:
                t += S.sp() + kind.value
            if must:
                t += S.sp() + "MUST" + S.sp() + oids(must, S, paren)
            if may:
                t += S.sp() + "MAY" + S.sp() + oids(may, S, paren)
            t += extensions_text(ext, S, paren) + S.wsp() + ")"
            want = ObjectClassDescription(oid=oid, names=names, description=desc, obsolete=obsolete, super_types=sup, kind=kind or ObjectClassKind.STRUCTURAL, must=must, may=may, extensions=ext)
            out.append((ObjectClassDescription, t, want))
        elif which == 1:
            sup = rnd.choice([None, "name", "2.5.4.41"])
            eq = rnd.choice([None, "caseIgnoreMatch", "2.5.13.2"])
            order = rnd.choice([None, "caseIgnoreOrderingMatch"])
            sub = rnd.choice([None, "caseIgnoreSubstringsMatch"])
            syn = rnd.choice([None, "1.3.6.1.4.1.1466.115.121.1.15"])
            ln = rnd.choice([None, 0, 1, 32768]) if syn else None
            quoted = syn is not None and rnd.random() < .3          # the variant Active Directory emits: SYNTAX 'oid'
            sv, col, num = rnd.random() < .4, rnd.random() < .3, rnd.random() < .3
            usage = rnd.choice([None] + list(AttributeTypeUsage))
            t = head
            if sup:
                t += S.sp() + "SUP" + S.sp() + sup
            if eq:
                t += S.sp() + "EQUALITY" + S.sp() + eq
            if order:
                t += S.sp() + "ORDERING" + S.sp() + order
            if sub:
                t += S.sp() + "SUBSTR" + S.sp() + sub
            if syn:
                body = syn + ("{%d}" % ln if ln is not None else "")
                t += S.sp() + "SYNTAX" + S.sp() + (f"'{body}'" if quoted else body)
            if sv:
                t += S.sp() + "SINGLE-VALUE"
            if col:
                t += S.sp() + "COLLECTIVE"
            if num:
                t += S.sp() + "NO-USER-MODIFICATION"
            if usage is not None:
                t += S.sp() + "USAGE" + S.sp() + usage.value
            t += extensions_text(ext, S, paren) + S.wsp() + ")"
            want = AttributeTypeDescription(oid=oid, names=names, description=desc, obsolete=obsolete, super_type=sup, equality=eq, ordering=order, substrings=sub, syntax=syn,
                                            syntax_length=ln, single_value=sv, collective=col, no_user_modification=num, usage=usage or AttributeTypeUsage.USER_APPLICATIONS, extensions=ext)
            out.append((AttributeTypeDescription, t, want))
        else:
            aux, must, may, never = (rnd.choice(OIDLISTS) for _ in range(4))
            t = head
            for kw, lst in (("AUX", aux), ("MUST", must), ("MAY", may), ("NOT", never)):
                if lst:
                    t += S.sp() + kw + S.sp() + oids(lst, S, paren)
            t += extensions_text(ext, S, paren) + S.wsp() + ")"
            want = DITContentRuleDescription(oid=oid, names=names, description=desc, obsolete=obsolete, aux=aux, must=must, may=may, never=never, extensions=ext)
            out.append((DITContentRuleDescription, t, want))
    return out


def total_check(cls, s):
    try:
        cls.from_string(s)
    except ValueError:
        pass
    except Exception as e:
        return [("C17", "from_string raises nothing but ValueError", s, f"{cls.__name__}: {type(e).__name__}: {str(e)[:100]}")]
    return []


def _total_chunk(args):
    alphabet, prefix, n = args
    out, cnt = [], 0
    for tail in itertools.product(alphabet, repeat=n):
        s = prefix + "".join(tail)
        for cls in (ObjectClassDescription, AttributeTypeDescription, DITContentRuleDescription):
            cnt += 1
            out.extend(total_check(cls, s))
        if len(out) > 10:
            break
    return cnt, out[:10]


def _edit_chunk(items):
    out = []
    for ci, s in items:
        out.extend(total_check((ObjectClassDescription, AttributeTypeDescription, DITContentRuleDescription)[ci], s))
        if len(out) > 10:
            break
    return len(items), out[:10]


# reference patterns written from the RFC 4512 ABNF (section 4.1), unambiguous forms
_NUM = r"(?:0|[1-9][0-9]*)"
_NOID = rf"{_NUM}(?:\.{_NUM})+"
_DESCR = r"[A-Za-z][A-Za-z0-9\-]*"
_OID = rf"(?:{_DESCR}|{_NOID})"
_SP, _WSP = r"\ +", r"\ *"
_QDESCR = rf"'{_DESCR}'"
_QDESCRS = rf"(?:{_QDESCR}|\({_WSP}(?:{_QDESCR}(?:{_SP}{_QDESCR})*{_WSP})?\))"
_OIDS = rf"(?:{_OID}|\({_WSP}{_OID}(?:{_WSP}\${_WSP}{_OID})*{_WSP}\))"
_QDSTRING = r"'(?:\\27|\\5[Cc]|[^'\\])+'"
_QDSTRINGS = rf"(?:{_QDSTRING}|\({_WSP}(?:{_QDSTRING}(?:{_SP}{_QDSTRING})*{_WSP})?\))"
_EXT = rf"(?:{_SP}X-[A-Za-z\-_]+{_SP}{_QDSTRINGS})*"
_HEAD = rf"\({_WSP}{_NOID}(?:{_SP}NAME{_SP}{_QDESCRS})?(?:{_SP}DESC{_SP}{_QDSTRING})?(?:{_SP}OBSOLETE)?"
RFC_OC = rf"{_HEAD}(?:{_SP}SUP{_SP}{_OIDS})?(?:{_SP}(?:ABSTRACT|STRUCTURAL|AUXILIARY))?(?:{_SP}MUST{_SP}{_OIDS})?(?:{_SP}MAY{_SP}{_OIDS})?{_EXT}{_WSP}\)\Z"
_NOIDLEN = rf"{_NOID}(?:\{{{_NUM}\}})?"
RFC_AT = (rf"{_HEAD}(?:{_SP}SUP{_SP}{_OID})?(?:{_SP}EQUALITY{_SP}{_OID})?(?:{_SP}ORDERING{_SP}{_OID})?(?:{_SP}SUBSTR{_SP}{_OID})?"
          rf"(?:{_SP}SYNTAX{_SP}(?:{_NOIDLEN}|'{_NOIDLEN}'))?(?:{_SP}SINGLE-VALUE)?(?:{_SP}COLLECTIVE)?(?:{_SP}NO-USER-MODIFICATION)?"
          rf"(?:{_SP}USAGE{_SP}(?:userApplications|directoryOperation|distributedOperation|dSAOperation))?{_EXT}{_WSP}\)\Z")
RFC_DIT = rf"{_HEAD}(?:{_SP}AUX{_SP}{_OIDS})?(?:{_SP}MUST{_SP}{_OIDS})?(?:{_SP}MAY{_SP}{_OIDS})?(?:{_SP}NOT{_SP}{_OIDS})?{_EXT}{_WSP}\)\Z"


def main():
    tier = os.environ.get("VERIF_TIER", "quick")
    seed = int(os.environ.get("VERIF_SEED", "0") or 0)
    t0 = time.time()
    evals = {"C16": 0, "C17": 0}
    # ---- exact: grammar inclusion
    exact = {}
    for name, ref, pat in (("ObjectClassDescription", RFC_OC, SC.OBJECT_CLASS_DESCRIPTION), ("AttributeTypeDescription", RFC_AT, SC.ATTRIBUTE_TYPE_DESCRIPTION),
                           ("DITContentRuleDescription", RFC_DIT, SC.DIT_CONTENT_RULE_DESCRIPTION)):
        try:
            a = R.build(ref)
            b = R.build(pat.pattern, pat.flags)
            w = R.difference_witness(a, b, mode_a="full", mode_b="prefix", max_states=400000)
            exact[name] = w
            if w is not None:
                rec("C17", f"every sentence of the RFC 4512 {name} grammar matches the compiled pattern", {"cls": name, "text": w}, f"{w!r} is in the grammar but does not match")
        except R.Unsupported as e:
            exact[name] = f"undecided: {e}"
    # ---- C16
    for cls, d in c16_cases(tier, seed):
        evals["C16"] += 1
        for o in check_def(cls, d):
            rec(o[0], o[1], {"definition": o[2], "cls": cls.__name__}, o[3])
    # ---- C17 sentences
    for cls, text, want in gen_sentences(tier, seed):
        evals["C17"] += 1
        try:
            got = cls.from_string(text)
            if got == want:
                # what the caller does to the value it was handed must not show in a later parse of the same text
                import copy
                keep = copy.deepcopy(want)
                scribble(got)
                got, want = cls.from_string(text), keep
            if got != want:
                diff = [f for f in want.__dataclass_fields__ if getattr(want, f) != getattr(got, f)]
                rec("C17", "every field equals what the grammar denotes", {"cls": cls.__name__, "text": text}, f"fields {diff}: got {[getattr(got, f) for f in diff]!r} want {[getattr(want, f) for f in diff]!r}"[:300])
        except Exception as e:
            rec("C17", "the parser accepts every sentence of the RFC 4512 grammar", {"cls": cls.__name__, "text": text}, f"{type(e).__name__}: {str(e)[:100]}")
    # ---- C17 totality
    alpha = ["(", ")", " ", "'", "\\", "$", "1", ".", "a", "X", "-", "{", "N", "2", "7", "\n", "é", "\x00"]
    L = 3 if tier == "quick" else 4
    pool = mp.get_context("fork").Pool(min(16, os.cpu_count() or 4))
    tasks = [(alpha, "", n) for n in range(0, 3)] + [(alpha, "( 1.2" + a + b, L - 2) for a in alpha for b in alpha] + [(alpha, "( 1.2 DESC '" + a, L - 1) for a in alpha] + \
            [(alpha, "( 1.2 X-A " + a, L - 1) for a in alpha] + [(alpha, "( 1.2 X-A ( 'a'" + a, L - 1) for a in alpha] + [(alpha, "( 1.2 NAME ( 'a'" + a, L - 1) for a in alpha]
    for cnt, out in pool.map(_total_chunk, tasks, chunksize=4):
        evals["C17"] += cnt
        for o in out:
            rec(o[0], o[1], {"text": o[2]}, o[3])
    sents = gen_sentences("quick", seed)[:45]
    edits = set()
    for cls, s, _ in sents:
        ci = (ObjectClassDescription, AttributeTypeDescription, DITContentRuleDescription).index(cls)
        for i in range(len(s) + 1):
            for c in ("'", "\\", " ", "(", ")", "$", "X", "\n", "x"):
                edits.add((ci, s[:i] + c + s[i:]))
            if i < len(s):
                edits.add((ci, s[:i] + s[i + 1:]))
    edits = sorted(edits)
    for cnt, out in pool.map(_edit_chunk, [edits[i::48] for i in range(48)]):
        evals["C17"] += cnt
        for o in out:
            rec(o[0], o[1], {"text": o[2]}, o[3])
    pool.terminate()
    total = sum(evals.values())
    out = {"evaluations": total, "distinct_nontrivial": total, "per_property": evals, "regex_exact": exact, "violations": violations,
           "wall_s": round(time.time() - t0, 2),
           "bound": f"C16: {evals['C16']} definitions (one-factor-at-a-time over {len(STRINGS)} strings / list lengths 0-3 / all flags, kinds, usages, syntax lengths + seeded random combinations); "
                    f"C17: grammar sentences with spacing choices and their denoted fields, all strings of length <= {L} after 6 structural prefixes over an {len(alpha)}-symbol alphabet, "
                    f"{len(edits)} single-character edits; grammar inclusion exact (automata)"}
    json.dump(out, sys.stdout, default=str)


if __name__ == "__main__":
    if len(sys.argv) > 2 and sys.argv[1] == "replay":
        spec = json.load(open(sys.argv[2]))
        inp = spec.get("inputs", {})
        classes = {"ObjectClassDescription": ObjectClassDescription, "AttributeTypeDescription": AttributeTypeDescription, "DITContentRuleDescription": DITContentRuleDescription}
        if "definition" in inp:
            import re as _re
            # enum members print as <ObjectClassKind.STRUCTURAL: 'STRUCTURAL'>: rewritten to ObjectClassKind.STRUCTURAL before evaluation
            d = eval(_re.sub(r"<(\w+)\.(\w+): [^>]*>", r"\1.\2", inp["definition"]))
            res = check_def(classes[inp["cls"]], d)
            print(json.dumps({"text": str(d), "violations": [list(map(str, r)) for r in res]}))
            sys.exit(1 if res else 0)
        if "text" in inp:
            for name, cls in classes.items():
                if inp.get("cls") in (None, name):
                    try:
                        print(name, "->", repr(cls.from_string(inp["text"])))
                    except Exception as e:
                        print(name, "raised", type(e).__name__, e)
            sys.exit(1)
        sys.exit(3)
    main()
