"""Bounded stand-in for the message codec (C01, C03, C04); runs under /venv/bin/python.

Messages of all nine kinds are generated over boundary classes of every field (one factor at a time plus seeded random
combinations; every filter choice, control form and credential choice) and checked against the independent RFC 4511
codec of /verif/specs/rfc4511.py:
  C03  rfc4511.decode(m.pack(), strict=True) == abstract(m)      (exact tags / forms, minimal lengths and integers, TRUE = FF, defaults omitted)
  C01  unpack(pack(m)) == m, the reader is exhausted, pack(unpack(pack(m))) == pack(m)
  C04  for every combination of encoding freedoms (long-form lengths with extra octets at every node, TRUE as 01 / 80,
       explicit DEFAULT values, unknown trailing elements): unpack(rfc4511.encode(abstract(m), freedom)) == m
Labelled bounded; never counted as proved.
"""
import sys, os, json, time, random, itertools
sys.path.insert(0, os.path.dirname(os.path.dirname(os.path.abspath(__file__))))
sys.path.insert(0, os.environ.get("SANSLDAP_SRC", "/repo/src"))
from specs import rfc4511 as rfc
import sansldap
from sansldap._messages import (BindRequest, BindResponse, UnbindRequest, SearchRequest, SearchResultEntry, SearchResultDone, SearchResultReference,
                                ExtendedRequest, ExtendedResponse, LDAPResult, LDAPResultCode, PackingOptions, SearchScope, DereferencingPolicy,
                                PartialAttribute, unpack_ldap_message)
from sansldap._authentication import SimpleCredential, SaslCredential
from sansldap._controls import LDAPControl, PagedResultControl, ShowDeletedControl, ShowDeactivatedLinkControl
from sansldap._filter import (FilterAnd, FilterOr, FilterNot, FilterEquality, FilterSubstrings, FilterGreaterOrEqual, FilterLessOrEqual,
                              FilterPresent, FilterApproxMatch, FilterExtensibleMatch)
from sansldap.asn1 import ASN1Reader

OPT = PackingOptions()
violations, known_seen = [], {}
n_eval = {"C01": 0, "C03": 0, "C04": 0}


def rec(prop, clause, m, detail="", known_key=None):
    v = {"function": "messages", "kind": "oracle", "property": prop, "clause": clause, "inputs": {"message": repr(m)[:600]}, "detail": detail[:400]}
    if known_key:
        k = (prop, json.dumps(known_key, sort_keys=True))
        if k not in known_seen:
            v["known_key"] = known_key
            known_seen[k] = v
        return
    if sum(1 for x in violations if x["property"] == prop) < 20:
        violations.append(v)


# ------------------------------------------------------------------------------------------------ sansldap object -> abstract value
def a_filter(f):
    if isinstance(f, FilterAnd):
        return ("and", [a_filter(x) for x in f.filters])
    if isinstance(f, FilterOr):
        return ("or", [a_filter(x) for x in f.filters])
    if isinstance(f, FilterNot):
        return ("not", a_filter(f.filter))
    if isinstance(f, FilterEquality):
        return ("eq", f.attribute, f.value)
    if isinstance(f, FilterGreaterOrEqual):
        return ("ge", f.attribute, f.value)
    if isinstance(f, FilterLessOrEqual):
        return ("le", f.attribute, f.value)
    if isinstance(f, FilterApproxMatch):
        return ("approx", f.attribute, f.value)
    if isinstance(f, FilterPresent):
        return ("present", f.attribute)
    if isinstance(f, FilterSubstrings):
        return ("substrings", f.attribute, f.initial, list(f.any), f.final)
    if isinstance(f, FilterExtensibleMatch):
        return ("ext", f.rule, f.attribute, f.value, f.dn_attributes)
    raise TypeError(f)


def a_control(c):
    if isinstance(c, PagedResultControl):
        return {"type": "1.2.840.113556.1.4.319", "critical": c.critical, "value": rfc.paged_value(c.size, c.cookie)}
    if isinstance(c, ShowDeletedControl):
        return {"type": "1.2.840.113556.1.4.417", "critical": c.critical, "value": None}
    if isinstance(c, ShowDeactivatedLinkControl):
        return {"type": "1.2.840.113556.1.4.2065", "critical": c.critical, "value": None}
    return {"type": c.control_type, "critical": c.critical, "value": c.value}


def a_result(r):
    return {"code": r.result_code.value, "matched": r.matched_dn, "diag": r.diagnostics_message, "referral": None if r.referrals is None else list(r.referrals)}


def abstract(m):
    if isinstance(m, UnbindRequest):
        op = ("unbind",)
    elif isinstance(m, BindRequest):
        a = m.authentication
        auth = ("simple", a.password.encode()) if isinstance(a, SimpleCredential) else ("sasl", a.mechanism, a.credentials)
        op = ("bindRequest", m.version, m.name, auth)
    elif isinstance(m, BindResponse):
        op = ("bindResponse", a_result(m.result), m.server_sasl_creds)
    elif isinstance(m, SearchRequest):
        op = ("searchRequest", m.base_object, m.scope.value, m.deref_aliases.value, m.size_limit, m.time_limit, m.types_only, a_filter(m.filter), list(m.attributes))
    elif isinstance(m, SearchResultEntry):
        op = ("searchResEntry", m.object_name, [(a.name, list(a.values)) for a in m.attributes])
    elif isinstance(m, SearchResultDone):
        op = ("searchResDone", a_result(m.result))
    elif isinstance(m, SearchResultReference):
        op = ("searchResRef", list(m.uris))
    elif isinstance(m, ExtendedRequest):
        op = ("extendedReq", m.name, m.value)
    elif isinstance(m, ExtendedResponse):
        op = ("extendedResp", a_result(m.result), m.name, m.value)
    else:
        raise TypeError(m)
    return {"id": m.message_id, "op": op, "controls": [a_control(c) for c in m.controls]}


def norm(ab):
    """bytes / bytearray / memoryview compare by content"""
    return json.dumps(ab, default=lambda b: "hex:" + bytes(b).hex(), sort_keys=True)


# ------------------------------------------------------------------------------------------------ generators
INTS = [0, 1, 127, 128, 255, 256, 32767, 32768, 8388607, 8388608, 2 ** 31 - 1, 2 ** 31, 2 ** 63, -1, -128, -129, -32769, -65536, -2 ** 31]
STRS = ["", "a", "cn=x,dc=y", "é", "日本", "x" * 130, "\x00"]
BYTS = [b"", b"\x00", b"v", b"\xff\x00\x80", b"b" * 127, b"b" * 128, b"c" * 300]
VALS = [b"", b"v", b"*", b"\x00\xff", b"long" * 40]


def filters(rnd, depth=0):
    leafs = [FilterPresent("objectClass"), FilterEquality("cn", rnd.choice(VALS)), FilterGreaterOrEqual("a;x", rnd.choice(VALS)), FilterLessOrEqual("1.2.3", rnd.choice(VALS)),
             FilterApproxMatch("sn", rnd.choice(VALS)), FilterSubstrings("cn", rnd.choice([None] + VALS), [rnd.choice(VALS) for _ in range(rnd.randrange(3))], rnd.choice([None] + VALS)),
             FilterExtensibleMatch(rnd.choice([None, "2.5.13.2", "dn"]), rnd.choice([None, "cn"]), rnd.choice(VALS), rnd.random() < .5)]
    if depth >= 3 or rnd.random() < .4:
        return rnd.choice(leafs)
    k = rnd.randrange(3)
    if k == 0:
        return FilterAnd([filters(rnd, depth + 1) for _ in range(rnd.randrange(0, 3))])
    if k == 1:
        return FilterOr([filters(rnd, depth + 1) for _ in range(rnd.randrange(1, 3))])
    return FilterNot(filters(rnd, depth + 1))


ALL_FILTERS = [FilterPresent(""), FilterPresent("cn"), FilterEquality("cn", b""), FilterEquality("cn", b"v"), FilterGreaterOrEqual("cn", b"v"), FilterLessOrEqual("cn", b"v"),
               FilterApproxMatch("cn", b"\x00"), FilterSubstrings("cn", None, [], None), FilterSubstrings("cn", b"", [], b""), FilterSubstrings("cn", b"a", [b"b", b"c"], b"d"),
               FilterSubstrings("cn", None, [b"x"], None), FilterExtensibleMatch(None, None, b"", False), FilterExtensibleMatch("r", None, b"v", False),
               FilterExtensibleMatch(None, "a", b"v", True), FilterExtensibleMatch("r", "a", b"v", True), FilterAnd([]), FilterOr([]), FilterAnd([FilterPresent("a")]),
               FilterNot(FilterNot(FilterPresent("a"))), FilterOr([FilterAnd([FilterPresent("a"), FilterPresent("b")]), FilterNot(FilterEquality("c", b"d"))])]
ALL_CONTROLS = [[], [LDAPControl("1.2.3", False, None)], [LDAPControl("1.2.3", True, None)], [LDAPControl("1.2.3", False, b"")], [LDAPControl("1.2.3", True, b"v" * 200)],
                [ShowDeletedControl(critical=False)], [ShowDeletedControl(critical=True)], [ShowDeactivatedLinkControl(critical=True)],
                [PagedResultControl(critical=False, size=0, cookie=b"")], [PagedResultControl(critical=True, size=1000, cookie=b"\x00\x01")],
                [PagedResultControl(critical=False, size=-1, cookie=b"c" * 200)], [LDAPControl("a", True, b"x"), ShowDeletedControl(critical=False), LDAPControl("b", False, None)]]
RESULTS = [LDAPResult(LDAPResultCode.SUCCESS, "", "", None), LDAPResult(LDAPResultCode.REFERRAL, "dc=x", "see", ["ldap://a", "ldap://b"]), LDAPResult(LDAPResultCode.OTHER, "é", "d" * 200, []),
           LDAPResult(LDAPResultCode(9), "", "reserved code", None), LDAPResult(LDAPResultCode(4096), "", "unknown code", ["u"]), LDAPResult(LDAPResultCode.SASL_BIND_IN_PROGRESS, "", "", None)]


def gen_messages(tier, seed):
    rnd = random.Random(seed + 4511)
    out = []
    ids = INTS
    for i in ids:
        out.append(UnbindRequest(message_id=i, controls=[]))
        out.append(ExtendedRequest(message_id=i, controls=[], name="1.2", value=None))
    for c in ALL_CONTROLS:
        out.append(UnbindRequest(message_id=0, controls=c))
        out.append(ExtendedRequest(message_id=1, controls=c, name="1.2.3", value=b"v"))
        out.append(SearchResultDone(message_id=2, controls=c, result=RESULTS[0]))
    for s in STRS:
        out.append(BindRequest(message_id=1, controls=[], version=3, name=s, authentication=SimpleCredential(password=s)))
        out.append(BindRequest(message_id=1, controls=[], version=3, name="", authentication=SaslCredential(mechanism=s, credentials=None)))
        out.append(ExtendedRequest(message_id=1, controls=[], name=s, value=None))
        out.append(ExtendedResponse(message_id=1, controls=[], result=RESULTS[0], name=s, value=None))
        out.append(SearchResultReference(message_id=1, controls=[], uris=[s, s]))
        out.append(SearchResultEntry(message_id=1, controls=[], object_name=s, attributes=[PartialAttribute(s, [])]))
        out.append(SearchRequest(message_id=1, controls=[], base_object=s, scope=SearchScope.BASE, deref_aliases=DereferencingPolicy.ALWAYS, size_limit=0, time_limit=0,
                                 types_only=False, filter=FilterPresent(s), attributes=[s]))
    for b in BYTS:
        out.append(BindRequest(message_id=1, controls=[], version=3, name="", authentication=SaslCredential(mechanism="GSSAPI", credentials=b)))
        out.append(BindResponse(message_id=1, controls=[], result=RESULTS[0], server_sasl_creds=b))
        out.append(ExtendedRequest(message_id=1, controls=[], name="1", value=b))
        out.append(ExtendedResponse(message_id=1, controls=[], result=RESULTS[0], name=None, value=b))
        out.append(SearchResultEntry(message_id=1, controls=[], object_name="", attributes=[PartialAttribute("a", [b, b]), PartialAttribute("b", [])]))
    for r in RESULTS:
        out.append(BindResponse(message_id=1, controls=[], result=r, server_sasl_creds=None))
        out.append(SearchResultDone(message_id=1, controls=[], result=r))
        out.append(ExtendedResponse(message_id=1, controls=[], result=r, name="1.3.6.1.4.1.1466.20036", value=None))
    for v in INTS:
        out.append(BindRequest(message_id=1, controls=[], version=v, name="", authentication=SimpleCredential(password="")))
        out.append(SearchRequest(message_id=1, controls=[], base_object="", scope=SearchScope.ONE_LEVEL, deref_aliases=DereferencingPolicy.NEVER, size_limit=v, time_limit=-v,
                                 types_only=True, filter=FilterPresent("a"), attributes=[]))
        out.append(SearchResultDone(message_id=v, controls=[PagedResultControl(critical=False, size=v, cookie=b"")], result=RESULTS[0]))
    for f in ALL_FILTERS:
        for to in (False, True):
            out.append(SearchRequest(message_id=7, controls=[], base_object="dc=x", scope=SearchScope.SUBTREE, deref_aliases=DereferencingPolicy.IN_SEARCHING, size_limit=1,
                                     time_limit=2, types_only=to, filter=f, attributes=["cn", "*", "1.1"]))
    out.append(SearchResultReference(message_id=1, controls=[], uris=[]))
    out.append(SearchResultEntry(message_id=1, controls=[], object_name="", attributes=[]))
    # names / values that differ only in case or repeat (a decoder that normalises, interns or de-duplicates would change them)
    out.append(SearchResultEntry(message_id=1, controls=[], object_name="CN=X", attributes=[PartialAttribute("cn", [b"v"]), PartialAttribute("CN", [b"V"]), PartialAttribute("cn", [b"v"])]))
    out.append(SearchResultEntry(message_id=2, controls=[], object_name="cn=x", attributes=[PartialAttribute("Cn", [b"v", b"v"])]))
    out.append(SearchResultReference(message_id=1, controls=[], uris=["ldap://A", "ldap://a", "ldap://A"]))
    for sc in SearchScope:
        for dp in DereferencingPolicy:
            out.append(SearchRequest(message_id=1, controls=[], base_object="", scope=sc, deref_aliases=dp, size_limit=0, time_limit=0, types_only=False, filter=FilterPresent("a"), attributes=[]))
    # long lists (a decoder or encoder with a fixed-size table, an 8-bit counter or a cut-off keeps short lists intact)
    N = 300
    leaf = FilterPresent("a")
    for flt in (FilterAnd([leaf] * N), FilterOr([FilterEquality("a", b"%d" % q) for q in range(N)]), FilterSubstrings("a", None, [b"x"] * N, None)):
        out.append(SearchRequest(message_id=1, controls=[], base_object="", scope=SearchScope.BASE, deref_aliases=DereferencingPolicy.NEVER, size_limit=0, time_limit=0,
                                 types_only=False, filter=flt, attributes=["a%d" % q for q in range(N)]))
    out.append(SearchResultEntry(message_id=1, controls=[], object_name="", attributes=[PartialAttribute("a%d" % q, [b"v"]) for q in range(N)]))
    out.append(SearchResultEntry(message_id=1, controls=[], object_name="", attributes=[PartialAttribute("a", [b"%d" % q for q in range(N)])]))
    out.append(SearchResultReference(message_id=1, controls=[], uris=["ldap://h%d" % q for q in range(N)]))
    out.append(SearchResultDone(message_id=1, controls=[LDAPControl("1.2.%d" % q, False, None) for q in range(N)],
                                result=LDAPResult(result_code=LDAPResultCode.REFERRAL, matched_dn="", diagnostics_message="", referrals=["ldap://h%d" % q for q in range(N)])))
    for _ in range(300 if tier == "quick" else 4000):
        k = rnd.randrange(8)
        ctr = rnd.choice(ALL_CONTROLS)
        mid = rnd.choice(INTS)
        if k == 0:
            out.append(SearchRequest(message_id=mid, controls=ctr, base_object=rnd.choice(STRS), scope=rnd.choice(list(SearchScope)), deref_aliases=rnd.choice(list(DereferencingPolicy)),
                                     size_limit=rnd.choice(INTS), time_limit=rnd.choice(INTS), types_only=rnd.random() < .5, filter=filters(rnd), attributes=[rnd.choice(STRS) for _ in range(rnd.randrange(4))]))
        elif k == 1:
            out.append(SearchResultEntry(message_id=mid, controls=ctr, object_name=rnd.choice(STRS),
                                         attributes=[PartialAttribute(rnd.choice(STRS), [rnd.choice(BYTS) for _ in range(rnd.randrange(3))]) for _ in range(rnd.randrange(4))]))
        elif k == 2:
            out.append(BindRequest(message_id=mid, controls=ctr, version=rnd.choice(INTS), name=rnd.choice(STRS),
                                   authentication=rnd.choice([SimpleCredential(password=rnd.choice(STRS)), SaslCredential(mechanism=rnd.choice(STRS), credentials=rnd.choice([None] + BYTS))])))
        elif k == 3:
            out.append(BindResponse(message_id=mid, controls=ctr, result=rnd.choice(RESULTS), server_sasl_creds=rnd.choice([None] + BYTS)))
        elif k == 4:
            out.append(ExtendedResponse(message_id=mid, controls=ctr, result=rnd.choice(RESULTS), name=rnd.choice([None] + STRS), value=rnd.choice([None] + BYTS)))
        elif k == 5:
            out.append(ExtendedRequest(message_id=mid, controls=ctr, name=rnd.choice(STRS), value=rnd.choice([None] + BYTS)))
        elif k == 6:
            out.append(SearchResultReference(message_id=mid, controls=ctr, uris=[rnd.choice(STRS) for _ in range(rnd.randrange(4))]))
        else:
            out.append(SearchResultDone(message_id=mid, controls=ctr, result=rnd.choice(RESULTS)))
    return out


def expected_after_decode(m):
    """What unpack(pack(m)) must equal: m itself; a decoded control of a library-known type additionally exposes its raw value."""
    return m


def _ctl_key(c):
    import dataclasses
    from sansldap._controls import _KnownControl
    d = {f.name: getattr(c, f.name) for f in dataclasses.fields(c)}
    if isinstance(c, _KnownControl):
        d.pop("value", None)        # the permitted difference: a decoded known control additionally exposes its raw value
    return (type(c), sorted(d.items(), key=lambda kv: kv[0]))


def eq_msg(a, b):
    """Equality in every field; for library-known control types the raw `value` attribute is not part of the comparison."""
    import dataclasses
    if type(a) is not type(b):
        return False
    for f in dataclasses.fields(a):
        x, y = getattr(a, f.name), getattr(b, f.name)
        if f.name == "controls":
            if [_ctl_key(c) for c in x] != [_ctl_key(c) for c in y]:
                return False
        elif f.name == "result":
            # unknown result codes are enum pseudo-members whose int value is 0: compare the carried code explicitly
            if (x.result_code.value, x.matched_dn, x.diagnostics_message, x.referrals) != (y.result_code.value, y.matched_dn, y.diagnostics_message, y.referrals):
                return False
        elif x != y:
            return False
    return True


def library_decode(data):
    r = ASN1Reader(data)
    m = unpack_ldap_message(r, OPT)
    return m, bool(r)


def check_message(m, tier):
    try:
        data = bytes(m.pack(OPT))
    except Exception as e:
        rec("C03", "pack succeeds for every message value the types admit", m, f"{type(e).__name__}: {e}")
        return
    ab = abstract(m)
    # ---- C03
    n_eval["C03"] += 1
    try:
        got = rfc.decode(data, strict=True)
        if norm(got) != norm(ab):
            rec("C03", "the independent RFC 4511 decoder recovers the abstract message that was encoded", m, f"bytes {data.hex()[:200]} decode as {norm(got)[:300]} instead of {norm(ab)[:300]}")
    except rfc.DecodeError as e:
        kk = None
        if isinstance(m, UnbindRequest) and "UnbindRequest" in str(e) and "cons" in str(e):
            kk = {"kind": "UnbindRequest", "clause": "protocolOp identifier octet constructed bit"}
        rec("C03", "the bytes are a valid RFC 4511 / X.690 encoding (independent strict decoder)", m, f"{e}; bytes {data.hex()[:160]}", kk)
        if kk:
            # the known finding is one identifier octet (0x62 instead of 0x42): check everything else of the encoding with that octet repaired
            try:
                got = rfc.decode(data.replace(b"\x62\x00", b"\x42\x00", 1), strict=True)
                if norm(got) != norm(ab):
                    rec("C03", "the independent RFC 4511 decoder recovers the abstract message that was encoded", m, f"(unbind octet repaired) decode as {norm(got)[:300]}")
            except rfc.DecodeError as e2:
                rec("C03", "the bytes are a valid RFC 4511 / X.690 encoding (independent strict decoder)", m, f"(unbind octet repaired) {e2}")
    # ---- C01
    n_eval["C01"] += 1
    try:
        back, leftover = library_decode(data)
        if not eq_msg(back, m):
            rec("C01", "unpack(pack(m)) == m in every field", m, f"decoded {back!r}"[:400])
        if leftover:
            rec("C01", "decoding consumes exactly the bytes produced", m)
        again = bytes(back.pack(OPT))
        if again != data:
            rec("C01", "re-encoding the decoded message reproduces the same bytes", m, f"{again.hex()[:120]} vs {data.hex()[:120]}")
    except Exception as e:
        rec("C01", "unpack(pack(m)) succeeds", m, f"{type(e).__name__}: {e}")
    # ---- C04
    freedoms = [rfc.Freedom(extra_len=1), rfc.Freedom(extra_len=3), rfc.Freedom(true_octet=0x01), rfc.Freedom(true_octet=0x80), rfc.Freedom(explicit_defaults=True),
                rfc.Freedom(trailing=True), rfc.Freedom(extra_len=2, true_octet=0x7F, explicit_defaults=True, trailing=True),
                rfc.Freedom(trailing=2), rfc.Freedom(trailing=3), rfc.Freedom(trailing=4, extra_len=1)]
    if tier == "quick":
        freedoms = freedoms[:: 1]
    for fr in freedoms:
        n_eval["C04"] += 1
        try:
            alt = rfc.encode(ab, fr)
            back, leftover = library_decode(alt)
            if not eq_msg(back, m) or leftover:
                rec("C04", "a conforming peer's encoding decodes to the same message", m,
                    f"freedom(extra_len={fr.extra_len}, TRUE={fr.true_octet:#x}, explicit_defaults={fr.explicit_defaults}, trailing={fr.trailing}): bytes {alt.hex()[:160]} decoded as {back!r}"[:400])
        except Exception as e:
            rec("C04", "a conforming peer's encoding is accepted", m,
                f"freedom(extra_len={fr.extra_len}, TRUE={fr.true_octet:#x}, explicit_defaults={fr.explicit_defaults}, trailing={fr.trailing}): {type(e).__name__}: {e}"[:400])


def wrong_typed_variants(x):
    """x with one leaf (str / bytes / int / bool / None field, at any depth, list elements included) replaced by a value of another type."""
    import dataclasses
    if dataclasses.is_dataclass(x) and not isinstance(x, type):
        for f in dataclasses.fields(x):
            if not f.init:
                continue
            v = getattr(x, f.name)
            for w in _wrong(v):
                try:
                    yield dataclasses.replace(x, **{f.name: w})
                except Exception:
                    pass


def rebuild(x):
    """The same value constructed again from its fields (every dataclass instance of the tree through its constructor)."""
    import dataclasses
    if dataclasses.is_dataclass(x) and not isinstance(x, type):
        return dataclasses.replace(x, **{f.name: rebuild(getattr(x, f.name)) for f in dataclasses.fields(x) if f.init})
    if isinstance(x, list):
        return [rebuild(e) for e in x]
    return x


def _wrong(v):
    import dataclasses
    if isinstance(v, bool) or v is None:
        return
    if isinstance(v, str):
        yield b"x"; yield 7
    elif isinstance(v, bytes):
        yield "x"; yield 7
    elif isinstance(v, int):
        yield "x"; yield b"x"
    elif isinstance(v, list):
        for k in (range(len(v)) if len(v) <= 8 else (0, len(v) // 2, len(v) - 1)):
            for w in _wrong(v[k]):
                yield v[:k] + [w] + v[k + 1:]
        yield v + [object()]
    elif dataclasses.is_dataclass(v):
        yield from wrong_typed_variants(v)


def main():
    tier = os.environ.get("VERIF_TIER", "quick")
    seed = int(os.environ.get("VERIF_SEED", "0") or 0)
    t0 = time.time()
    msgs = gen_messages(tier, seed)
    # sanity of the oracle itself: canonical encode / strict decode agree on every abstract value used
    for m in msgs[:: 7]:
        ab = abstract(m)
        if not isinstance(m, UnbindRequest) or True:
            assert norm(rfc.decode(rfc.encode(ab), strict=True)) == norm(ab), ("oracle self-check failed", m)
    for m in msgs:
        check_message(m, tier)
    # decoding has no memory: the same octets decode to the same value whatever was decoded before (second pass, reverse order)
    for m in reversed(msgs):
        try:
            data = bytes(m.pack(OPT))
            back, _ = library_decode(data)
        except Exception:
            continue
        n_eval["C01"] += 1
        if not eq_msg(back, m):
            rec("C01", "unpack(pack(m)) == m in every field", m, f"second pass (after other messages were decoded): decoded {back!r}"[:400])
    # decoding depends on the options as they are now, not as they were when first used: a known control class taken out of
    # options.control.choices in place (same list, same length) is no longer used for its OID
    n_eval["C01"] += 1
    try:
        o = PackingOptions()
        paged = ExtendedRequest(message_id=1, controls=[PagedResultControl(False, 5, b"c")], name="1.2", value=None)
        pdata = bytes(paged.pack(o))
        r1 = unpack_ldap_message(ASN1Reader(pdata), o)
        k = o.control.choices.index(PagedResultControl)
        o.control.choices[k] = ShowDeletedControl          # replaced in place: the list keeps its length
        r2 = unpack_ldap_message(ASN1Reader(pdata), o)
        if type(r1.controls[0]) is not PagedResultControl or type(r2.controls[0]) is not LDAPControl or r2.controls[0].value != paged.controls[0].get_value(o.control):
            rec("C01", "unpack(pack(m)) == m in every field", paged, f"options changed in place between two decodes: first {r1.controls[0]!r}, then {r2.controls[0]!r} (expected the opaque LDAPControl carrying the same value)"[:400])
    except Exception as e:
        rec("C01", "unpack(pack(m)) succeeds", paged, f"options changed in place between two decodes: {type(e).__name__}: {e}")
    # encoding has no memory: after packs that FAIL half-way (one leaf of a message replaced by a value of the wrong type, at every
    # position of the message tree) every message still encodes to the bytes it encoded to before
    first = {}
    for i, m in enumerate(msgs):
        try:
            first[i] = bytes(m.pack(OPT))
        except Exception:
            pass
    n_failed = 0
    for i, m in enumerate(msgs):
        if i not in first or (tier == "quick" and i % 3):
            continue
        for bad_m in wrong_typed_variants(m):
            try:
                bad_m.pack(OPT)
                continue
            except Exception:
                n_failed += 1
            # straight after the failure: the message itself, built anew
            n_eval["C03"] += 1
            try:
                again = bytes(rebuild(m).pack(OPT))
            except Exception as e:
                rec("C03", "pack(m) is a function of m: same bytes after other packs failed", m, f"straight after the failed pack of {bad_m!r}: {type(e).__name__}: {e}"[:400])
                break
            if again != first[i]:
                rec("C03", "pack(m) is a function of m: same bytes after other packs failed", m, f"straight after the failed pack of {bad_m!r}: {again.hex()[:160]} instead of {first[i].hex()[:160]}"[:500])
                break
    for i, m in enumerate(msgs):
        if i not in first:
            continue
        n_eval["C03"] += 1
        try:
            again = bytes(rebuild(m).pack(OPT))     # built anew: values computed at construction time are computed again
        except Exception as e:
            rec("C03", "pack(m) is a function of m: same bytes after other packs failed", m, f"after {n_failed} failed packs: {type(e).__name__}: {e}")
            continue
        if again != first[i]:
            rec("C03", "pack(m) is a function of m: same bytes after other packs failed", m, f"after {n_failed} failed packs: {again.hex()[:160]} instead of {first[i].hex()[:160]}")
    total = sum(n_eval.values())
    out = {"evaluations": total, "distinct_nontrivial": total, "per_property": n_eval, "messages": len(msgs),
           "violations": list(known_seen.values()) + violations, "wall_s": round(time.time() - t0, 2),
           "bound": f"{len(msgs)} messages: all 9 kinds, each field over its boundary classes one factor at a time ({len(INTS)} integers, {len(STRS)} strings, {len(BYTS)} octet strings, "
                    f"{len(ALL_FILTERS)} filter shapes incl. every choice, {len(ALL_CONTROLS)} control lists, {len(RESULTS)} results) + seeded random combinations; 10 encoding-freedom combinations each for C04 (incl. trailing elements whose tag number coincides with a known component in another class)"}
    json.dump(out, sys.stdout, default=str)


if __name__ == "__main__":
    if len(sys.argv) > 2 and sys.argv[1] == "replay":
        spec = json.load(open(sys.argv[2]))
        import re as _re
        # fields that are not constructor arguments (tag_number of a message, control_type of the known controls) are dropped from the recorded repr
        _txt = _re.sub(r"tag_number=\d+, ", "", spec["inputs"]["message"])
        _txt = _re.sub(r"(PagedResultControl|ShowDeletedControl|ShowDeactivatedLinkControl)\(control_type='[^']*', ", r"\1(", _txt)
        _txt = _re.sub(r"<(\w+)\.(\w+): [^>]*>", r"\1.\2", _txt)
        m = eval(_txt)
        check_message(m, "quick")
        if "after other packs failed" in str(spec.get("clause", "")):
            first_bytes = bytes(m.pack(OPT))
            for bad_m in wrong_typed_variants(m):
                try:
                    bad_m.pack(OPT)
                    continue
                except Exception:
                    pass
                again = bytes(rebuild(m).pack(OPT))
                if again != first_bytes:
                    rec("C03", "pack(m) is a function of m: same bytes after other packs failed", m, f"straight after the failed pack of {bad_m!r}: {again.hex()[:160]} instead of {first_bytes.hex()[:160]}"[:500])
                    break
        print(json.dumps({"violations": (list(known_seen.values()) + violations)[:6]}, default=str)[:3000])
        sys.exit(1 if (violations or known_seen) else 0)
    main()
