"""Bounded stand-in / replay harness for C07 (BER primitives); runs under /venv/bin/python.

The asn1 functions run with their sidecar contracts installed as run-time checks (the same clauses the prover
discharges, spec functions executed natively), and the results are additionally compared with an arithmetic oracle that
shares nothing with the code under test: Python's int.to_bytes / int.from_bytes(signed=True).
Labelled bounded; never counted as proved.
"""
import sys, os, json, time
sys.path.insert(0, os.path.dirname(os.path.dirname(os.path.abspath(__file__))))
sys.setrecursionlimit(20000)
from pyvc import native

violations, counts = [], {}
native.install(violations, counts, prefixes=("asn1:",))
import sansldap.asn1 as a
from sansldap.asn1 import ASN1Reader, ASN1Writer, ASN1Tag, TagClass, TypeTagNumber, NotEnougData

n_eval = 0


def rec(kind, clause, inputs, detail=""):
    violations.append({"function": "asn1:roundtrip", "kind": kind, "property": "C07", "clause": clause, "inputs": inputs, "detail": detail})


def minimal_tc(v):
    n = 1
    while True:
        try:
            return v.to_bytes(n, "big", signed=True)
        except OverflowError:
            n += 1


def check_int(v, tag=None, enumerated=False):
    global n_eval
    n_eval += 1
    try:
        w = ASN1Writer()
        (w.write_enumerated if enumerated else w.write_integer)(v, tag)
        data = bytes(w.get_data())
        hdr = a._read_asn1_header(data)
        content = data[hdr.tag_length:]
        if content != minimal_tc(v):
            rec("oracle", "writer emits minimal two's complement", {"value": v, "enumerated": enumerated}, f"content {content.hex()} != {minimal_tc(v).hex()}")
        r = ASN1Reader(data + b"\xAA")
        if enumerated:
            got, consumed = a._read_asn1_enumerated(memoryview(data + b"\xAA"), tag=tag)
        else:
            got = r.read_integer(tag=tag)
            consumed = len(data) + 1 - len(r.get_remaining_data())
        if got != v:
            rec("oracle", "read(write(v)) == v", {"value": v, "enumerated": enumerated}, f"wrote {data.hex()} read back {got}")
        if consumed != len(data):
            rec("oracle", "reader consumes exactly the value", {"value": v}, f"consumed {consumed} of {len(data)}")
        # padded (non-minimal) contents denote the same value
        for pad in (1, 3):
            padded = (b"\xff" if v < 0 else b"\x00") * pad + content
            tagb = data[:1]
            ln = len(padded)
            enc = tagb + (bytes([ln]) if ln < 128 else bytes([0x81, ln]) if ln < 256 else bytes([0x82, ln >> 8, ln & 255])) + padded
            got2 = (a._read_asn1_enumerated(memoryview(enc), tag=tag)[0] if enumerated else ASN1Reader(enc).read_integer(tag=tag))
            if got2 != v:
                rec("oracle", "padded content denotes the same integer", {"value": v, "pad": pad}, f"{enc.hex()} read as {got2}")
    except Exception as e:
        if isinstance(e, AssertionError):
            raise
        rec("oracle", "integer round trip raised", {"value": v, "enumerated": enumerated}, f"{type(e).__name__}: {e}")


def check_content_int(content):
    """Reader maps any content octets to the value they denote."""
    global n_eval
    n_eval += 1
    enc = b"\x02" + bytes([len(content)]) + content
    try:
        got = ASN1Reader(enc).read_integer()
        want = int.from_bytes(content, "big", signed=True)
        if got != want:
            rec("oracle", "reader == two's complement value of the content", {"content": content.hex()}, f"got {got} want {want}")
    except ValueError as e:
        if content:
            rec("oracle", "reader rejects a valid INTEGER content", {"content": content.hex()}, str(e))


def check_tlv(cls, cons, num, n):
    global n_eval
    n_eval += 1
    payload = bytes((i * 7 + 3) & 0xFF for i in range(n))
    try:
        data = a._pack_asn1(cls, cons, num, payload)
        hdr = a._read_asn1_header(data + b"\x55\x66")
        if (int(hdr.tag.tag_class), bool(hdr.tag.is_constructed), int(hdr.tag.tag_number)) != (cls, cons, num) or hdr.length != n:
            rec("oracle", "tag / length read back identically", {"cls": cls, "cons": cons, "num": num, "len": n}, f"{data[:12].hex()} -> {hdr}")
        if data[hdr.tag_length:] != payload:
            rec("oracle", "content follows the header unchanged", {"cls": cls, "cons": cons, "num": num, "len": n})
        r = ASN1Reader(data + b"\x55\x66")
        val = r.read_octet_string(tag=ASN1Tag(TagClass(cls), num, cons))
        if val != payload or r.get_remaining_data() != b"\x55\x66":
            rec("oracle", "octet string round trip, nothing consumed beyond it", {"cls": cls, "cons": cons, "num": num, "len": n})
        # every proper prefix of the header is 'not enough data', never another error
        for cut in range(hdr.tag_length):
            try:
                a._read_asn1_header(data[:cut])
                rec("oracle", "truncated header must raise NotEnougData", {"data": data[:cut].hex()})
            except NotEnougData:
                pass
            except Exception as e:
                rec("oracle", "truncated header must raise NotEnougData", {"data": data[:cut].hex()}, f"{type(e).__name__}")
    except Exception as e:
        rec("oracle", "TLV round trip raised", {"cls": cls, "cons": cons, "num": num, "len": n}, f"{type(e).__name__}: {e}")


def check_length_forms(n, trailing):
    """Every definite length form (short, long with 1..5 length octets incl. leading zeros) is read as the same length."""
    global n_eval
    payload = bytes(i % 251 for i in range(n))
    forms = []
    if n < 128:
        forms.append(bytes([n]))
    for k in range(1, 6):
        if n < 256 ** k:
            forms.append(bytes([0x80 | k]) + n.to_bytes(k, "big"))
    for f in forms:
        n_eval += 1
        enc = b"\x04" + f + payload + trailing
        try:
            hdr = a._read_asn1_header(enc)
            if hdr.length != n or hdr.tag_length != 1 + len(f):
                rec("oracle", "every definite length form denotes the same length", {"form": f.hex(), "len": n}, repr(hdr))
            r = ASN1Reader(enc)
            if r.read_octet_string() != payload or r.get_remaining_data() != trailing:
                rec("oracle", "value read back under a non-minimal length form", {"form": f.hex(), "len": n})
        except Exception as e:
            rec("oracle", "reader rejects a valid definite length form", {"form": f.hex(), "len": n, "trailing": trailing.hex()}, f"{type(e).__name__}: {e}")


def main():
    tier = os.environ.get("VERIF_TIER", "quick")
    t0 = time.time()
    ints = set(range(-1100, 1100))
    top = 130 if tier == "quick" else 600
    for k in range(0, top):
        for d in (-2, -1, 0, 1, 2):
            ints.add((1 << k) + d)
            ints.add(-(1 << k) + d)
    for k in (7, 8, 15, 16, 23, 24, 31, 32, 63, 64):
        ints.add((0xFF << k))
        ints.add(-(0xFF << k))
        ints.add(-(1 << k) * 256)
    for v in sorted(ints):
        check_int(v)
    for v in list(range(-300, 300)) + [2 ** 31, -2 ** 31, 2 ** 63, -2 ** 63 - 1]:
        check_int(v, enumerated=True)
        check_int(v, tag=ASN1Tag(TagClass.CONTEXT_SPECIFIC, 5, False))
    alphabet = [0x00, 0x01, 0x7F, 0x80, 0xFE, 0xFF]
    import itertools
    for n in (1, 2, 3, 4 if tier == "quick" else 5):
        for c in itertools.product(alphabet, repeat=n):
            check_content_int(bytes(c))
    nums = list(range(0, 37)) + [127, 128, 129, 255, 256, 16383, 16384, 2 ** 21 - 1, 2 ** 21, 2 ** 28, 2 ** 35 + 7]
    lens = [0, 1, 2, 126, 127, 128, 129, 255, 256, 257, 65535, 65536] + ([2 ** 24] if tier == "thorough" else [])
    for cls in (0, 1, 2, 3):
        for cons in (False, True):
            for num in nums:
                if cls == 0 and num > 36:
                    continue
                for n in (lens if num in (0, 4, 30, 31, 127, 128, 16384) else (0, 127, 128)):
                    check_tlv(cls, cons, num, n)
    for n in (0, 1, 2, 127, 128, 255, 256, 1000):
        for trailing in (b"", b"\x00", b"\x30\x00"):
            check_length_forms(n, trailing)
    # booleans, nesting
    for val in (True, False):
        w = ASN1Writer()
        with w.push_sequence() as s1:
            with s1.push_set() as s2:
                s2.write_boolean(val)
                s2.write_octet_string(b"x" * 200)
            s1.write_integer(-129)
        d = bytes(w.get_data())
        r = ASN1Reader(d)
        seq = r.read_sequence()
        st = seq.read_set()
        got = (st.read_boolean(), st.read_octet_string(), bool(st), seq.read_integer(), bool(seq), bool(r))
        if got != (val, b"x" * 200, False, -129, False, False):
            rec("oracle", "nested sequence/set round trip", {"val": val}, repr(got))
    for octet in range(256):
        got = ASN1Reader(bytes([1, 1, octet])).read_boolean()
        if got != (octet != 0):
            rec("oracle", "BOOLEAN is TRUE iff the octet is non-zero", {"octet": octet})
    out = {"evaluations": n_eval, "distinct_nontrivial": n_eval, "contract_evaluations": counts.get("evaluated", 0),
           "violations": violations[:40], "wall_s": round(time.time() - t0, 2),
           "bound": f"{len(ints)} integers (all |v| < 1100, every 2^k +- 2 for k < {top}, carry patterns), all contents of length <= 4 over 6 octet classes, "
                    f"{len(nums)} tag numbers x 4 classes x 2 forms x lengths up to 65536, booleans 0..255, two-level nesting"}
    json.dump(out, sys.stdout)


if __name__ == "__main__":
    if len(sys.argv) > 2 and sys.argv[1] == "replay":
        spec = json.load(open(sys.argv[2]))
        inp = spec.get("inputs", {})
        if "value" in inp:
            check_int(int(inp["value"]), enumerated=bool(inp.get("enumerated")))
        elif "content" in inp:
            check_content_int(bytes.fromhex(inp["content"]))
        elif "num" in inp:
            check_tlv(int(inp["cls"]), bool(inp["cons"]), int(inp["num"]), int(inp["len"]))
        else:
            main()
        print(json.dumps({"violations": violations[:10]}))
        sys.exit(1 if violations else 0)
    main()
