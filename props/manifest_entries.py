"""Text of the MANIFEST entries (kept next to the registry so they stay in step)."""
_TB = ("Trusted: pyvc's model of the Python subset (DESIGN.md 3.2, cross-checked natively), z3 unsat answers, the spec functions "
       "in /verif/specs; LDAPMessage.pack is abstract at this layer (a total function enc(msg, options)); arguments conform to "
       "their annotations; single-threaded use. The bounded component (all API/delivery histories up to a stated depth with the "
       "same contracts checked at run time) is labelled bounded and never counted as proved.")
_SESSION_TECH = "contract-based deductive verification: two-state method contracts on the real _session.py, z3-discharged VCs generated from the AST on every run; run-time checking of the same contracts over bounded API histories as stand-in/replay"
ENTRIES = {
    "C08": {"category": "proof", "technique": _SESSION_TECH, "note": _TB,
            "text": "Every public method and every _send/_process_incoming_message of LDAPSession/LDAPClient/LDAPServer is verified against a two-state contract "
                    "taken from the documented state machine: CLOSED rejects everything with no state/byte change, BINDING is entered only by bind "
                    "traffic and left only by a non-SASL bind response that was actually sent/accepted, bind needs no outstanding operations, only bind "
                    "traffic or a termination passes the gate while BINDING. All histories follow by induction over calls (each contract holds from any state)."},
    "C09": {"category": "proof", "technique": _SESSION_TECH, "note": _TB,
            "text": "Client contracts with the class invariant ids < counter, searches subset of outstanding: _send returns old(counter), increments it, records the id and emits "
                    "enc(msg with that id); _process_incoming_message accepts iff the message is a response whose id is in progress, keeps a search until its done, retires "
                    "everything else, never raises KeyError. Holds for all interleavings because each contract is proved from an arbitrary state satisfying the invariant."},
    "C10": {"category": "proof", "technique": _SESSION_TECH, "note": _TB,
            "text": "Exceptional postconditions on every sending method: raises only LDAPError, and on raise the outgoing buffer, the bookkeeping sets and the counter are unchanged; "
                    "server sends require the id to be outstanding, final responses retire it, entries/references keep it."},
    "C12": {"category": "proof", "technique": _SESSION_TECH, "note": _TB,
            "text": "data_to_send: result ++ remaining == old pending for every amount (None, negative, zero, larger than pending; Python slice semantics modelled exactly), frame = the "
                    "buffer only. Every send: pending' == pending ++ enc(the message) on success, unchanged on failure. 'drained ++ pending == concatenation of successful encodings' is then an invariant of every history."},
}
_ASN_TECH = "contract-based deductive verification: pre/postconditions and loop invariants on every function of the real asn1.py against X.690 spec functions, lemmas as ghost functions, VCs from the AST on every run discharged by z3 5.1 / z3 4.8.12 / cvc5 1.0.3; run-time checking of the same contracts plus an int.from_bytes oracle as bounded stand-in/replay"
_TB_ASN = ("Trusted: pyvc's model of the Python subset (unbounded ints, octet sequences, Python slice/index semantics, implicit exceptions), unsat answers of z3 5.1 / z3 4.8.12 / cvc5 1.0.3, "
           "the X.690 spec functions in /verif/specs/ber.py. Assumed: len(x) < 2^63, INTEGER contents of at most 2^40 octets, tag numbers >= 0. Small helpers without a contract are executed symbolically at each call site.")
ENTRIES.update({
    "C07": {"category": "proof", "technique": _ASN_TECH, "note": _TB_ASN,
            "text": "All 29 functions/methods of asn1.py are verified for all inputs: the INTEGER writer emits content c with tc(c) == value and minimal_tc(c) (two's complement, X.690 8.3); the reader returns tc(content) "
                    "for any non-empty content, padded or not; identifier and length octets are written minimally and parsed by a header reader proved equal to the X.690 denotation for every definite form; "
                    "readers advance by exactly the TLV they return and do not move on exceptions. Round trips (tag, length, integer, boolean, octet string, one nesting level) are lemmas over these contracts "
                    "(lemma_tlv_roundtrip: unique readability whatever follows), so they hold for every value, not for sampled ones."},
    "C06": {"category": "proof", "technique": _SESSION_TECH.replace("_session.py", "_session.py / _messages.py"), "note": _TB,
            "text": "unpack_ldap_message is proved to raise NotEnougData only when the outermost TLV is incomplete and then without moving the reader; any shortage inside a complete envelope becomes ValueError. "
                    "receive is proved (both buffer paths, loop invariants over msgs/residue) to return exactly the messages of the complete top-level TLVs of buffered ++ delivered bytes and to keep exactly the residue, "
                    "which never starts with a complete TLV (lemma_residue_incomplete); every other outcome is ProtocolError."},
    "C02": {"category": "proof", "technique": _SESSION_TECH.replace("_session.py", "_session.py / _messages.py"), "note": _TB + " The final composition over a partition into chunks (fold of the per-call contracts) is a paper argument stated in the evidence.",
            "text": "receive's contract is stated over R ++ data (R = bytes held back): result == msgs(R ++ data), buffer' == residue(R ++ data), identical for the buffered and the direct path. "
                    "lemma_chunk (induction over frames, using prefix-stability of the X.690 header denotation) proves msgs(A ++ B) == msgs(A) ++ msgs(residue(A) ++ B) and residue(A ++ B) == residue(residue(A) ++ B), "
                    "so any chunking returns the same messages in the same order and leaves the same buffer; octet strings are copied out of the view (read_octet_string returns bytes)."},
    "C05": {"category": "proof", "technique": _SESSION_TECH + "; exception-containment contracts (raises-only + loop progress) on every function of the BER decode tree of _messages / _filter / _controls / _authentication, discharged from the AST",
            "note": _TB + " Assumed: default PackingOptions (no user-registered custom types); RecursionError is the only resource exception (caught by receive; MemoryError excluded).",
            "text": "Proved for all byte strings: (1) each of the 34 decode functions below the envelope (8 message kinds, LDAPResult, PartialAttribute, the 11 filter choices and their dispatcher, controls incl. the paged-results value, "
                    "both credential choices, the content decoder with its PROTOCOL_PACKER dispatch and controls / responseName loop) raises nothing but ValueError (incl. UnicodeDecodeError) / NotImplementedError / NotEnougData - "
                    "every implicit exception site (indexing, dict lookup, enum conversion, attribute access on None, unpack arity) is an obligation - and every `while reader:` loop consumes at least one TLV per iteration (decreases); "
                    "(2) unpack_ldap_message turns NotEnougData inside a complete envelope into ValueError; (3) receive and _process_incoming_message of both roles raise nothing but ProtocolError, "
                    "a CLOSED session raises without touching its buffers, every error path ends CLOSED with the outstanding set cleared, and the attached response equals the encoding of UnbindRequest(0) (client) / "
                    "notice of disconnection with protocolError (server). Chunking independence is C02. The bounded sweep (malformed interiors, 1500-deep filters, every single-octet header corruption, every chunking) runs the same contracts natively."},
})
_TXT_NOTE = ("The parsers are regex + str.split/strip code; z3/cvc5 do not decide their string constraints reliably (DESIGN.md 3.7), so the contract is *evaluated* on a stated bounded-exhaustive "
             "input set and labelled bounded; the regex parts are exact decisions on the automaton of the pattern as parsed by the interpreter that runs the code. Trusted: textbook semantics of the sre opcodes in use; "
             "the RFC transcriptions (reference patterns, sentence generators) are the oracle.")
ENTRIES.update({
    "C13": {"category": "other", "technique": "contract from_string(str(f)) == f stated on the real functions; per-octet escape map checked exhaustively over all 256 octets; tree round trips bounded-exhaustive", "note": _TXT_NOTE,
            "text": "Exhaustive: each of the 256 octets is written as itself (printable, not one of ( ) * \\) or as \\hh and reads back as that octet. Bounded: every leaf kind x every value of length <= 2 (<= 3 thorough) over the 20 octets the parser "
                    "compares against, alone and nested under and/not, plus wide trees over RFC-valid attribute descriptions with options and OIDs. One listed known finding (attribute + rule literally named 'dn')."},
    "C14": {"category": "other", "technique": "contract from_string(s) == tree denoted by s, evaluated on grammar derivations generated with their trees; attribute language inclusion exact (automata)", "note": _TXT_NOTE,
            "text": "About 1200 RFC 4515 sentences per run generated production by production (all assertion kinds, extensible match in both forms with ':dn' in three spellings, substrings with escaped stars, both hex cases, raw UTF-8, "
                    "options, OIDs, 0-2 tolerated spaces at each tolerated position) together with the tree the derivation denotes; exact check that every RFC 4512 attribute description is accepted."},
    "C15": {"category": "other", "technique": "exact automata difference L(_ATTRIBUTE_PATTERN) vs RFC 4512 attributedescription; bounded-exhaustive evaluation of the totality / span / self-consistency contract", "note": _TXT_NOTE,
            "text": "Exact over full Unicode: the compiled attribute pattern accepts nothing outside the RFC 4512 attribute-description language except the listed known finding (one-arc numeric OIDs, pinned by tests). "
                    "Bounded: all 331,776+ strings of length <= 4 (<= 5 thorough) over a 24-symbol class alphabet (structural characters, NUL, newline, non-ASCII, lone surrogates) and ~35,000 single-character edits of grammar sentences, "
                    "plus deep nesting: only FilterSyntaxError, span inside the input, accepted results valid and re-parsing to themselves."},
    "C16": {"category": "other", "technique": "contract T.from_string(str(d)) == d stated on the real classes, evaluated bounded-exhaustively", "note": _TXT_NOTE,
            "text": "Every field present/absent, name and OID lists of length 0-3, every kind/usage/flag combination, syntax lengths incl. 0, and descriptions / extension values over 28 strings built from the characters the encoder, "
                    "the un-escaper and the grammar distinguish (quote, backslash, |, literal \\27 / 5c sequences, non-ASCII, spaces, parentheses), one factor at a time plus seeded random combinations."},
    "C17": {"category": "other", "technique": "exact automata inclusion L(RFC 4512 ABNF) within the prefix language of each compiled description regex; bounded evaluation of field extraction and totality", "note": _TXT_NOTE,
            "text": "Exact: for ObjectClass, AttributeType (incl. quoted SYNTAX) and DITContentRule every ABNF sentence matches the compiled pattern. Bounded: sentences generated with their denoted field values and 1-3 / 0-2 spaces at every SP / WSP, "
                    "single vs parenthesised lists, escaped quotes and backslashes, 0-3 extensions; totality (only ValueError) over ~90,000 short strings after structural prefixes and ~70,000 single-character edits."},
    "C18": {"category": "other", "technique": "decision procedure: no exponential ambiguity in the Glushkov automaton of every pattern the parsers compile (exact); timing replay of refutations; bounded growth probe of the hand-written scanners", "note":
            "Assumed contract of the dependency: CPython sre is a backtracking matcher whose cost on a pattern without exponential ambiguity is polynomial in the subject length. Patterns are collected from the imported modules and from re.* call sites "
            "(AST), so new patterns are picked up. Wall-clock is only measured to confirm refutations and in the bounded probe.",
            "text": "Every compiled pattern (19 on the current tree, incl. inline re.sub/re.match literals) is decided exactly: the product automaton has no strongly connected component with a diagonal and an off-diagonal pair. "
                    "The asn1 loops carry proved decreases clauses (C07); the filter scanners and receive are probed on ~100 adversarial families at two sizes (bounded)."},
})
ENTRIES["C19"] = {"category": "other", "technique": "frame / ownership conditions as syntactic obligations over the ASTs of all modules (one per function and class); bounded interleaving and registration scenarios as stand-in",
                  "note": "Sound for code without reflection; the enum pseudo-member cache is declared benign; the step from frames to non-interference of arbitrary interleavings is the frame rule (paper argument).",
                  "text": "618 obligations on the current tree: no function writes module-level or class-level state or uses a module-level mutable object other than read-only, no mutable defaults, LDAPSession/LDAPClient.__init__ create every "
                          "mutable field in that activation, *Options objects have no hidden state and dispatchers never write to them, register_* appends to self._packing_options.<kind>.choices after the duplicate test. "
                          "Bounded: 3 session groups x 63 interleavings with half-failing calls; custom filter/control/credential registered before and after first traffic versus an unregistered session."}
_MSG_NOTE = ("The byte layer (every TLV, integer, boolean, length form) is proved for all values under C07. The per-message node-level contracts are evaluated, not yet discharged: bounded and labelled so. "
             "Oracle: /verif/specs/rfc4511.py, an independent codec transcribed from RFC 4511 Appendix B (its canonical encode / strict decode are cross-checked against each other on every run).")
ENTRIES.update({
    "C01": {"category": "other", "technique": "contract unpack(pack(m)) == m on the real functions evaluated over a bounded message set; byte layer proved (C07)", "note": _MSG_NOTE,
            "text": "587 messages per quick run (all nine kinds, every field over its boundary classes, 20 filter shapes incl. every choice and empty lists, 12 control lists incl. the three known types, both credential choices, unknown result codes): "
                    "decoded value equal in every field (result codes compared by carried value, known controls modulo their exposed raw value), reader exhausted, re-encoding byte-identical."},
    "C03": {"category": "other", "technique": "contract strict_rfc4511_decode(pack(m)) == abstract(m) against an independent codec written from the RFC, evaluated over a bounded message set; primitive encodings proved (C07)", "note": _MSG_NOTE,
            "text": "The independent strict decoder checks class, number and primitive/constructed form of every element, minimal definite lengths, minimal INTEGERs, TRUE = FF, omitted defaults / absent optionals, and must recover the abstract message. "
                    "One listed known finding: UnbindRequest is emitted with the constructed bit (0x62); everything else of unbind messages is checked with that octet repaired."},
    "C04": {"category": "other", "technique": "byte-level acceptance of every definite length form / any non-zero TRUE proved (C07); message-level contract evaluated over message set x encoding freedoms", "note": _MSG_NOTE,
            "text": "Each message is re-encoded by the independent encoder with extra length octets at every node (incl. the fixed 4-octet lengths of Active Directory), TRUE as 01 / 80 / 7F, explicitly encoded DEFAULT values, and unknown trailing elements after the defined components; "
                    "the library must decode all of them to the same message."},
})
ENTRIES["C11"] = {"category": "other",
                  "technique": "contract-level joint inductive invariant over (client, server, two FIFO queues): each action's session part is derived from the proved L3 method contracts, preservation discharged per action and conjunct with z3; bounded joint exploration with partial deliveries as stand-in for the terminations",
                  "note": "Proved for the alive fragment (no unbind / notice / protocol error): 203 obligations (preconditions from J, preservation of the 13 conjuncts under 13 actions, no ProtocolError on delivery, initial state, quiescence agreement, vacuity canaries). "
                          "Environment (queues, ghost bookkeeping) and the application assumptions of the statement are written in pyvc/joint.py; byte-level chunked delivery is reduced to message delivery by C02 and value equality by C01 (lemmas). "
                          "Terminations are covered only by the bounded exploration (all joint histories up to depth 7 / 9 with 1-, 3- and all-byte deliveries).",
                  "text": "If every public session operation satisfies its proved contract, then from two fresh sessions every reachable joint state satisfies J; J gives: delivering the head of either pipe never raises ProtocolError, "
                          "and when both pipes are empty the sides agree on BINDING / not BINDING and on the set of operations in progress (and which are searches). The level is 'other' because the termination part of the statement is bounded, not proved."}
NOT_APPLICABLE = {}
