"""Text of the MANIFEST entries (kept next to the registry so they stay in step)."""
_TB = ("Trusted: pyvc's model of the Python subset (DESIGN.md 3.2, cross-checked natively), z3 unsat answers, the spec functions "
       "in /verif/specs; LDAPMessage.pack is abstract at this layer (a total function enc(msg, options)); arguments conform to "
       "their annotations; single-threaded use. The bounded component (all API/delivery histories up to a stated depth with the "
       "same contracts checked at run time) is labelled bounded and never counted as proved.")
_SESSION_TECH = "contract-based deductive verification: two-state method contracts on the real _session.py, z3-discharged VCs generated from the AST on every run; run-time checking of the same contracts over bounded API histories as stand-in/replay"
ENTRIES = {
    "C08": {"category": "proof", "technique": _SESSION_TECH, "note": _TB,
            "text": "Every public method and every _send/_process_incoming_message of LDAPSession/LDAPClient/LDAPServer is verified against a two-state contract "
                    "taken from the documented state machine: CLOSED rejects everything with no state/byte change, BINDING is entered only by bind "
                    "traffic and left only by a non-SASL bind response that was actually sent/accepted, bind needs no outstanding operations, only bind "
                    "traffic or a termination passes the gate while BINDING. All histories follow by induction over calls (each contract holds from any state)."},
    "C09": {"category": "proof", "technique": _SESSION_TECH, "note": _TB,
            "text": "Client contracts with the class invariant ids < counter, searches subset of outstanding: _send returns old(counter), increments it, records the id and emits "
                    "enc(msg with that id); _process_incoming_message accepts iff the message is a response whose id is in progress, keeps a search until its done, retires "
                    "everything else, never raises KeyError. Holds for all interleavings because each contract is proved from an arbitrary state satisfying the invariant."},
    "C10": {"category": "proof", "technique": _SESSION_TECH, "note": _TB,
            "text": "Exceptional postconditions on every sending method: raises only LDAPError, and on raise the outgoing buffer, the bookkeeping sets and the counter are unchanged; "
                    "server sends require the id to be outstanding, final responses retire it, entries/references keep it."},
    "C12": {"category": "proof", "technique": _SESSION_TECH, "note": _TB,
            "text": "data_to_send: result ++ remaining == old pending for every amount (None, negative, zero, larger than pending; Python slice semantics modelled exactly), frame = the "
                    "buffer only. Every send: pending' == pending ++ enc(the message) on success, unchanged on failure. 'drained ++ pending == concatenation of successful encodings' is then an invariant of every history."},
}
_ASN_TECH = "contract-based deductive verification: pre/postconditions and loop invariants on every function of the real asn1.py against X.690 spec functions, lemmas as ghost functions, VCs from the AST on every run discharged by z3 5.1 / z3 4.8.12 / cvc5 1.0.3; run-time checking of the same contracts plus an int.from_bytes oracle as bounded stand-in/replay"
_TB_ASN = ("Trusted: pyvc's model of the Python subset (unbounded ints, octet sequences, Python slice/index semantics, implicit exceptions), unsat answers of z3 5.1 / z3 4.8.12 / cvc5 1.0.3, "
           "the X.690 spec functions in /verif/specs/ber.py. Assumed: len(x) < 2^63, INTEGER contents of at most 2^40 octets, tag numbers >= 0. Small helpers without a contract are executed symbolically at each call site.")
ENTRIES.update({
    "C07": {"category": "proof", "technique": _ASN_TECH, "note": _TB_ASN,
            "text": "All 29 functions/methods of asn1.py are verified for all inputs: the INTEGER writer emits content c with tc(c) == value and minimal_tc(c) (two's complement, X.690 8.3); the reader returns tc(content) "
                    "for any non-empty content, padded or not; identifier and length octets are written minimally and parsed by a header reader proved equal to the X.690 denotation for every definite form; "
                    "readers advance by exactly the TLV they return and do not move on exceptions. Round trips (tag, length, integer, boolean, octet string, one nesting level) are lemmas over these contracts "
                    "(lemma_tlv_roundtrip: unique readability whatever follows), so they hold for every value, not for sampled ones."},
    "C06": {"category": "proof", "technique": _SESSION_TECH.replace("_session.py", "_session.py / _messages.py"), "note": _TB,
            "text": "unpack_ldap_message is proved to raise NotEnougData only when the outermost TLV is incomplete and then without moving the reader; any shortage inside a complete envelope becomes ValueError. "
                    "receive is proved (both buffer paths, loop invariants over msgs/residue) to return exactly the messages of the complete top-level TLVs of buffered ++ delivered bytes and to keep exactly the residue, "
                    "which never starts with a complete TLV (lemma_residue_incomplete); every other outcome is ProtocolError."},
    "C02": {"category": "proof", "technique": _SESSION_TECH.replace("_session.py", "_session.py / _messages.py"), "note": _TB + " The final composition over a partition into chunks (fold of the per-call contracts) is a paper argument stated in the evidence.",
            "text": "receive's contract is stated over R ++ data (R = bytes held back): result == msgs(R ++ data), buffer' == residue(R ++ data), identical for the buffered and the direct path. "
                    "lemma_chunk (induction over frames, using prefix-stability of the X.690 header denotation) proves msgs(A ++ B) == msgs(A) ++ msgs(residue(A) ++ B) and residue(A ++ B) == residue(residue(A) ++ B), "
                    "so any chunking returns the same messages in the same order and leaves the same buffer; octet strings are copied out of the view (read_octet_string returns bytes)."},
    "C05": {"category": "other", "technique": _SESSION_TECH + "; exception containment below the envelope is a trusted contract backed by a bounded corruption sweep", "note": _TB,
            "text": "Proved: LDAPSession/LDAPClient/LDAPServer.receive and _process_incoming_message raise nothing but ProtocolError (every implicit exception site is an obligation: set.remove, indexing, enum conversion, "
                    "attribute access on None), a CLOSED session raises without touching its buffers, every error path ends CLOSED with the outstanding set cleared, and the attached response is the encoding of an UnbindRequest "
                    "(client) / notice of disconnection with PROTOCOL_ERROR (server). Not proved (level 'other'): that the decoders below the envelope raise only ValueError / NotImplementedError / NotEnougData / RecursionError - "
                    "that contract is trusted and exercised by the bounded sweep (malformed interiors, 1500-deep filters, every single-octet header corruption, every chunking)."},
})
NOT_APPLICABLE = {}
