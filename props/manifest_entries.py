"""Text of the MANIFEST entries (kept next to the registry so they stay in step)."""
_TB = ("Trusted: pyvc's model of the Python subset (DESIGN.md 3.2, cross-checked natively), z3 unsat answers, the spec functions "
       "in /verif/specs; LDAPMessage.pack is abstract at this layer (a total function enc(msg, options)); arguments conform to "
       "their annotations; single-threaded use. The bounded component (all API/delivery histories up to a stated depth with the "
       "same contracts checked at run time) is labelled bounded and never counted as proved.")
_SESSION_TECH = "contract-based deductive verification: two-state method contracts on the real _session.py, z3-discharged VCs generated from the AST on every run; run-time checking of the same contracts over bounded API histories as stand-in/replay"
ENTRIES = {
    "C08": {"category": "proof", "technique": _SESSION_TECH, "note": _TB,
            "text": "Every public method and every _send/_process_incoming_message of LDAPSession/LDAPClient/LDAPServer is verified against a two-state contract "
                    "taken from the documented state machine: CLOSED rejects everything with no state/byte change, BINDING is entered only by bind "
                    "traffic and left only by a non-SASL bind response that was actually sent/accepted, bind needs no outstanding operations, only bind "
                    "traffic or a termination passes the gate while BINDING. All histories follow by induction over calls (each contract holds from any state)."},
    "C09": {"category": "proof", "technique": _SESSION_TECH, "note": _TB,
            "text": "Client contracts with the class invariant ids < counter, searches subset of outstanding: _send returns old(counter), increments it, records the id and emits "
                    "enc(msg with that id); _process_incoming_message accepts iff the message is a response whose id is in progress, keeps a search until its done, retires "
                    "everything else, never raises KeyError. Holds for all interleavings because each contract is proved from an arbitrary state satisfying the invariant."},
    "C10": {"category": "proof", "technique": _SESSION_TECH, "note": _TB,
            "text": "Exceptional postconditions on every sending method: raises only LDAPError, and on raise the outgoing buffer, the bookkeeping sets and the counter are unchanged; "
                    "server sends require the id to be outstanding, final responses retire it, entries/references keep it."},
    "C12": {"category": "proof", "technique": _SESSION_TECH, "note": _TB,
            "text": "data_to_send: result ++ remaining == old pending for every amount (None, negative, zero, larger than pending; Python slice semantics modelled exactly), frame = the "
                    "buffer only. Every send: pending' == pending ++ enc(the message) on success, unchanged on failure. 'drained ++ pending == concatenation of successful encodings' is then an invariant of every history."},
}
NOT_APPLICABLE = {}
