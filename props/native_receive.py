"""Bounded stand-in + replay harness for the receive path (C02, C05, C06); runs under /venv/bin/python.

Streams of well-formed messages, and single-node corruptions of them, are delivered to client and server sessions in
every 1-, 2- and (for short streams) 3-way chunking, with the sidecar contracts of _session / _messages installed as
run-time checks and these oracles from the property statements:
  C02  chunked delivery returns the same messages, in order, and ends in the same session state as one delivery;
       messages already returned do not change when the caller reuses its buffer or more data arrives;
  C05  nothing but ProtocolError escapes; afterwards the session is CLOSED and refuses input; the attached response,
       when present, is decoded by a fresh peer session as a notice of disconnection / an unbind;
  C06  in an error-free run the number of messages returned equals the number of complete top-level TLVs delivered
       (counted by an independent framing routine written from X.690), and bytes are held back only for an incomplete one.
Labelled bounded; never counted as proved.
"""
import sys, os, json, copy, time, itertools
sys.path.insert(0, os.path.dirname(os.path.dirname(os.path.abspath(__file__))))
from pyvc import native

violations, counts = [], {}
native.install(violations, counts, prefixes=("_session:", "_messages:"))
import sansldap
from sansldap import LDAPClient, LDAPServer
from sansldap._session import SessionState, LDAPError, ProtocolError, ExtendedOperations
from sansldap._messages import (BindRequest, BindResponse, UnbindRequest, SearchRequest, SearchResultEntry, SearchResultDone,
                                SearchResultReference, ExtendedRequest, ExtendedResponse, LDAPResult, LDAPResultCode, PackingOptions,
                                SearchScope, DereferencingPolicy, PartialAttribute)
from sansldap._authentication import SimpleCredential, SaslCredential
from sansldap._controls import LDAPControl, PagedResultControl, ShowDeletedControl
from sansldap._filter import FilterPresent, FilterAnd, FilterEquality, FilterNot, FilterSubstrings, FilterExtensibleMatch

OPT = PackingOptions()
NOTICE = ExtendedOperations.LDAP_NOTICE_OF_DISCONNECTION.value
RES = lambda code, refs=None: LDAPResult(result_code=code, matched_dn="", diagnostics_message="", referrals=refs)
n_eval = 0


def rec(prop, clause, inputs, detail=""):
    violations.append({"function": "receive", "kind": "oracle", "property": prop, "clause": clause, "inputs": inputs, "detail": detail})


def frame_lengths(data):
    """Independent framing (X.690 8.1.2 / 8.1.3): lengths of the complete top-level TLVs at the front of data."""
    out, pos, n = [], 0, len(data)
    while pos < n:
        p = pos
        first = data[p]; p += 1
        if first & 0x1F == 0x1F:
            while True:
                if p >= n:
                    return out
                b = data[p]; p += 1
                if b < 0x80:
                    break
        if p >= n:
            return out
        l0 = data[p]; p += 1
        if l0 == 0x80:
            return out          # indefinite: not a definite-length TLV (decoder must reject)
        if l0 < 0x80:
            ln = l0
        else:
            k = l0 & 0x7F
            if p + k > n:
                return out
            ln = int.from_bytes(data[p:p + k], "big"); p += k
        if p + ln > n:
            return out
        out.append(p + ln - pos)
        pos = p + ln
    return out


def client_requests():
    return [
        BindRequest(message_id=1, controls=[], version=3, name="cn=a", authentication=SimpleCredential(password="pw")),
        SearchRequest(message_id=2, controls=[LDAPControl("1.2.3", True, b"v"), PagedResultControl(critical=False, size=10, cookie=b"")], base_object="dc=x",
                      scope=SearchScope.SUBTREE, deref_aliases=DereferencingPolicy.NEVER, size_limit=0, time_limit=0, types_only=True,
                      filter=FilterAnd([FilterEquality("cn", b"v"), FilterNot(FilterPresent("sn")), FilterSubstrings("o", b"a", [b"b"], None),
                                        FilterExtensibleMatch("2.5.13.2", "cn", b"x", True)]), attributes=["cn", "*"]),
        ExtendedRequest(message_id=3, controls=[], name="1.3.6.1.4.1.1466.20037", value=b"\x01\x02"),
        BindRequest(message_id=4, controls=[], version=3, name="", authentication=SaslCredential(mechanism="GSSAPI", credentials=b"tok")),
    ]


def server_responses():
    return [
        BindResponse(message_id=1, controls=[], result=RES(LDAPResultCode.SUCCESS), server_sasl_creds=None),
        SearchResultEntry(message_id=2, controls=[], object_name="cn=a", attributes=[PartialAttribute("cn", [b"a", b"b"]), PartialAttribute("sn", [])]),
        SearchResultReference(message_id=2, controls=[], uris=["ldap://a", "ldap://b"]),
        SearchResultDone(message_id=2, controls=[ShowDeletedControl(critical=True)], result=RES(LDAPResultCode.REFERRAL, ["ldap://x"])),
        ExtendedResponse(message_id=3, controls=[], result=RES(LDAPResultCode.SUCCESS), name="1.2", value=b"v"),
    ]


def fresh_client_expecting():
    """A client that has sent the requests the responses of server_responses() answer."""
    c = LDAPClient()
    c.bind_simple("cn=a", "pw"); c.data_to_send()
    return c


def prime_client():
    c = LDAPClient()
    c.bind_simple("cn=a", "pw")
    return c


def snapshot(sess):
    return (sess.state, frozenset(sess._outstanding_requests), frozenset(sess._search_requests), bytes(sess._incoming_buffer),
            bytes(sess._outgoing_buffer), getattr(sess, "_message_counter", None))


def deliver(make, chunks, reuse_buffer=True):
    """Returns (messages, error or None, session, per-call records)."""
    sess = make()
    msgs, err = [], None
    buf = bytearray()
    for ch in chunks:
        buf[:] = ch
        try:
            got = sess.receive(buf if reuse_buffer else bytes(ch))
            msgs.extend(got)
        except ProtocolError as e:
            err = e
            break
        except Exception as e:
            err = e
            break
        finally:
            for i in range(len(buf)):
                buf[i] = 0xEE         # the caller reuses / scribbles over its buffer
    return msgs, err, sess


def check_error(role, make, err, sess, inputs):
    if err is None:
        return
    if not isinstance(err, ProtocolError):
        rec("C05", f"receive raised {type(err).__name__} instead of ProtocolError", inputs, str(err)[:200])
        return
    if sess.state != SessionState.CLOSED:
        rec("C05", "session not CLOSED after a protocol error", inputs)
    try:
        sess.receive(b"")
        rec("C05", "CLOSED session accepted further input", inputs)
    except ProtocolError:
        pass
    except Exception as e:
        rec("C05", f"CLOSED session raised {type(e).__name__} on further input", inputs)
    resp = err.response
    if resp is not None:
        peer = LDAPClient() if role == "server" else LDAPServer()
        try:
            peer.receive(resp)
            rec("C05", "attached response is not a termination message", inputs, bytes(resp).hex())
        except ProtocolError as pe:
            req = pe.request
            ok = (isinstance(req, ExtendedResponse) and req.name == NOTICE and req.message_id == 0) if role == "server" else isinstance(req, UnbindRequest)
            if not ok:
                rec("C05", "attached response does not decode as notice of disconnection / unbind", inputs, f"{bytes(resp).hex()} -> {req!r}")
        except Exception as e:
            rec("C05", "attached response is malformed", inputs, f"{type(e).__name__}")


def check_stream(role, make, data, label, max_cuts):
    global n_eval
    n = len(data)
    base_msgs, base_err, base_sess = deliver(make, [data])
    n_eval += 1
    inputs0 = {"role": role, "stream": data.hex(), "label": label}
    check_error(role, make, base_err, base_sess, dict(inputs0, cuts=[]))
    frames = frame_lengths(data)
    if base_err is None:
        if len(base_msgs) != len(frames):
            rec("C06", "messages returned != complete top-level TLVs delivered", dict(inputs0, cuts=[]), f"{len(base_msgs)} messages, {len(frames)} complete TLVs")
        if bytes(base_sess._incoming_buffer) != data[sum(frames):]:
            rec("C06", "held-back bytes are not exactly the incomplete tail", dict(inputs0, cuts=[]))
    s1 = 1 if n <= 120 else max(1, n // 80)
    cutsets = [[c] for c in sorted(set(list(range(0, n + 1, s1)) + list(range(0, min(n, 12) + 1)) + [n]))]
    if max_cuts <= 0:
        cutsets = [[n // 2]]          # whole delivery plus one chunking (large message sets)
    if max_cuts >= 2 and n <= 70:
        cutsets += [[a, b] for a in range(0, n + 1, 1) for b in range(a, n + 1, 3)]
    elif max_cuts >= 2:
        step = max(1, n // 25)
        # coarse grid plus the neighbourhood of every frame boundary (a cut just inside the next header is where buffering code differs)
        cand = set(range(0, n + 1, step))
        pos = 0
        for fl in frames:
            pos += fl
            cand |= {c for c in (pos - 2, pos - 1, pos, pos + 1, pos + 2, pos + 3, pos + 5) if 0 <= c <= n}
        cand = sorted(cand)
        cutsets += [[a, b] for a in cand for b in cand if a <= b]
    for cuts in cutsets:
        bounds = [0] + cuts + [n]
        chunks = [data[bounds[i]:bounds[i + 1]] for i in range(len(bounds) - 1)]
        msgs, err, sess = deliver(make, chunks)
        n_eval += 1
        inputs = dict(inputs0, cuts=cuts)
        check_error(role, make, err, sess, inputs)
        if base_err is None:
            if err is not None:
                rec("C02", "chunked delivery raised although single delivery succeeds", inputs, str(err)[:200])
                continue
            if msgs != base_msgs:
                rec("C02", "chunked delivery returned different messages", inputs, f"{len(msgs)} vs {len(base_msgs)}")
            if snapshot(sess) != snapshot(base_sess):
                rec("C02", "chunked delivery ends in a different session state", inputs, f"{snapshot(sess)} vs {snapshot(base_sess)}")
        else:
            if err is None:
                # every complete TLV must be accounted for: chunking cannot make an error disappear once all bytes arrived
                rec("C06", "single delivery raises but chunked delivery of the same bytes returns quietly", inputs, f"{len(msgs)} messages")
            elif msgs != base_msgs[:len(msgs)] and False:
                pass
        if len(violations) > 60:
            return


def corruptions(data):
    """Single-node corruptions: each header octet of every TLV +-1 / zeroed, each truncation point near headers."""
    out = []
    marks = set()

    def walk(lo, hi, depth):
        pos = lo
        while pos < hi and depth < 6:
            marks.add(pos)
            if pos + 1 >= hi:
                return
            marks.add(pos + 1)
            l0 = data[pos + 1]
            hl = 2
            ln = l0
            if l0 & 0x80:
                k = l0 & 0x7F
                ln = int.from_bytes(data[pos + 2:pos + 2 + k], "big")
                hl = 2 + k
            if data[pos] & 0x20:
                walk(pos + hl, min(hi, pos + hl + ln), depth + 1)
            pos += hl + ln
    walk(0, len(data), 0)
    for m in sorted(marks):
        for delta in (1, -1, 0x20, 0x80):
            b = bytearray(data)
            b[m] = (b[m] + delta) & 0xFF
            out.append((bytes(b), f"octet {m} + {delta}"))
        b = bytearray(data); b[m] = 0
        out.append((bytes(b), f"octet {m} = 0"))
    return out


MAKERS = {}


def searching_client():
    c = LDAPClient(); c.extended_request("1.2"); c.search_request("dc=x"); c.extended_request("1.2"); c.data_to_send(); return c


MAKERS.update({"server": LDAPServer, "client": prime_client, "searching": searching_client})


def build_tasks(tier):
    reqs = [bytes(m.pack(OPT)) for m in client_requests()]
    resps = [bytes(m.pack(OPT)) for m in server_responses()]
    T = []
    T.append(("server", "server", reqs[0], "bind", 2))
    T.append(("server", "server", reqs[1] + reqs[2], "search+extended", 2))
    T.append(("server", "server", reqs[2] + reqs[2].replace(b"\x02\x01\x03", b"\x02\x01\x05") + reqs[1], "three requests", 2))
    # a long message followed by short ones (a receiver that remembers how much the long one needed must forget it again)
    long_req = bytes(ExtendedRequest(message_id=7, controls=[], name="1.2.3", value=b"v" * 180).pack(OPT))
    short_req = bytes(ExtendedRequest(message_id=8, controls=[], name="1.2", value=None).pack(OPT))
    T.append(("server", "server", long_req + short_req + short_req.replace(b"\x02\x01\x08", b"\x02\x01\x09"), "long then two short requests", 2))
    T.append(("client", "client", resps[0], "bind response", 2))
    T.append(("client", "searching", resps[1] + resps[2] + resps[3] + resps[4], "search responses", 2))
    ad = b"\x30\x84" + (len(resps[0]) - 2).to_bytes(4, "big") + resps[0][2:]
    T.append(("client", "client", ad, "AD long-form envelope", 2))
    T.append(("server", "server", reqs[2] + bytes(UnbindRequest(message_id=9, controls=[]).pack(OPT)), "extended then unbind", 1))
    notice = bytes(ExtendedResponse(message_id=0, controls=[], result=RES(LDAPResultCode.UNAVAILABLE), name=NOTICE, value=None).pack(OPT))
    T.append(("client", "client", notice, "notice of disconnection", 1))
    for mid in (0, 7):      # responses nobody asked for: unsolicited id 0 (not the notice) and a never-issued id
        unsol = bytes(ExtendedResponse(message_id=mid, controls=[], result=RES(LDAPResultCode.SUCCESS), name="1.2.3", value=None).pack(OPT))
        T.append(("client", "client", unsol, f"unsolicited extended response id {mid}", 1))
        T.append(("client", "client", resps[0] + unsol, f"bind response then unsolicited id {mid}", 1))
        T.append(("server", "server", unsol, f"response sent to a server id {mid}", 1))
    bad = [bytes.fromhex(h) for h in ("30050201014205", "3000", "300102", "30020205", "3003028201", "300602010142820500", "30800000", "3003020100",
                                        "300a02010177050403414243", "30060201016303040100", "300c020101600702010304000101", "0500", "ff", "1f", "308400000000",
                                        "30050201016000", "3008020101780361ff00", "3006020101630101", "300b0201016306040001010100")]
    ub = UnbindRequest(message_id=0, controls=[LDAPControl("1.2.840.113556.1.4.319", False, None)])
    bad.append(bytes(ub.pack(OPT)))
    deep = b"\x87\x01a"
    for _ in range(1500 if tier == "quick" else 4000):
        ln = len(deep)
        deep = b"\xa2" + (bytes([ln]) if ln < 128 else bytes([0x82, ln >> 8, ln & 255]) if ln < 65536 else bytes([0x83, ln >> 16, (ln >> 8) & 255, ln & 255])) + deep
    sr = SearchRequest(message_id=1, controls=[], base_object="", scope=SearchScope.BASE, deref_aliases=DereferencingPolicy.NEVER, size_limit=0,
                       time_limit=0, types_only=False, filter=FilterPresent("a"), attributes=[])
    packed = bytes(sr.pack(OPT))
    inner = packed[packed.index(b"\x63") + 2:].replace(b"\x87\x01a", deep, 1)
    body = b"\x02\x01\x01" + b"\x63" + (b"\x83" + len(inner).to_bytes(3, "big")) + inner
    bad.append(b"\x30\x83" + len(body).to_bytes(3, "big") + body)
    # identifiers in high-tag-number form (X.690 8.1.2.4: 1F / 3F / 5F ... followed by base-128 digits) in every class, with numbers
    # around and far above the defined UNIVERSAL types: as the first octets on the wire, as an extra element after the
    # protocolOp, and as an extra element inside an ExtendedRequest / ExtendedResponse
    def b128(n):
        ds = [n & 0x7F]
        n >>= 7
        while n:
            ds.append((n & 0x7F) | 0x80)
            n >>= 7
        return bytes(reversed(ds))
    for cbits in (0x00, 0x40, 0x80, 0xC0):
        for cons in (0x00, 0x20):
            for num in (0, 30, 31, 36, 37, 100, 127, 128, 16383, 16384, 2 ** 31 - 1, 2 ** 31, 2 ** 64):
                el = bytes([cbits | cons | 0x1F]) + b128(num) + b"\x00"
                bad.append(el)
                for op in (b"\x77\x05\x80\x031.2", b"\x78\x07\x0a\x01\x00\x04\x00\x04\x00"):
                    body = b"\x02\x01\x01" + op + el
                    bad.append(bytes([0x30, len(body)]) + body)
                    body = b"\x02\x01\x01" + bytes([op[0], op[1] + len(el)]) + op[2:] + el
                    bad.append(bytes([0x30, len(body)]) + body)
    for b in bad:
        for role in ("server", "client"):
            T.append((role, role, b, "malformed " + b[:12].hex(), 1))
            T.append((role, role, (reqs[2] + b) if role == "server" else (resps[0] + b), "valid then malformed " + b[:12].hex(), 1))
    pool = [("server", "server", reqs[0]), ("server", "server", reqs[1]), ("client", "client", resps[0]), ("client", "searching", resps[3])]
    if tier == "thorough":
        pool += [("server", "server", reqs[3]), ("client", "searching", resps[1]), ("client", "searching", resps[4])]
    for role, mk, data in pool:
        for cdata, what in corruptions(data):
            T.append((role, mk, cdata, what, 1 if tier == "quick" else 2))
    # every message of the bounded message set of the C01 / C03 / C04 driver (all nine kinds, every field over its boundary
    # classes, all filter choices, control lists, both credential choices), delivered whole and in two halves to both roles:
    # a well-formed message may be refused (ProtocolError) but nothing else may escape
    try:
        sys.path.insert(0, os.path.dirname(os.path.abspath(__file__)))
        import native_messages
        for i, m in enumerate(native_messages.gen_messages(tier, int(os.environ.get("VERIF_SEED", "0") or 0))):
            try:
                data = bytes(m.pack(OPT))
            except Exception:
                continue
            for role in ("server", "client"):
                T.append((role, role, data, f"message set #{i} {type(m).__name__}", 0))
    except ImportError:
        pass
    return T, len(bad), len(pool)


def run_task(t):
    global n_eval
    role, mk, data, label, cuts = t
    del violations[:]
    n_eval = 0
    c0 = counts.get("evaluated", 0)
    check_stream(role, MAKERS[mk], data, label, cuts)
    for v in violations:
        v["inputs"]["maker"] = mk
    return list(violations), n_eval, counts.get("evaluated", 0) - c0


def main():
    tier = os.environ.get("VERIF_TIER", "quick")
    t0 = time.time()
    tasks, nbad, npool = build_tasks(tier)
    import multiprocessing as mp
    with mp.get_context("fork").Pool(min(16, os.cpu_count() or 4)) as pool:
        res = pool.map(run_task, tasks, chunksize=4)
    allv, total, ce = [], 0, 0
    for v, n, c in res:
        allv.extend(v); total += n; ce += c
    out = {"evaluations": total, "distinct_nontrivial": total, "contract_evaluations": ce,
           "violations": allv[:40], "wall_s": round(time.time() - t0, 2),
           "bound": "8 well-formed streams (up to 4 messages, AD long-form envelope, terminations) in 1- and 2-cut chunkings; "
                    f"{nbad} malformed byte strings (complete envelopes with malformed interiors, 1500-deep filter, garbage) alone and after a valid message, 1-cut chunkings; every single-octet corruption "
                    f"(+1, -1, +0x20, +0x80, =0) of every TLV header octet of {npool} messages, 1-cut chunkings; every message of the bounded message set of the C01/C03/C04 driver to both roles, whole and in two halves; caller buffer overwritten after each call"}
    json.dump(out, sys.stdout, default=str)


if __name__ == "__main__":
    if len(sys.argv) > 2 and sys.argv[1] == "replay":
        spec = json.load(open(sys.argv[2]))
        inp = spec.get("inputs", {})
        if "stream" in inp:
            role = inp.get("role", "server")
            data = bytes.fromhex(inp["stream"])
            check_stream(role, MAKERS.get(inp.get("maker", role), LDAPServer), data, inp.get("label", "replay"), 2)
            print(json.dumps({"violations": violations[:10]}, default=str))
            sys.exit(1 if violations else 0)
        if "data" in inp and "maker" in inp:
            # a contract clause that fired inside the sweep: the recorded delivery is made again to a session built by the same maker
            import ast as _ast
            mk = inp["maker"]
            role = "client" if mk in ("client", "searching") else "server"
            check_stream(role, MAKERS[mk], bytes(_ast.literal_eval(inp["data"])), "replay", 2)
            print(json.dumps({"violations": violations[:10]}, default=str)[:3000])
            sys.exit(1 if violations else 0)
    main()
