"""C18 - parsing cost is polynomial.  Runs under /venv/bin/python.

(a) exact decision per regular expression the parsers use (module-level compiled patterns of _filter / schema and every
    pattern literal passed to re.sub / re.match / re.compile inside their functions): no exponential ambiguity (EDA) in the
    Glushkov automaton of the pattern as parsed by this interpreter's `re`.  A refutation is replayed by timing the real
    compiled pattern (and the real from_string) on prefix + pump^n + suffix under a hard timeout.
(b) bounded growth probe of the real parsers on adversarial input families (runs of each structural character, nesting,
    unterminated strings, escapes): time(2n) / time(n) must stay below a cubic ratio and absolute times small.
Assumed contract of the dependency: CPython's sre is a backtracking matcher whose cost on a pattern without EDA is
polynomial in the subject length.
"""
import sys, os, json, time, ast, re, inspect, multiprocessing as mp
sys.path.insert(0, os.path.dirname(os.path.dirname(os.path.abspath(__file__))))
sys.path.insert(0, os.environ.get("SANSLDAP_SRC", "/repo/src"))       # the working tree (or the scratch copy under test)
from pyvc import regexlang as R
import sansldap
import sansldap._filter as F
import sansldap.schema as SC
from sansldap import LDAPFilter, LDAPServer

violations = []


def rec(kind, clause, inputs, detail="", no_input=False):
    violations.append({"function": "regex", "kind": kind, "property": "C18", "clause": clause, "inputs": inputs, "detail": detail,
                       "no_failing_input": no_input})


def collect_patterns():
    pats = {}
    for mod in (F, SC):
        for name, val in vars(mod).items():
            if isinstance(val, re.Pattern):
                pats[f"{mod.__name__}.{name}"] = (val.pattern, val.flags, "module constant")
        src = inspect.getsource(mod)
        tree = ast.parse(src)
        for node in ast.walk(tree):
            if isinstance(node, ast.Call) and isinstance(node.func, ast.Attribute) and isinstance(node.func.value, ast.Name) \
                    and node.func.value.id == "re" and node.func.attr in ("sub", "match", "search", "fullmatch", "compile", "split", "findall", "finditer", "subn"):
                if not node.args:
                    continue
                a0 = node.args[0]
                try:
                    val = eval(compile(ast.Expression(a0), "<pattern>", "eval"), vars(mod))
                except Exception:
                    continue
                flags = 0
                for extra in node.args[1:] + [kw.value for kw in node.keywords if kw.arg == "flags"]:
                    try:
                        v = eval(compile(ast.Expression(extra), "<flags>", "eval"), vars(mod))
                        if isinstance(v, (int, re.RegexFlag)):
                            flags |= int(v)
                    except Exception:
                        pass
                if isinstance(val, re.Pattern):
                    val, flags = val.pattern, val.flags
                if isinstance(val, (str, bytes)):
                    pats[f"{mod.__name__}:re.{node.func.attr}@line{node.lineno}"] = (val, flags, f"inline re.{node.func.attr}")
    return pats


def _time_match(args):
    pattern, flags, subject, use_search = args
    pat = re.compile(pattern, flags)
    t0 = time.perf_counter()
    (pat.search if use_search else pat.match)(subject)
    return time.perf_counter() - t0


def timed(fn, arg, limit):
    """Run fn(arg) in a child process with a hard time limit; returns seconds or None on timeout."""
    ctx = mp.get_context("fork")
    with ctx.Pool(1) as pool:
        r = pool.apply_async(fn, (arg,))
        try:
            return r.get(timeout=limit)
        except mp.TimeoutError:
            pool.terminate()
            return None
        except Exception:
            return -1.0


def confirm_eda(name, pattern, flags, wit, use_search):
    """Exponential growth on prefix + pump^n + suffix?  Returns (confirmed, record)."""
    is_bytes = isinstance(pattern, bytes)
    sufs = [b"\x00", b"!", b"'", b"", b" x"] if is_bytes else ["\x00", "!", "'", "", " x", "\n\n"]
    # also: characters that the automaton can read somewhere, doubled (e.g. '**' for a pattern that forbids two stars)
    seen_chars = []
    for rs in R.build(pattern, flags).sets:
        for lo, hi in rs[:2]:
            c = bytes([lo]) if is_bytes else (chr(lo) if not 0xD800 <= lo <= 0xDFFF else "a")
            if c not in seen_chars:
                seen_chars.append(c)
    sufs += [c * 2 for c in seen_chars[:6]]
    best = None
    for suf in sufs:
        times = []
        for n in (8, 10, 12, 14, 16, 18, 20, 22, 24, 26, 28, 30):
            subject = wit["prefix"] + wit["pump"] * n + suf
            t = timed(_time_match, (pattern, flags, subject, use_search), 6.0)
            if t is None:
                times.append((n, None))
                break
            times.append((n, t))
            if t > 2.0:
                break
        grow = 0
        for (n1, t1), (n2, t2) in zip(times, times[1:]):
            if t2 is None or (t1 is not None and t1 > 0.002 and t2 / t1 >= 1.8):
                grow += 1
        timeout_hit = any(t is None for _, t in times)
        if (grow >= 3 or (timeout_hit and grow >= 1)) and (best is None or grow > best[0]):
            best = (grow, suf, times)
    if best:
        n_last = best[2][-1][0]
        subject = wit["prefix"] + wit["pump"] * n_last + best[1]
        return True, {"pattern": name, "subject_repr": repr(subject), "times": [(n, (round(t, 4) if t is not None else "timeout>6s")) for n, t in best[2]]}
    return False, None


# ---------------------------------------------------------------------------------------------- (b) growth probe
def _run_parser(args):
    which, text = args
    t0 = time.perf_counter()
    try:
        if which == "filter":
            LDAPFilter.from_string(text)
        elif which == "oc":
            SC.ObjectClassDescription.from_string(text)
        elif which == "at":
            SC.AttributeTypeDescription.from_string(text)
        elif which == "dit":
            SC.DITContentRuleDescription.from_string(text)
        elif which == "receive":
            LDAPServer().receive(text)
        elif which == "receive1":
            s = LDAPServer()
            for i in range(len(text)):
                s.receive(text[i:i + 1])
    except Exception:
        pass
    return time.perf_counter() - t0


def families(n):
    fam = []
    for ch in "(&|!=*\\:;~<> a0.-'":
        fam.append(("filter", f"run of {ch!r}", ch * n))
        fam.append(("filter", f"(a= then run of {ch!r}", "(a=" + ch * n))
        fam.append(("filter", f"run of {ch!r} then =b", ch * n + "=b"))
    fam += [("filter", "nested (&", "(&" * n + "(a=b)" + ")" * n), ("filter", "nested (!", "(!" * n + "(a=b)" + ")" * n),
            ("filter", "wide or", "(|" + "(a=b)" * n + ")"), ("filter", "escapes", "(a=" + "\\2a" * n + ")"),
            ("filter", "stars", "(a=" + "b*" * n + ")"), ("filter", "a-run then **", "(cn=" + "a" * n + "**)"),
            ("filter", "oid arcs", "1" + ".5" * n + "!=a"), ("filter", "options", "a" + ";x" * n + "!=a"),
            ("filter", "ext header", "a" + ":b" * n + ":=c"), ("filter", "spaces", "(&" + " " * n + "(a=b)" + " " * n + ")"),
            # truncated / unbalanced nesting (error paths of the recursive scanners: a retry or re-scan per level multiplies the work)
            ("filter", "unclosed nested (!", "(!" * n + "(cn=" + "a" * (2 * n)), ("filter", "unclosed nested (&", "(&" * n + "(cn=" + "a" * (2 * n)),
            ("filter", "unclosed nested (! short value", "(!" * n + "(a=b"),
            ("filter", "unclosed wide and", "(&" + "(a=b)" * n), ("filter", "half-closed nested (|", "(|" * n + "(a=b)" + ")" * (n // 2)),
            ("filter", "nested (! then garbage", "(!" * n + "(a=b)" + ")" * n + "x" * n), ("filter", "unopened closers", "(a=b)" + ")" * n)]
    for kind in ("oc", "at", "dit"):
        fam += [(kind, "unterminated DESC", "( 1.2 DESC '" + "a" * n), (kind, "escapes in DESC", "( 1.2 DESC '" + "\\5c" * n + "x"),
                (kind, "escapes in DESC unterminated", "( 1.2 DESC '" + "\\27" * n), (kind, "empty ext lists", "( 1.2" + " X-A ( )" * n + "x"),
                (kind, "ext lists", "( 1.2" + " X-A ( 'a' 'b' )" * n + " )"), (kind, "spaces", "( 1.2" + " " * n + "x"),
                (kind, "names", "( 1.2 NAME ( " + "'a' " * n + ") x"), (kind, "names unterminated", "( 1.2 NAME ( " + "'a' " * n),
                (kind, "oid arcs", "( 1" + ".2" * n + " x"), (kind, "must oids", "( 1.2 MUST ( " + "a $ " * n + "b ) x"),
                (kind, "quotes", "( 1.2 DESC " + "'" * n), (kind, "x-string", "( 1.2 X-" + "a" * n + " 'v' x")]
    deep = b"\x87\x01a"
    for _ in range(min(n, 300)):
        ln = len(deep)
        deep = b"\xa2" + (bytes([ln]) if ln < 128 else bytes([0x82, ln >> 8, ln & 255])) + deep
    small = bytes.fromhex("300c02010177070a010004000400")
    fam += [("receive", "many small PDUs", small * n), ("receive", "garbage run", b"\x30" * n), ("receive1", "byte-wise delivery", (small * (n // 8 + 1)))]
    return fam


def growth_probe(tier):
    sizes = (150, 300) if tier == "quick" else (200, 400, 800)
    rows = 0
    tasks = []
    for n in sizes:
        for which, label, text in families(n):
            tasks.append((which, label, n, text))
    ctx = mp.get_context("fork")
    results = {}
    with ctx.Pool(min(14, os.cpu_count() or 4)) as pool:
        asyncs = [(t, pool.apply_async(_run_parser, ((t[0], t[3]),))) for t in tasks]
        for t, a in asyncs:
            try:
                results[(t[0], t[1], t[2])] = a.get(timeout=20)
            except mp.TimeoutError:
                results[(t[0], t[1], t[2])] = None
        pool.terminate()
    for (which, label, n), t in sorted(results.items()):
        rows += 1
        if t is None or t > 5.0:
            rec("growth", f"{which} parser: family '{label}' of size {n} did not finish in time", {"parser": which, "family": label, "n": n}, f"time {t}")
    for which, label, _ in families(sizes[0]):
        ts = [results.get((which, label, n)) for n in sizes]
        if all(t is not None for t in ts) and ts[0] > 0.02 and ts[-1] / ts[0] > (2 ** 3.6) ** (len(sizes) - 1):
            rec("growth", f"{which} parser: time grows faster than cubic on family '{label}'", {"parser": which, "family": label, "n": sizes[-1]},
                f"times {ts} for sizes {sizes}")
    return rows


def main():
    tier = os.environ.get("VERIF_TIER", "quick")
    t0 = time.time()
    pats = collect_patterns()
    decided, undecided, rows = 0, [], []
    for name, (pattern, flags, origin) in sorted(pats.items()):
        try:
            nfa = R.build(pattern, flags)
            wit = R.eda(nfa)
            deg = None
            if tier == "thorough" and len(nfa.sets) <= 120:
                deg = R.ambiguity_degree(nfa)
        except R.Unsupported as e:
            undecided.append(f"{name}: {e}")
            continue
        except re.error as e:
            undecided.append(f"{name}: re.error {e}")
            continue
        decided += 1
        rows.append({"pattern": name, "origin": origin, "positions": len(nfa.sets), "eda": bool(wit), "ambiguity_degree_lower_bound": deg})
        if wit:
            ok, recd = confirm_eda(name, pattern, flags, wit, use_search=("sub" in origin or "search" in origin or "split" in origin))
            if ok:
                rec("regex-eda", f"pattern {name} is exponentially ambiguous", recd, f"pump {wit['pump']!r} after prefix {wit['prefix']!r}")
            else:
                rec("regex-eda", f"pattern {name} is exponentially ambiguous (obligation no-EDA refuted by the automaton analysis)",
                    {"pattern": name, "prefix": repr(wit["prefix"]), "pump": repr(wit["pump"])}, "timing replay did not show the blow-up", no_input=True)
        if deg is not None and deg > 2:
            rec("regex-degree", f"pattern {name} has polynomial ambiguity of degree > 2", {"pattern": name}, f"degree >= {deg}", no_input=True)
    nprobe = growth_probe(tier)
    out = {"evaluations": decided + nprobe, "distinct_nontrivial": decided + nprobe, "patterns_decided": decided, "patterns": rows,
           "undecided_patterns": undecided, "growth_probe_runs": nprobe, "violations": violations[:40], "wall_s": round(time.time() - t0, 2),
           "bound": f"{decided} patterns decided exactly (EDA); growth probe: {nprobe} parser runs over adversarial families at sizes "
                    f"{'150/300' if tier == 'quick' else '200/400/800'}"}
    if undecided:
        out["error_undecided"] = undecided
    json.dump(out, sys.stdout, default=str)


if __name__ == "__main__":
    if len(sys.argv) > 2 and sys.argv[1] == "replay":
        spec = json.load(open(sys.argv[2]))
        inp = spec.get("inputs", {})
        if "subject_repr" in inp:
            pats = collect_patterns()
            pattern, flags, origin = pats[inp["pattern"]]
            subject = eval(inp["subject_repr"])
            t = timed(_time_match, (pattern, flags, subject, "sub" in origin), 10.0)
            print(json.dumps({"pattern": inp["pattern"], "subject_len": len(subject), "seconds": t if t is not None else "timeout > 10 s"}))
            sys.exit(1 if (t is None or t > 1.0) else 0)
        if "family" in inp:
            fam = [f for f in families(int(inp["n"])) if f[0] == inp["parser"] and f[1] == inp["family"]]
            t = timed(_run_parser, (fam[0][0], fam[0][2]), 20.0) if fam else -1
            print(json.dumps({"seconds": t if t is not None else "timeout > 20 s"}))
            sys.exit(1 if (t is None or t > 5.0) else 0)
        sys.exit(3)
    main()
