"""Bounded stand-in + replay harness for the session layer (C08, C09, C10, C12); runs under /venv/bin/python.

Explores every sequence of public API calls / deliveries up to a depth bound on one server and one client session with
the sidecar contracts installed as run-time checks, plus oracles taken directly from the property statements:
  * a rejected call raises LDAPError (or ProtocolError for receive) and leaves the pending output unchanged (C10);
  * the bytes a successful call appends are exactly the encoding of the message it was asked to send (C12);
  * everything drained, in order, followed by what is still pending, equals the concatenation of those encodings (C12);
  * once CLOSED, always CLOSED, no bytes, no data accepted (C08); client ids are 1, 2, 3, ... (C09).
Output: one JSON object on stdout.  Labelled *bounded*: never counted as proved.
"""
import sys, os, json, copy, time, itertools
sys.path.insert(0, os.path.dirname(os.path.dirname(os.path.abspath(__file__))))
from pyvc import native

violations, counts = [], {}
native.install(violations, counts, prefixes=("_session:", "_messages:"))
import sansldap
from sansldap import LDAPClient, LDAPServer
from sansldap._session import SessionState, LDAPError, ProtocolError, ExtendedOperations
from sansldap._messages import (BindRequest, BindResponse, UnbindRequest, SearchRequest, SearchResultEntry, SearchResultDone,
                                SearchResultReference, ExtendedRequest, ExtendedResponse, LDAPResult, LDAPResultCode, PackingOptions,
                                SearchScope, DereferencingPolicy, PartialAttribute)
from sansldap._authentication import SimpleCredential
from sansldap._filter import FilterPresent

OPT = PackingOptions()
NOTICE = ExtendedOperations.LDAP_NOTICE_OF_DISCONNECTION.value
RES = lambda code: LDAPResult(result_code=code, matched_dn="", diagnostics_message="", referrals=[])


def req_bytes(kind, mid):
    if kind == "bind":
        m = BindRequest(message_id=mid, controls=[], version=3, name="", authentication=SimpleCredential(password=""))
    elif kind == "search":
        m = SearchRequest(message_id=mid, controls=[], base_object="", scope=SearchScope.SUBTREE, deref_aliases=DereferencingPolicy.NEVER,
                          size_limit=0, time_limit=0, types_only=False, filter=FilterPresent("objectClass"), attributes=[])
    elif kind == "ext":
        m = ExtendedRequest(message_id=mid, controls=[], name="1.2.3", value=None)
    elif kind == "unbind":
        m = UnbindRequest(message_id=0, controls=[])
    elif kind == "resp":     # a response delivered to a server: must be a protocol error
        m = SearchResultDone(message_id=mid, controls=[], result=RES(LDAPResultCode.SUCCESS))
    return bytes(m.pack(OPT))


def resp_bytes(kind, mid):
    if kind == "bindok":
        m = BindResponse(message_id=mid, controls=[], result=RES(LDAPResultCode.SUCCESS), server_sasl_creds=None)
    elif kind == "bindsasl":
        m = BindResponse(message_id=mid, controls=[], result=RES(LDAPResultCode.SASL_BIND_IN_PROGRESS), server_sasl_creds=b"x")
    elif kind == "entry":
        m = SearchResultEntry(message_id=mid, controls=[], object_name="", attributes=[])
    elif kind == "ref":
        m = SearchResultReference(message_id=mid, controls=[], uris=["ldap://x"])
    elif kind == "done":
        m = SearchResultDone(message_id=mid, controls=[], result=RES(LDAPResultCode.SUCCESS))
    elif kind == "ext":
        m = ExtendedResponse(message_id=mid, controls=[], result=RES(LDAPResultCode.SUCCESS), name=None, value=None)
    elif kind == "notice":
        m = ExtendedResponse(message_id=0, controls=[], result=RES(LDAPResultCode.UNAVAILABLE), name=NOTICE, value=None)
    elif kind == "req":      # a request delivered to a client: must be a protocol error
        m = ExtendedRequest(message_id=mid, controls=[], name="1.2.3", value=None)
    return bytes(m.pack(OPT))


def expected_server_msg(name, args):
    mid = args[0] if args else 0
    if name == "bind_response":
        return BindResponse(message_id=mid, controls=[], result=RES(LDAPResultCode(args[1])), server_sasl_creds=None)
    if name == "extended_response":
        return ExtendedResponse(message_id=mid, controls=[], result=RES(LDAPResultCode.SUCCESS), name=args[1], value=None)
    if name == "search_result_entry":
        return SearchResultEntry(message_id=mid, controls=[], object_name="", attributes=[])
    if name == "search_result_reference":
        return SearchResultReference(message_id=mid, controls=[], uris=["ldap://x"])
    if name == "search_result_done":
        return SearchResultDone(message_id=mid, controls=[], result=RES(LDAPResultCode.SUCCESS))
    if name == "unbind":
        return UnbindRequest(message_id=0, controls=[])


def server_actions(ids, tier):
    acts = []
    for i in ids:
        acts += [("recv", ("bind", i)), ("recv", ("search", i)), ("recv", ("ext", i))]
        acts += [("bind_response", (i, 0)), ("bind_response", (i, 14)),
                 ("extended_response", (i, None)), ("search_result_entry", (i,)), ("search_result_done", (i,))]
        if tier == "thorough":
            acts += [("search_result_reference", (i,)), ("extended_response", (i, "1.2.3"))]
    acts += [("extended_response", (ids[0], NOTICE)), ("extended_response", (0, NOTICE)), ("unbind", ()), ("recv", ("unbind", 0)),
             ("recv", ("resp", ids[0])), ("drain", (None,)), ("drain", (1,)), ("drain", (1000,)), ("recv", ("garbage", 0))]
    if tier == "thorough":
        acts += [("drain", (0,)), ("drain", (-1,)), ("bind_response", (0, 0)), ("search_result_entry", (0,))]
    return acts


def client_actions(ids, tier):
    acts = [("bind_simple", ()), ("extended_request", ()), ("search_request", ()), ("unbind", ()), ("drain", (None,)), ("drain", (1,)),
            ("recv", ("notice", 0)), ("recv", ("garbage", 0)), ("recv", ("req", 1)), ("recv", ("ext", 0))]
    for i in ids:
        acts += [("recv", ("bindok", i)), ("recv", ("bindsasl", i)), ("recv", ("entry", i)), ("recv", ("done", i)), ("recv", ("ext", i))]
        if tier == "thorough":
            acts += [("recv", ("ref", i))]
    if tier == "thorough":
        acts += [("drain", (1000,)), ("bind_sasl", ())]
    return acts


class Track:
    """Observer state for the property oracles (not a model of the session: only what the statements talk about)."""
    def __init__(self):
        self.expected = b""      # concatenation of the encodings of the messages whose send call succeeded
        self.drained = b""
        self.closed_seen = False
        self.next_id = 1
        self.issued = []


def record(kind, prop, what, hist):
    violations.append({"function": "history", "kind": kind, "property": prop, "clause": what,
                       "inputs": {"history": [repr(h) for h in hist]}, "detail": ""})


def step(sess, tr, act, hist, is_server):
    name, args = act
    pending_before = bytes(sess._outgoing_buffer)
    state_before = sess.state
    was_closed = state_before == SessionState.CLOSED
    counts["steps"] = counts.get("steps", 0) + 1
    try:
        if name == "drain":
            out = sess.data_to_send(*args)
            tr.drained += out
            if sess.state != state_before:
                record("oracle", "C12", "draining changed the protocol state", hist)
            if tr.drained + bytes(sess._outgoing_buffer) != tr.expected:
                record("oracle", "C12", "drained ++ pending != encodings of successfully sent messages", hist)
            return
        if name == "recv":
            kind, mid = args
            data = b"\x30\x03\x02\x01" if kind == "garbage" else (req_bytes(kind, mid) if is_server else resp_bytes(kind, mid))
            sess.receive(data)
            if was_closed:
                record("oracle", "C08", "a CLOSED session accepted data", hist)
        else:
            if is_server:
                call_args = {"bind_response": lambda: (args[0],), "extended_response": lambda: (args[0],), "search_result_entry": lambda: (args[0], "", []),
                             "search_result_reference": lambda: (args[0], ["ldap://x"]), "search_result_done": lambda: (args[0],), "unbind": lambda: ()}[name]()
                kw = {}
                if name == "bind_response":
                    kw["result_code"] = LDAPResultCode(args[1])
                if name == "extended_response":
                    kw["name"] = args[1]
                r = getattr(sess, name)(*call_args, **kw)
                exp = expected_server_msg(name, args)
            else:
                if name == "bind_simple":
                    r = sess.bind_simple("cn=x", "pw")
                    exp = BindRequest(message_id=r, controls=[], version=3, name="cn=x", authentication=SimpleCredential(password="pw"))
                elif name == "bind_sasl":
                    r = sess.bind_sasl("EXTERNAL")
                    from sansldap._authentication import SaslCredential
                    exp = BindRequest(message_id=r, controls=[], version=3, name="", authentication=SaslCredential(mechanism="EXTERNAL", credentials=None))
                elif name == "extended_request":
                    r = sess.extended_request("1.2.3")
                    exp = ExtendedRequest(message_id=r, controls=[], name="1.2.3", value=None)
                elif name == "search_request":
                    r = sess.search_request("dc=x")
                    exp = SearchRequest(message_id=r, controls=[], base_object="dc=x", scope=SearchScope.SUBTREE, deref_aliases=DereferencingPolicy.NEVER,
                                        size_limit=0, time_limit=0, types_only=False, filter=FilterPresent("objectClass"), attributes=[])
                elif name == "unbind":
                    r = sess.unbind()
                    exp = UnbindRequest(message_id=0, controls=[])
                if name != "unbind":
                    # C09: ids are positive, strictly increasing, never reused
                    if r != tr.next_id:
                        record("oracle", "C09", f"client handed out id {r}, expected {tr.next_id}", hist)
                    tr.next_id = r + 1
            if was_closed:
                record("oracle", "C08", f"{name} succeeded on a CLOSED session", hist)
            inc = bytes(sess._outgoing_buffer)[len(pending_before):]
            if bytes(sess._outgoing_buffer)[:len(pending_before)] != pending_before:
                record("oracle", "C12", "a send call modified bytes that were already pending", hist)
            want = bytes(exp.pack(OPT))
            if inc != want:
                record("oracle", "C12", f"{name} appended {inc.hex()} but the encoding of the message is {want.hex()}", hist)
            tr.expected += want
    except LDAPError as e:
        if name == "recv" and not isinstance(e, ProtocolError):
            record("oracle", "C05", f"receive raised {type(e).__name__}", hist)
        if name == "recv" and sess.state != SessionState.CLOSED:
            record("oracle", "C05", "protocol error did not close the session", hist)
        if name != "recv" and bytes(sess._outgoing_buffer) != pending_before:
            record("oracle", "C10", f"rejected {name} changed the outgoing byte stream", hist)
    except Exception as e:
        record("oracle", "C10" if name != "recv" else "C05", f"{name} failed with {type(e).__name__}: {e}", hist)
    if was_closed and sess.state != SessionState.CLOSED:
        record("oracle", "C08", f"session left CLOSED after {name}", hist)
    if was_closed and bytes(sess._outgoing_buffer) != pending_before:
        record("oracle", "C08", f"CLOSED session produced bytes in {name}", hist)


def explore(make, actions, depth, is_server, first=None):
    """Depth-first over all action sequences up to `depth`; with first=i only the sequences that start with actions[i] (one worker)."""
    n = 0
    stack = [(make(), Track(), [])]
    seen_states = set()
    if first is not None:
        sess, tr, hist = stack.pop()
        act = actions[first]
        h2 = [act]
        nv = len(violations)
        step(sess, tr, act, h2, is_server)
        n += 1
        if len(violations) > nv:
            for v in violations[nv:]:
                v["inputs"].setdefault("history", [repr(h) for h in h2])
                v["inputs"]["role"] = "server" if is_server else "client"
            return n
        stack = [(sess, tr, h2)]
    while stack:
        sess, tr, hist = stack.pop()
        if len(hist) >= depth:
            continue
        for act in actions:
            s2 = copy.deepcopy(sess)
            t2 = copy.copy(tr)
            h2 = hist + [act]
            nv = len(violations)
            step(s2, t2, act, h2, is_server)
            n += 1
            if len(violations) > nv:
                for v in violations[nv:]:
                    v["inputs"].setdefault("history", [repr(h) for h in h2])
                    v["inputs"]["role"] = "server" if is_server else "client"
                if len(violations) > 40:
                    return n
                continue
            # prune: identical abstract situations need not be expanded twice at the same remaining depth
            key = (len(h2), s2.state, frozenset(s2._outstanding_requests), frozenset(s2._search_requests), bytes(s2._outgoing_buffer),
                   bytes(s2._incoming_buffer), getattr(s2, "_message_counter", 0), t2.expected, t2.drained)
            if key in seen_states:
                continue
            seen_states.add(key)
            stack.append((s2, t2, h2))
    return n


def _worker(arg):
    (role, ids, depth, first), tier = arg
    del violations[:]
    counts.clear()
    if role == "server":
        n = explore(LDAPServer, server_actions(ids, tier), depth, True, first)
    else:
        n = explore(LDAPClient, client_actions(ids, tier), depth, False, first)
    return n, list(violations)[:10], dict(counts)


def main():
    tier = os.environ.get("VERIF_TIER", "quick")
    depth = int(os.environ.get("SESSION_DEPTH", "5" if tier == "quick" else "6"))
    t0 = time.time()
    ids = [1, 2]
    big = [2147483647, 2147483646]
    # one worker per (role, first action); the server answers ids chosen by the peer: the extreme legal MessageIDs
    # (RFC 4511 maxInt = 2^31 - 1) as well, one level shallower
    jobs = [("server", ids, depth, i) for i in range(len(server_actions(ids, tier)))] + \
           [("client", ids, depth, i) for i in range(len(client_actions(ids, tier)))] + \
           [("server", big, max(2, depth - 1), i) for i in range(len(server_actions(big, tier)))]
    import multiprocessing as mp
    with mp.get_context("fork").Pool(min(16, os.cpu_count() or 4)) as pool:
        res = pool.map(_worker, [(j, tier) for j in jobs], chunksize=1)
    n1 = sum(r[0] for r, j in zip(res, jobs) if j[0] == "server")
    n2 = sum(r[0] for r, j in zip(res, jobs) if j[0] == "client")
    for r in res:
        violations.extend(r[1])
        for k, v in r[2].items():
            counts[k] = counts.get(k, 0) + v
    out = {"evaluations": n1 + n2, "contract_evaluations": counts.get("evaluated", 0), "steps": counts.get("steps", 0),
           "depth": depth, "violations": violations[:40], "wall_s": round(time.time() - t0, 2),
           "bound": f"all API/delivery sequences of length <= {depth} over ids {ids} (and, for the server, of length <= {max(2, depth - 1)} over ids {big}) (server: {len(server_actions(ids, tier))} actions, client: {len(client_actions(ids, tier))} actions), equal abstract situations merged"}
    json.dump(out, sys.stdout)


if __name__ == "__main__":
    if len(sys.argv) > 2 and sys.argv[1] == "replay":
        spec = json.load(open(sys.argv[2]))
        hist = [eval(h) for h in spec["inputs"]["history"]]
        is_server = spec["inputs"].get("role") == "server"
        sess, tr = (LDAPServer() if is_server else LDAPClient()), Track()
        for i, act in enumerate(hist):
            step(sess, tr, act, hist[:i + 1], is_server)
        print(json.dumps({"violations": violations[:10], "final_state": str(sess.state)}))
        sys.exit(1 if violations else 0)
    main()
