"""Replays a counter-model of the prover on the real code (runs under /venv/bin/python).

Input (JSON file): {"function": "<module>:<qualname>", "contract": "<contract key>", "model": {"reader._view": [octets], ...}}.
For the functions of the BER decode tree (one reader, default options) the real function is called on an ASN1Reader over
the model's octets, and every postcondition / exception clause of the sidecar contract that can be evaluated natively
(clauses over ghost traces cannot) is evaluated on the real outcome.  Exit 1 and a JSON report when a clause fails on the
real code - that is a failing input, not only a failed proof; exit 0 when the real code satisfies them for this input.
"""
import sys, os, json, importlib, inspect
sys.path.insert(0, os.path.dirname(os.path.dirname(os.path.abspath(__file__))))
sys.path.insert(0, os.environ.get("SANSLDAP_SRC", "/repo/src"))
from pyvc import native

native.CONTRACT_FILES = ["asn1", "session", "messages", "decode"]


def main(path):
    spec = json.load(open(path))
    spec = spec.get("replay_model", spec)
    key, ckey, model = spec["function"], spec.get("contract") or spec["function"], spec["model"]
    native.init()
    reg, _, _ = native.load_contracts()
    c = reg[ckey]
    mod_name, qual = key.split(":")
    mod = importlib.import_module("sansldap." + mod_name)
    obj = mod
    for part in qual.split("."):
        obj = getattr(obj, part)
    fn = obj
    from sansldap.asn1 import ASN1Reader
    glob = {}
    for m in ("asn1", "_messages", "_filter", "_controls", "_authentication", "_session"):
        glob.update({k: v for k, v in vars(importlib.import_module("sansldap." + m)).items() if not k.startswith("__")})
    sig = inspect.signature(fn)
    args = {}
    for pn in sig.parameters:
        ov = c.kw.get("params", {}).get(pn)
        if pn in ("reader", "message"):
            args[pn] = ASN1Reader(bytes(model.get(pn + "._view") or b""))
        elif ov and ov.startswith("const:"):
            args[pn] = eval(ov[6:], glob)
        elif pn in model and model[pn] is not None and not isinstance(model[pn], str):
            v = model[pn]
            args[pn] = bytes(v) if isinstance(v, list) else v
        elif pn == "controls":
            args[pn] = []
        elif pn == "message_id":
            args[pn] = int(model.get("message_id") or 0)
        elif pn == "hint" or pn == "name":
            args[pn] = "replay"
        else:
            print(json.dumps({"replayed": False, "reason": f"no value for parameter {pn}"}))
            return 0
    old_env = {k: native.snapshot(v) for k, v in args.items()}
    failed, outcome = [], None
    try:
        result = fn(**args)
        outcome = "returned " + repr(result)[:200]
        env = dict(args, result=result)
        for cl in c.ensures:
            try:
                if not native.eval_clause(cl, env, old_env, glob):
                    failed.append({"kind": "ensures", "clause": cl})
            except native.Undefined:
                pass
    except Exception as e:
        outcome = f"raised {type(e).__name__}: {e}"[:200]
        allowed = [n for n in c.raises if native.exc_matches(e, n)]
        if not allowed:
            failed.append({"kind": "raises-unexpected", "clause": f"no {type(e).__name__} may escape"})
    print(json.dumps({"replayed": True, "function": key, "input": {k: (list(bytes(v._view)) if hasattr(v, "_view") else repr(v)[:80]) for k, v in old_env.items()},
                      "outcome": outcome, "failed_clauses": failed}, default=str))
    return 1 if failed else 0


if __name__ == "__main__":
    sys.exit(main(sys.argv[-1]))
