"""Bounded stand-in and exact regex decisions for the filter text form (C13, C14, C15); runs under /venv/bin/python.

C15  all strings up to a length bound over a class-representative alphabet + every single-character edit of grammar
     sentences: from_string returns a filter or raises FilterSyntaxError with a span inside the input; accepted results
     carry RFC 4512-valid attribute descriptions / rules and re-parse from their own text to themselves.
     Exact: L(_ATTRIBUTE_PATTERN) versus the RFC 4512 attributedescription language (automata difference, full Unicode).
C14  sentences generated from the RFC 4515 grammar (every production, both hex cases, raw UTF-8, options, OIDs, tolerated
     spaces) together with the tree the derivation denotes: from_string must return that tree.
C13  per-octet escape table over all 256 octets (complete), and trees up to a node bound with values over the structural
     alphabet at one leaf at a time: from_string(str(f)) == f.
Labelled bounded except the regex decision and the 256-octet table, which are exhaustive.
"""
import sys, os, json, time, itertools, re, multiprocessing as mp
sys.path.insert(0, os.path.dirname(os.path.dirname(os.path.abspath(__file__))))
sys.path.insert(0, os.environ.get("SANSLDAP_SRC", "/repo/src"))
from pyvc import regexlang as R
import sansldap._filter as F
from sansldap._filter import (LDAPFilter, FilterSyntaxError, FilterAnd, FilterOr, FilterNot, FilterEquality, FilterSubstrings,
                              FilterGreaterOrEqual, FilterLessOrEqual, FilterPresent, FilterApproxMatch, FilterExtensibleMatch)

violations = []
# RFC 4512: attributedescription = attributetype options ; attributetype = oid ; oid = descr / numericoid
# descr = keystring = leadkeychar *keychar ; numericoid = number 1*( DOT number ) ; number = DIGIT / ( LDIGIT 1*DIGIT )
# options = *( SEMI option ) ; option = 1*keychar ; keychar = ALPHA / DIGIT / HYPHEN
RFC_ATTR = r"(?:[A-Za-z][A-Za-z0-9\-]*|(?:0|[1-9][0-9]*)(?:\.(?:0|[1-9][0-9]*))+)(?:;[A-Za-z0-9\-]+)*\Z"
SINGLE_ARC = r"(?:0|[1-9][0-9]*)(?:;[A-Za-z0-9\-]+)*\Z"          # the listed known finding: one-arc numeric OIDs
RFC_ATTR_RE = re.compile(RFC_ATTR)
RFC_OR_KNOWN = re.compile("(?:" + RFC_ATTR[:-2] + "|" + SINGLE_ARC[:-2] + r")\Z")


known_seen = {}


def rec(prop, clause, inputs, detail="", known_key=None):
    v = {"function": "filter_text", "kind": "oracle", "property": prop, "clause": clause, "inputs": inputs, "detail": detail}
    if known_key:
        # inputs of a listed known shape: one representative per (property, shape); they never crowd out other findings
        k = (prop, json.dumps(known_key, sort_keys=True))
        if k in known_seen:
            known_seen[k]["count"] = known_seen[k].get("count", 1) + 1
            return
        v["known_key"] = known_key
        known_seen[k] = v
        return
    if sum(1 for x in violations if x["property"] == prop) < 25:      # cap per property: one property cannot crowd out another
        violations.append(v)


def tree_nodes(f):
    yield f
    if isinstance(f, (FilterAnd, FilterOr)):
        for x in f.filters:
            yield from tree_nodes(x)
    elif isinstance(f, FilterNot):
        yield from tree_nodes(f.filter)


def check_string(s):
    """C15 on one input string. Returns list of violation tuples."""
    out = []
    try:
        f = LDAPFilter.from_string(s)
    except FilterSyntaxError as e:
        try:
            blen = len(s.strip().encode("utf-8", errors="surrogateescape"))
        except UnicodeEncodeError:
            blen = None
        limit = max(blen if blen is not None else 0, len(s.strip()))
        if not (isinstance(e.offset, int) and isinstance(e.length, int) and 0 <= e.offset and 0 <= e.length and e.offset + e.length <= limit):
            out.append(("C15", "FilterSyntaxError span lies inside the input", s, f"offset={e.offset} length={e.length} input length={limit}", None))
        return out
    except Exception as e:
        out.append(("C15", "from_string raises only FilterSyntaxError", s, f"{type(e).__name__}: {str(e)[:80]}", None))
        return out
    for node in tree_nodes(f):
        names = []
        if isinstance(node, FilterExtensibleMatch):
            names = [n for n in (node.attribute, node.rule) if n is not None]
        elif hasattr(node, "attribute"):
            names = [node.attribute]
        for nm in names:
            if not RFC_ATTR_RE.match(nm):
                if RFC_OR_KNOWN.match(nm):
                    out.append(("C15", "accepted attribute description / rule is RFC 4512-valid", s, f"{nm!r}",
                                {"kind": "attribute", "shape": "single-arc-numericoid"}))
                else:
                    out.append(("C15", "accepted attribute description / rule is RFC 4512-valid", s, f"{nm!r}", None))
    try:
        text = str(f)
        g = LDAPFilter.from_string(text)
        if g != f:
            kk = None
            for node in tree_nodes(f):
                if isinstance(node, FilterExtensibleMatch) and node.attribute and node.rule and node.rule.lower() == "dn" and not node.dn_attributes:
                    kk = {"kind": "FilterExtensibleMatch", "attribute": "present", "rule_lower": "dn", "dn_attributes": False}
            out.append(("C15", "the accepted result's own text parses back to the same result", s, f"{text!r} -> {g!r}", kk))
    except RecursionError:
        pass          # str() of a tree as deep as the interpreter stack allows: out of scope (noted in DESIGN.md)
    except Exception as e:
        out.append(("C15", "the accepted result's own text parses back to the same result", s, f"{type(e).__name__}: {str(e)[:80]}", None))
    return out


_PROBES = None


def _no_memory(out):
    """Parsing has no memory: after any number of rejected inputs a fixed set of filters still round-trips (C13) in this process."""
    global _PROBES
    if _PROBES is None:
        x = FilterEquality("cn", b"v")
        _PROBES = [FilterAnd([x, FilterOr([x, FilterNot(x)])]), FilterNot(FilterAnd([x])), FilterOr([FilterAnd([x, x]), x]), FilterSubstrings("cn", b"a", [b"b"], None)]
    for f in _PROBES:
        try:
            back = LDAPFilter.from_string(str(f))
            if back != f:
                out.append(("C13", "from_string(str(f)) == f", str(f), f"after rejected inputs in the same process: parsed back as {back!r}"[:300], None))
        except Exception as e:
            out.append(("C13", "from_string(str(f)) == f", str(f), f"after rejected inputs in the same process: {type(e).__name__}: {e}"[:300], None))


def _chunk_strings(args):
    alphabet, prefix, n = args
    out = []
    cnt = 0
    for tail in itertools.product(alphabet, repeat=n):
        s = prefix + "".join(tail)
        cnt += 1
        out.extend(check_string(s))
        if len(out) > 20:
            break
    _no_memory(out)
    return cnt, out[:24]


# ---------------------------------------------------------------------------------------------- grammar sentences (C14)
ATTRS = ["cn", "a-b", "o;lang-en;x-1", "2.5.4.3", "1.2;binary", "objectClass"]
RULES = ["caseIgnoreMatch", "2.5.13.2", "r-x"]
VALUES = [(b"", ""), (b"v", "v"), (b"a b", "a b"), (b"*", "\\2a"), (b"(", "\\28"), (b")", "\\29"), (b"\\", "\\5c"), (b"\\", "\\5C"), (b"\x00", "\\00"),
          (b"\xc3\xa9", "é"), (b"\xff", "\\ff"), (b"\xFF", "\\FF"), (b"a=b", "a=b"), (b":dn:", ":dn:"), (b"&|!", "&|!"), (b"~<>", "~<>")]


def simple_sentences():
    out = []
    for a in ATTRS:
        out.append((f"({a}=*)", FilterPresent(a)))
        for raw, txt in VALUES:
            if raw == b"":
                continue      # RFC 4515: an empty value with '=' is a valid equality assertion; handled below
            out.append((f"({a}={txt})", FilterEquality(a, raw)))
            out.append((f"({a}>={txt})", FilterGreaterOrEqual(a, raw)))
            out.append((f"({a}<={txt})", FilterLessOrEqual(a, raw)))
            out.append((f"({a}~={txt})", FilterApproxMatch(a, raw)))
    a = "cn"
    nonempty = [(b"*", "\\2a"), (b"a*b", "a\\2Ab")] + [(r, t) for r, t in VALUES if r not in (b"", b"*")]
    for (r1, t1) in nonempty[:8]:
        out.append((f"({a}={t1}*)", FilterSubstrings(a, r1, [], None)))
        out.append((f"({a}=*{t1})", FilterSubstrings(a, None, [], r1)))
        out.append((f"({a}=*{t1}*)", FilterSubstrings(a, None, [r1], None)))
        for (r2, t2) in nonempty[:4]:
            out.append((f"({a}={t1}*{t2})", FilterSubstrings(a, r1, [], r2)))
            out.append((f"({a}={t1}*{t2}*{t1})", FilterSubstrings(a, r1, [r2], r1)))
            out.append((f"({a}=*{t1}*{t2}*)", FilterSubstrings(a, None, [r1, r2], None)))
    # extensible match:  attr [dnattrs] [matchingrule] := value   /   [dnattrs] matchingrule := value
    for raw, txt in VALUES[:6]:
        for at in ATTRS[:4]:
            out.append((f"({at}:={txt})", FilterExtensibleMatch(None, at, raw, False)))
            for dn in ("dn", "DN", "Dn"):
                out.append((f"({at}:{dn}:={txt})", FilterExtensibleMatch(None, at, raw, True)))
            for ru in RULES:
                out.append((f"({at}:{ru}:={txt})", FilterExtensibleMatch(ru, at, raw, False)))
                out.append((f"({at}:dn:{ru}:={txt})", FilterExtensibleMatch(ru, at, raw, True)))
        for ru in RULES + ["dn", "DN"]:
            out.append((f"(:{ru}:={txt})", FilterExtensibleMatch(ru, None, raw, False)))
            out.append((f"(:dn:{ru}:={txt})", FilterExtensibleMatch(ru, None, raw, True)))
            out.append((f"(:DN:{ru}:={txt})", FilterExtensibleMatch(ru, None, raw, True)))
    return out


def compound_sentences(simple, tier):
    base = simple[:: max(1, len(simple) // (12 if tier == "quick" else 40))]
    out = []
    sp = ["", " ", "  "]
    for (t1, f1) in base:
        out.append((f"(!{t1})", FilterNot(f1)))
        out.append((f"(&{t1})", FilterAnd([f1])))
        out.append((f"(|{t1})", FilterOr([f1])))
        for (t2, f2) in base[:5]:
            out.append((f"(&{t1}{t2})", FilterAnd([f1, f2])))
            out.append((f"(|{t1}(!{t2}))", FilterOr([f1, FilterNot(f2)])))
            out.append((f"(&(|{t1}{t2})(!(&{t2})))", FilterAnd([FilterOr([f1, f2]), FilterNot(FilterAnd([f2]))])))
    # tolerated spaces (the library documents / tests: around the whole filter, after '(' , after the operator, between and after sub-filters)
    t1, f1 = base[0]
    t2, f2 = base[1]
    for a, b, c, d in itertools.product(sp, repeat=4):
        out.append((f"{a}(&{b}{t1}{c}{t2}{d}){a}", FilterAnd([f1, f2])))
        out.append((f"{a}({b}!{c}{t1}{d})", FilterNot(f1)))
    return out


# ---------------------------------------------------------------------------------------------- trees (C13)
def leaf_variants(value, attr="cn"):
    yield FilterEquality(attr, value)
    yield FilterGreaterOrEqual(attr, value)
    yield FilterLessOrEqual(attr, value)
    yield FilterApproxMatch(attr, value)
    yield FilterExtensibleMatch("2.5.13.2", attr, value, True)
    yield FilterExtensibleMatch(None, attr, value, False)
    yield FilterExtensibleMatch("caseExactMatch", None, value, False)
    yield FilterExtensibleMatch("dn", None, value, False)
    yield FilterExtensibleMatch("dn", None, value, True)
    if value:
        yield FilterSubstrings(attr, value, [], None)
        yield FilterSubstrings(attr, None, [value], None)
        yield FilterSubstrings(attr, None, [], value)
        yield FilterSubstrings(attr, value, [value, b"x"], value)


def check_roundtrip(f, label):
    try:
        text = str(f)
        # parsing has no memory: the same text in another letter case is parsed first in this process (whatever it yields);
        # a spelling remembered from it must not come back in the result for the original text
        try:
            LDAPFilter.from_string(text.swapcase())
        except Exception:
            pass
        g = LDAPFilter.from_string(text)
    except Exception as e:
        return [("C13", "from_string(str(f)) == f", repr(f)[:200], f"{label}: {type(e).__name__}: {str(e)[:100]}", None)]
    if g != f:
        kk = None
        for node in tree_nodes(f):
            if isinstance(node, FilterExtensibleMatch) and node.attribute and node.rule and node.rule.lower() == "dn" and not node.dn_attributes:
                kk = {"kind": "FilterExtensibleMatch", "attribute": "present", "rule_lower": "dn", "dn_attributes": False}
        return [("C13", "from_string(str(f)) == f", repr(f)[:200], f"{label}: text {text!r} parsed as {g!r}"[:300], kk)]
    # the text uses RFC 4515 syntax with every special octet escaped: no raw special character inside a value
    return []


def _chunk_values(args):
    vals = args
    out, cnt = [], 0
    for v in vals:
        for leaf in leaf_variants(v):
            cnt += 1
            out.extend(check_roundtrip(leaf, "leaf"))
            cnt += 1
            out.extend(check_roundtrip(FilterAnd([FilterNot(leaf), FilterPresent("o")]), "nested"))
        if len(out) > 20:
            break
    return cnt, out[:20]


def main():
    tier = os.environ.get("VERIF_TIER", "quick")
    t0 = time.time()
    evals = {"C13": 0, "C14": 0, "C15": 0}
    pool = mp.get_context("fork").Pool(min(16, os.cpu_count() or 4))
    # ---- exact: attribute regex versus RFC 4512
    exact = {}
    try:
        code = R.build(F._ATTRIBUTE_PATTERN.pattern, F._ATTRIBUTE_PATTERN.flags)
        rfc = R.build(RFC_ATTR)
        known = R.build(SINGLE_ARC)
        w_any = R.difference_witness(code, rfc)
        w_new = R.difference_witness(code, rfc, exclude=known)
        w_missing = R.difference_witness(rfc, code)
        exact = {"code_minus_rfc": w_any, "code_minus_rfc_minus_known": w_new, "rfc_minus_code": w_missing}
        if w_new is not None:
            rec("C15", "L(_ATTRIBUTE_PATTERN) is contained in the RFC 4512 attributedescription language", {"attribute": w_new},
                f"the pattern matches {w_new!r}, which is not an attribute description")
        elif w_any is not None:
            rec("C15", "L(_ATTRIBUTE_PATTERN) is contained in the RFC 4512 attributedescription language", {"attribute": w_any},
                f"the pattern matches {w_any!r}", known_key={"kind": "attribute", "shape": "single-arc-numericoid"})
        if w_missing is not None:
            rec("C14", "every RFC 4512 attribute description is accepted by _ATTRIBUTE_PATTERN", {"attribute": w_missing}, f"{w_missing!r} is rejected")
    except R.Unsupported as e:
        exact = {"undecided": str(e)}
    # ---- C13: complete per-octet table
    table_bad = 0
    for b in range(256):
        v = bytes([b])
        txt = F._serialize_filter_value(v)
        evals["C13"] += 1
        ok = (txt == chr(b) and b not in b"()*\\" and 0x20 <= b < 0x7F) or (re.fullmatch(r"\\[0-9a-fA-F]{2}", txt) is not None and int(txt[1:], 16) == b)
        back = None
        try:
            back = F._unpack_filter_value("", txt.encode("utf-8"), 0, len(txt))
        except Exception as e:
            back = repr(e)
        if not ok or back != v:
            table_bad += 1
            rec("C13", "every octet is written as itself (printable, non-special) or as \\hh and reads back as the same octet", {"octet": b}, f"text {txt!r} reads back {back!r}")
    # ---- C13: trees
    alpha13 = [b"(", b")", b"*", b"\\", b"=", b":", b"~", b"<", b">", b"!", b"&", b"|", b" ", b"\x00", b"\n", b"0", b"a", b"\x7f", b"\x80", b"\xff"]
    vals = [b""] + alpha13 + [a + b for a in alpha13 for b in alpha13]
    if tier == "thorough":
        vals += [a + b + c for a in alpha13 for b in alpha13 for c in alpha13]
        vals += [a + b + c + d for a in alpha13[:8] for b in alpha13[:8] for c in alpha13[:8] for d in alpha13[:8]]
    chunks = [vals[i::32] for i in range(32)]
    for cnt, out in pool.map(_chunk_values, chunks):
        evals["C13"] += cnt
        for o in out:
            rec(o[0], o[1], {"filter": o[2]}, o[3], o[4])
    # wider trees with RFC-valid attribute descriptions
    for at in ATTRS:
        for f in (FilterPresent(at), FilterEquality(at, b"v"), FilterSubstrings(at, b"a", [b"b", b"c"], b"d"), FilterExtensibleMatch("r-x", at, b"v", True)):
            for wrap in (lambda x: x, lambda x: FilterNot(x), lambda x: FilterAnd([x, FilterOr([x, FilterNot(x)])]), lambda x: FilterOr([FilterAnd([x]), x, x])):
                evals["C13"] += 1
                for o in check_roundtrip(wrap(f), "tree"):
                    rec(o[0], o[1], {"filter": o[2]}, o[3], o[4])
    # the listed known ambiguity (reported as KNOWN-FINDING)
    for o in check_roundtrip(FilterExtensibleMatch("dn", "cn", b"x", False), "known"):
        rec(o[0], o[1], {"filter": o[2]}, o[3], o[4])
    # ---- C14: grammar sentences
    simple = simple_sentences()
    sentences = simple + compound_sentences(simple, tier)
    for text, want in sentences:
        evals["C14"] += 1
        try:
            got = LDAPFilter.from_string(text)
            if got != want:
                rec("C14", "from_string returns the tree the RFC 4515 grammar denotes", {"text": text}, f"got {got!r}, grammar denotes {want!r}"[:300])
        except Exception as e:
            rec("C14", "from_string accepts every sentence of the RFC 4515 grammar", {"text": text}, f"{type(e).__name__}: {str(e)[:100]}")
    # ---- C15: all short strings + edits
    alpha15 = ["(", ")", "*", "\\", "=", ":", "~", "<", ">", "!", "&", "|", " ", "\x00", "\n", "0", "a", ";", ".", "-", "2", "é", "\udc80", "\ud800"]
    L = 4 if tier == "quick" else 5
    tasks = []
    for n in range(0, L):
        if n <= 2:
            tasks.append((alpha15, "", n))
    for a in alpha15:
        for b in (alpha15 if L >= 4 else [""]):
            tasks.append((alpha15, a + b, L - 2))
    if tier == "thorough":
        # length 6 over the structural characters only (what the scanners branch on)
        alpha6 = ["(", ")", "*", "\\", "=", ":", "~", "<", ">", "!", "&", "|", " ", "a"]
        for a in alpha6:
            for b in alpha6:
                tasks.append((alpha6, a + b, 4))
    for cnt, out in pool.map(_chunk_strings, tasks, chunksize=8):
        evals["C15"] += cnt
        for o in out:
            rec(o[0], o[1], {"text": o[2]}, o[3], o[4])
    # single-character edits of grammar sentences
    seeds = [t for t, _ in sentences[:: max(1, len(sentences) // (60 if tier == "quick" else 200))]][:220]
    edits = set()
    ed_alpha = ["(", ")", "*", "\\", "=", ":", "\n", "\x00", " ", "&", "\udc80", "é", ";", "."]
    for s in seeds:
        for i in range(len(s) + 1):
            for c in ed_alpha:
                edits.add(s[:i] + c + s[i:])
                if i < len(s):
                    edits.add(s[:i] + c + s[i + 1:])
            if i < len(s):
                edits.add(s[:i] + s[i + 1:])
    if tier == "thorough":
        # two edits: a second structural character inserted anywhere into every single edit of a tenth of the seeds
        firsts = sorted(edits)[::10]
        for s1 in firsts:
            for i in range(0, len(s1) + 1):
                for c in ("(", ")", "=", "\\", "*", ":"):
                    edits.add(s1[:i] + c + s1[i:])
    edits = sorted(edits)

    def chunks_of(xs, k):
        return [xs[i::k] for i in range(k)]
    for cnt, out in pool.map(_check_list, chunks_of(edits, 64)):
        evals["C15"] += cnt
        for o in out:
            rec(o[0], o[1], {"text": o[2]}, o[3], o[4])
    # deep nesting and long inputs
    for s in ["(&" * 3000 + "(a=b)" + ")" * 3000, "(!" * 5000 + "(a=b)" + ")" * 5000, "(" * 4000, "(a=" + "\\" * 3001 + ")", "(&(a=1)(b=22", "(cn\n=foo)", "\ud800=a", "\udc80=a"]:
        evals["C15"] += 1
        for o in check_string(s):
            rec(o[0], o[1], {"text": o[2][:80] + ("..." if len(o[2]) > 80 else ""), "text_len": len(o[2])}, o[3], o[4])
    pool.terminate()
    total = sum(evals.values())
    out = {"evaluations": total, "distinct_nontrivial": total, "per_property": evals, "regex_exact": exact, "violations": list(known_seen.values()) + violations,
           "wall_s": round(time.time() - t0, 2),
           "bound": f"C15: all strings of length <= {L} over a {len(alpha15)}-symbol class alphabet{' and of length 6 over the 14 structural characters' if tier == 'thorough' else ''} ({evals['C15']} incl. {len(edits)} single-{'and double-' if tier == 'thorough' else ''}character edits of grammar sentences); "
                    f"C14: {len(sentences)} grammar sentences with their denoted trees; C13: 256-octet table (complete), {evals['C13']} leaf/tree round trips over values of length <= {'3 (all 20 octet classes) and 4 (8 classes)' if tier == 'thorough' else 2} "
                    "from a 20-octet structural alphabet; regex: automata difference over the full Unicode alphabet (exact)"}
    json.dump(out, sys.stdout, default=str)


def _check_list(xs):
    out = []
    for s in xs:
        out.extend(check_string(s))
        if len(out) > 20:
            break
    _no_memory(out)
    return len(xs), out[:24]


if __name__ == "__main__":
    if len(sys.argv) > 2 and sys.argv[1] == "replay":
        spec = json.load(open(sys.argv[2]))
        inp = spec.get("inputs", {})
        if "text" in inp and "text_len" not in inp:
            res = check_string(inp["text"])
            try:
                print("from_string ->", repr(LDAPFilter.from_string(inp["text"])))
            except Exception as e:
                print("from_string raised", type(e).__name__, getattr(e, "offset", None), getattr(e, "length", None), e)
            print(json.dumps({"violations": [list(map(str, r)) for r in res]}))
            sys.exit(1 if res or spec.get("property") == "C14" else 0)
        if "filter" in inp:
            f = eval(inp["filter"])
            res = check_roundtrip(f, "replay")
            print(json.dumps({"violations": [list(map(str, r)) for r in res]}))
            sys.exit(1 if res else 0)
        print(json.dumps(spec)[:1000])
        sys.exit(1)
    main()
