"""Which functions / lemmas / native drivers make up each property.

job = (function key, concrete class key or None, contract key or None)
"""

S = "_session"


def j(key, cls=None, ckey=None):
    return {"key": key, "cls": cls, "ckey": ckey or key}


def inh(method, cls):
    """Method defined in LDAPSession, verified for concrete class `cls`."""
    return j(f"{S}:LDAPSession.{method}", f"{S}.{cls}", f"{S}:{cls}/LDAPSession.{method}")


LEMMAS_BER = [j("specs.ber:" + n) for n in (
    "lemma_pow256_pos", "lemma_pow128_pos", "lemma_be_prefix", "lemma_b128_prefix", "lemma_b128end_prefix", "lemma_be_bound",
    "lemma_le_bound", "lemma_le_frame", "lemma_be_frame", "lemma_b128_frame", "lemma_be_le_reverse", "lemma_b128_le128_reverse",
    "lemma_b128end_find", "lemma_pow2_8", "lemma_be_complement", "lemma_be_increment", "lemma_le128_frame", "lemma_div_step",
    "lemma_id_low", "lemma_id_high", "lemma_len_short", "lemma_len_long", "lemma_le_wrap", "lemma_le_increment", "lemma_le_all255",
    "lemma_le_prefix", "lemma_tlv_roundtrip", "lemma_integer_roundtrip", "lemma_boolean_roundtrip")]

ASN1_FUNCS = [j("asn1:" + n) for n in (
    "_unpack_asn1_octet_number", "_pack_asn1_octet_number", "_read_asn1_header", "_validate_tag", "_read_asn1_octet_string",
    "_read_asn1_sequence", "_read_asn1_set", "_read_asn1_boolean", "_read_asn1_integer", "_read_asn1_enumerated",
    "_pack_asn1", "_pack_asn1_integer", "_pack_asn1_boolean", "_pack_asn1_octet_string", "_pack_asn1_enumerated",
    "ASN1Reader.peek_header", "ASN1Reader.skip_value", "ASN1Reader.get_remaining_data", "ASN1Reader.read_octet_string",
    "ASN1Reader.read_boolean", "ASN1Reader.read_integer", "ASN1Reader.read_enumerated", "ASN1Reader.read_sequence", "ASN1Reader.read_set",
    "ASN1Writer.write_boolean", "ASN1Writer.write_octet_string", "ASN1Writer.write_integer", "ASN1Writer.write_enumerated",
    "ASN1Writer.__exit__", "ASN1Writer.get_data")]

SEND_CORE = [inh("_send", "LDAPServer"), inh("_send", "LDAPClient"), j(f"{S}:LDAPServer._send"), j(f"{S}:LDAPClient._send"),
             j(f"{S}:LDAPServer._validate_outgoing_message"),
             inh("_validate_outgoing_message", "LDAPClient")]
SERVER_API = [j(f"{S}:LDAPServer.{m}") for m in ("bind_response", "extended_response", "search_result_entry",
                                                  "search_result_reference", "search_result_done")] + [inh("unbind", "LDAPServer")]
CLIENT_API = [j(f"{S}:LDAPClient.{m}") for m in ("bind", "bind_simple", "bind_sasl", "extended_request", "search_request")] + [inh("unbind", "LDAPClient")]
DRAIN = [inh("data_to_send", "LDAPServer"), inh("data_to_send", "LDAPClient")]
INCOMING = [j(f"{S}:LDAPClient._process_incoming_message"), j(f"{S}:LDAPServer._process_incoming_message")]

RECEIVE = [inh("receive", "LDAPServer"), inh("receive", "LDAPClient"), j(f"{S}:LDAPServer.receive"), j(f"{S}:LDAPClient.receive"),
           j("_messages:unpack_ldap_message")]
LEMMAS_FRAMING = [j("specs.sess:" + n) for n in ("lemma_tlv_prefix", "lemma_chunk", "lemma_residue_incomplete", "lemma_any_chunking")] + \
                 [j("specs.ber:" + n) for n in ("lemma_b128end_bounds", "lemma_be_bound", "lemma_be_prefix", "lemma_b128_prefix", "lemma_b128end_prefix")]
# the three longest asn1 functions are verified by several workers each (same function, obligations partitioned)
def _split(jobs, names, n):
    out = []
    for jb in jobs:
        if jb["key"] in names:
            out += [dict(jb, part=[k, n]) for k in range(n)]
        else:
            out.append(jb)
    return out


ASN1_FUNCS = _split(ASN1_FUNCS, {"asn1:_pack_asn1", "asn1:_pack_asn1_integer", "asn1:_read_asn1_integer", "asn1:_read_asn1_header"}, 4)
FRAME_READERS = [j("asn1:" + n) for n in ("ASN1Reader.read_sequence", "_read_asn1_sequence", "_validate_tag", "_read_asn1_header",
                                           "_unpack_asn1_octet_number", "ASN1Reader.get_remaining_data")]

# decode tree below the LDAPMessage envelope: exception containment + progress of every `while reader:` loop (contracts/decode.py)
DECODE_TREE = [j("_authentication:%s.unpack" % n) for n in ("SimpleCredential", "SaslCredential", "AuthenticationCredential")] + \
              [j("_controls:%s.unpack" % n) for n in ("LDAPControl", "PagedResultControl", "ShowDeactivatedLinkControl", "ShowDeletedControl")] + \
              [j("_controls:unpack_ldap_control")] + \
              [j("_filter:%s.unpack" % n) for n in ("FilterAnd", "FilterOr", "FilterNot", "FilterEquality", "FilterSubstrings", "FilterGreaterOrEqual",
                                                    "FilterLessOrEqual", "FilterPresent", "FilterApproxMatch", "FilterExtensibleMatch", "LDAPFilter")] + \
              [j("_filter:_unpack_filter_attribute_value_assertion")] + \
              [j("_messages:_unpack_%s" % n) for n in ("bind_request", "bind_response", "extended_request", "extended_response", "search_request",
                                                       "search_result_done", "search_result_entry", "search_result_reference", "ldap_result", "partial_attribute")] + \
              [dict(j("_messages:_unpack_ldap_message_content", None, "_messages:_unpack_ldap_message_content[containment]"), part=[k, 6]) for k in range(6)]
# readers the decode tree calls: their `raises` clauses and the progress clause are what containment rests on
READER_METHODS = [j("asn1:" + n) for n in ("ASN1Reader.peek_header", "ASN1Reader.skip_value", "ASN1Reader.read_octet_string", "ASN1Reader.read_boolean",
                                           "ASN1Reader.read_integer", "ASN1Reader.read_enumerated", "ASN1Reader.read_sequence", "ASN1Reader.read_set", "_read_asn1_header", "_validate_tag",
                                           "_read_asn1_octet_string", "_read_asn1_sequence", "_read_asn1_set", "_read_asn1_boolean", "_read_asn1_integer",
                                           "_read_asn1_enumerated", "_unpack_asn1_octet_number")]

# encode tree: LDAPMessage.pack and everything below it is total (contracts/encode.py)
ENCODE_TREE = [j("_authentication:%s.pack" % n) for n in ("SimpleCredential", "SaslCredential")] + \
              [j("_controls:LDAPControl.pack"), j("_controls:LDAPControl.get_value"), j("_controls:PagedResultControl.get_value")] + \
              [j("_filter:%s.pack" % n) for n in ("FilterAnd", "FilterOr", "FilterNot", "FilterEquality", "FilterSubstrings", "FilterGreaterOrEqual",
                                                  "FilterLessOrEqual", "FilterPresent", "FilterApproxMatch", "FilterExtensibleMatch")] + \
              [j("_messages:%s._pack_inner" % n) for n in ("BindRequest", "BindResponse", "ExtendedRequest", "ExtendedResponse", "SearchRequest", "SearchResultDone",
                                                           "SearchResultEntry", "SearchResultReference", "LDAPResult", "PartialAttribute", "LDAPMessage")] + \
              [j("_messages:LDAPMessage.pack", None, "_messages:LDAPMessage.pack[totality]")]
_ENC_ASSUME = ["LDAPMessage.pack is the abstract function enc at the session layer; that it *returns* for every message value (raising nothing but UnicodeEncodeError for text without an encoding) is discharged "
               "from the bodies of the 28 functions of the encode tree (contracts/encode.py); closed world: credentials, filters and controls are instances of the library's own classes",
               "every int / enum field of a message value is below 256^(2^40) in magnitude (INTEGER contents of at most 2^40 octets)"]

# RFC 4515 text scanners (contracts/filter_text.py)
FILTER_TEXT = [j("_filter:" + n) for n in ("LDAPFilter.from_string", "_unpack_filter", "_unpack_complex_filter", "_unpack_simple_filter",
                                           "_unpack_filter_extensible_header", "_unpack_filter_substrings_value")]

# decoders with value-level postconditions (contracts/decode.py, second half)
VALUE_DECODERS = [j("_authentication:SimpleCredential.unpack"), j("_authentication:SaslCredential.unpack"), j("_authentication:AuthenticationCredential.unpack"),
                  j("_filter:_unpack_filter_attribute_value_assertion"), j("_controls:unpack_ldap_control")] + \
                 [j("_controls:%s.unpack" % n) for n in ("LDAPControl", "PagedResultControl", "ShowDeactivatedLinkControl", "ShowDeletedControl")] + \
                 [j("_filter:%s.unpack" % n) for n in ("FilterEquality", "FilterGreaterOrEqual", "FilterLessOrEqual", "FilterApproxMatch", "FilterPresent", "FilterExtensibleMatch", "FilterSubstrings", "FilterNot", "LDAPFilter")] + \
                 [j("_messages:_unpack_%s" % n) for n in ("bind_request", "search_request", "extended_request", "ldap_result", "search_result_done", "bind_response", "extended_response", "search_result_reference", "partial_attribute", "search_result_entry")] + \
                 [j("specs.ldapmsg:" + n) for n in ("lemma_nth_rest_step", "lemma_rt_extended_request")] + DECODE_TREE[-6:]
# C01: what the encoder's relation means for the decoder's postcondition (lemmas), and the round trip theorems that take both
# postconditions as hypotheses over the same octets
RT_LEMMAS = [j("specs.ldapmsg:" + n) for n in ("lemma_strs_enc_nth", "lemma_strs_enc_end", "lemma_strs_enc_nonempty", "lemma_opt_single", "lemma_opt_pair",
                                               "lemma_rt_ldap_result", "thm_rt_bind_response", "thm_rt_extended_response", "thm_rt_referrals",
                                               "lemma_octs_enc_nth", "lemma_octs_enc_end", "lemma_octs_enc_nonempty", "thm_rt_octs",
                                               "thm_rt_ava_filter", "thm_rt_bind_request_simple", "thm_rt_bind_request_sasl", "thm_rt_search_request_fixed", "thm_rt_control", "thm_rt_partial_attribute", "thm_rt_present",
                                               "lemma_fold_skip", "lemma_fold_hit")] + \
            [dict(j("specs.ldapmsg:thm_rt_ext_match"), part=[k, 6]) for k in range(6)] + \
            [j("specs.ldapmsg:" + n) for n in ("lemma_sel_skip", "lemma_sel_run", "lemma_fold_skip_run")] + \
            [dict(j("specs.ldapmsg:thm_rt_substrings"), part=[k, 3]) for k in range(3)]
_VD_NOTE = ("Proved for all octets (value-level postconditions over the X.690 denotation, which accepts every definite length form): both credential choices (SASL credentials present exactly when a UNIVERSAL primitive OCTET STRING follows "
            "the mechanism - anything else is an ignored trailing element), the four AttributeValueAssertion filter choices, `present`, extensibleMatch (rule / type / value as folds), substrings (type, initial, final) and the filter CHOICE dispatch by context tag number, the leading components of BindRequest (version, name), all fixed components of SearchRequest, "
            "Control (criticality DEFAULT FALSE recognised by UNIVERSAL 1, controlValue by UNIVERSAL 4 after it, anything else ignored) and the paged-results value, LDAPResult with its optional referral list, the URIs of SearchResultReference, the attribute selection of SearchRequest, PartialAttribute with its values (list items = contents of the elements, in order, as many as there are elements), and the optional context-tagged components of ExtendedRequest / BindResponse / ExtendedResponse as a fold over the element stream "
            "(the last element with the tag wins, every unrecognised element is skipped: 'unknown trailing elements do not change the result' for all inputs). For ExtendedRequest the composition with the encoder's relation is a proved lemma "
            "(lemma_rt_extended_request): decoding what the encoder emits gives back name and value. The envelope decoder returns the messageID denoted by the first element and the message class selected by the APPLICATION tag number of the second. ")

REGISTRY = {
    "C07": {"jobs": LEMMAS_BER + ASN1_FUNCS, "native": "native_c07.py",
            "assumptions": ["len(x) < 2^63 for every octet string (CPython sys.maxsize); INTEGER contents of at most 2^40 octets",
                            "inlined without a contract of their own: ASN1Tag.universal_tag, ASN1Reader.__init__/__bool__, ASN1Writer.__init__/__enter__/push_sequence/push_set (executed symbolically at every call site)"]},
    "C01": {"jobs": VALUE_DECODERS + RT_LEMMAS, "frames": {"rules": ["F1-no-module-state", "F2-no-class-attribute-writes", "F3-no-mutable-defaults", "F5-options-read-only", "F5-no-hidden-option-state"], "modules": ["_messages", "_filter", "_controls", "_authentication", "asn1"]}, "native": "native_messages.py", "level": "other",
            "explanation": _VD_NOTE + "The encode side is C03's encoding relation. Round trip theorems (specs/ldapmsg.py, proved like any function): with the encoder's postcondition and the decoder's postcondition as hypotheses over the same octets, every decoded field equals the encoded one - "
                           "for BindResponse, ExtendedResponse (hence SearchResultDone: LDAPResult alone), ExtendedRequest, BindRequest with either credential choice, the six fixed components of SearchRequest, the AttributeValueAssertion filter choices, `present`, extensibleMatch and substrings, Control, PartialAttribute, and every list of strings / octet strings (referrals, URIs of a SearchResultReference, attribute selection, attribute values: same length, same items); text fields modulo unutf8(utf8(t)) == t. "
                           "For the other message kinds, controls and filters the composition is the bounded evaluation: "
                           "Contract unpack(pack(m)) == m (reader exhausted, re-encoding identical; known controls may expose their raw value), evaluated over a stated bounded set of messages of all nine kinds. "
                           "The byte layer below (every TLV written is read back identically, all integers) is proved under C07; the per-message node-level contracts are not discharged deductively yet."},
    "C03": {"jobs": ENCODE_TREE + [j("specs.ldapmsg:lemma_strs_snoc"), j("specs.ldapmsg:lemma_octs_snoc")], "frames": {"rules": ["F1-no-module-state", "F2-no-class-attribute-writes", "F3-no-mutable-defaults", "F5-options-read-only", "F5-no-hidden-option-state"], "modules": ["_messages", "_filter", "_controls", "_authentication", "asn1"]}, "native": "native_messages.py", "level": "other",
            "assumptions": _ENC_ASSUME[1:] + ["closed world: credentials, filters and controls are instances of the library's own classes; the abstract base methods (AuthenticationCredential.pack, LDAPFilter.pack) "
                                              "carry the contract 'appends exactly one element', what the element is being stated and proved per concrete class",
                                              "three loops over lists of *objects* (filters of and / or, attributes of SearchResultEntry, controls of the envelope) are verified for totality and for the enclosing element only: "
                                              "each element encoder is verified against its own encoding relation, but the accumulation over the list is not carried as a loop invariant (covered by the bounded evaluation)"],
            "explanation": "Proved for all message values (contracts/encode.py): the RFC 4511 encoding relation of the envelope and of every message kind, credential choice, filter choice and control - each function appends exactly the "
                           "elements the ASN.1 module lists, in order, each one TLV with the stated class / primitive-or-constructed form / number, minimal identifier and definite length octets, the stated content "
                           "(utf8 of the string field, the octets field, minimal two's-complement of the integer / enumerated field, FF for TRUE), DEFAULT FALSE and absent optionals omitted; lists of strings and octet strings "
                           "(referrals, URIs, attribute selections, attribute values, substrings 'any') by loop invariants over strs_enc / octs_enc with induction lemmas. By lemma_tlv_roundtrip (C07) a strict decoder reads such octets back uniquely. "
                           "Not proved (hence level 'other'): the accumulation over lists of objects (and / or filters, PartialAttributeList, Controls) and the decoder side; the contract rfc4511.decode(m.pack(), strict) == abstract(m) "
                           "against the independent codec (specs/rfc4511.py) is evaluated over the bounded message set for those. One clause is a listed known finding (UnbindRequest written constructed)."},
    "C04": {"jobs": VALUE_DECODERS, "frames": {"rules": ["F1-no-module-state", "F2-no-class-attribute-writes", "F3-no-mutable-defaults", "F5-options-read-only", "F5-no-hidden-option-state"], "modules": ["_messages", "_filter", "_controls", "_authentication", "asn1"]}, "native": "native_messages.py", "level": "other",
            "explanation": _VD_NOTE + "Every definite length form and TRUE = any non-zero octet are proved for all inputs at the byte layer (C07: _read_asn1_header equals the X.690 denotation; _read_asn1_boolean). "
                           "At the message layer the contract unpack(encode_with_freedoms(abstract(m))) == m is evaluated over the bounded message set x 10 freedom combinations (extra length octets at every node, TRUE as 01/80/7F, explicit defaults, unknown trailing elements incl. ones whose tag number coincides with a known component in another class)."},
    "C02": {"jobs": RECEIVE + LEMMAS_FRAMING + FRAME_READERS + [j("asn1:ASN1Reader.read_octet_string")], "native": "native_receive.py",
            "assumptions": ["decoding the content of one envelope is a deterministic function of those octets and the options (dec_content; C19 supports it)",
                            "every partition: lemma_any_chunking (induction over the list of chunks, proved) folds the per-call contract of receive - returns msgs(R ++ data), keeps residue(R ++ data) - "
                            "over any list of chunks and equates it with one delivery of the concatenation (same messages in the same order, same held-back bytes). "
                            "That the session *state* is the same as well rests on the per-message contracts of _process_incoming_message being deterministic in (state, message): stated, not machine-checked"]},
    "C05": {"jobs": RECEIVE + INCOMING + DECODE_TREE + READER_METHODS, "native": "native_receive.py",
            "assumptions": ["default PackingOptions: no user-registered custom credential / filter / control types (a registered type's unpack is user code)",
                            "RecursionError is the only resource exception (raised by the interpreter at its recursion limit inside the recursive filter decoder, caught by receive: proved as one of the "
                            "exceptional outcomes of the content decoder); MemoryError excluded; TypeError excluded under 'arguments conform to their annotations'",
                            "the functional postcondition of _unpack_ldap_message_content (result is a function of the octets) stays assumed; its exception classes are discharged from the body under "
                            "the contract key _messages:_unpack_ldap_message_content[containment]",
                            "well-formedness of the attached notification is proved as 'equals enc(UnbindRequest(0)) / enc(notice of disconnection, protocolError)'; that enc (LDAPMessage.pack, trusted at L3) "
                            "produces valid BER for these two messages is checked by the independent decoder in the bounded sweep"]},
    "C06": {"jobs": RECEIVE + FRAME_READERS + [LEMMAS_FRAMING[2], LEMMAS_FRAMING[0]], "native": "native_receive.py"},
    "C13": {"jobs": [], "frames": {"rules": ["F1-no-module-state", "F2-no-class-attribute-writes", "F3-no-mutable-defaults"], "modules": ["_filter"]}, "native": "native_filter_text.py", "level": "other",
            "explanation": "Contract from_string(str(f)) == f on the real functions, evaluated: the per-octet escape map over all 256 octets is exhaustive (complete for the per-octet map); "
                           "tree round trips are bounded-exhaustive (stated bound). No deductive obligation: the parser is str.split / re.sub code outside the prover's reach (DESIGN.md 5, C13)."},
    "C14": {"jobs": [], "frames": {"rules": ["F1-no-module-state", "F2-no-class-attribute-writes", "F3-no-mutable-defaults"], "modules": ["_filter"]}, "native": "native_filter_text.py", "level": "other",
            "explanation": "Contract from_string(s) == tree denoted by the RFC 4515 derivation of s, evaluated on bounded-exhaustive grammar derivations generated together with their trees; "
                           "attribute-description language inclusion RFC 4512 in L(_ATTRIBUTE_PATTERN) is exact (automata). The encoding half of the statement is C03's."},
    "C15": {"jobs": FILTER_TEXT, "frames": {"rules": ["F1-no-module-state", "F2-no-class-attribute-writes", "F3-no-mutable-defaults"], "modules": ["_filter"]}, "native": "native_filter_text.py", "level": "other",
            "assumptions": ["re.Pattern.match is total and returns a match or None (both outcomes followed, the pattern's language not modelled in the deductive stage); str.split / bytes.split return at least one piece",
                            "_unpack_filter_value (re.sub with a raising callback) is a trusted contract: raises only FilterSyntaxError carrying the offset / length it was given",
                            "RecursionError (interpreter stack) is not modelled; from_string catches it and reports FilterSyntaxError"],
            "explanation": "Proved for every text (contracts/filter_text.py): from_string and the scanners _unpack_filter / _unpack_complex_filter / _unpack_simple_filter / extensible header / substrings splitter return or raise FilterSyntaxError only "
                           "(every indexing, unpacking and None site is an obligation, with loop invariants over the scan position), consume at most the octets they were given, and every error span satisfies "
                           "offset <= exc.offset, 0 <= exc.length, exc.offset + exc.length <= offset + length in octets of the UTF-8 view. The remaining clauses (accepted results are RFC 4512-valid and re-parse to themselves) are decided as before: Exact: L(_ATTRIBUTE_PATTERN) versus the RFC 4512 attribute description language over the full Unicode alphabet (automata difference). "
                           "Bounded-exhaustive: every string up to the stated length over a class-representative alphabet and every single-character edit of grammar sentences: "
                           "only FilterSyntaxError, span inside the input, accepted results RFC-valid and re-parsing to themselves."},
    "C16": {"jobs": [], "frames": {"rules": ["F1-no-module-state", "F2-no-class-attribute-writes", "F3-no-mutable-defaults"], "modules": ["schema"]}, "native": "native_schema_text.py", "level": "other",
            "explanation": "Contract T.from_string(str(d)) == d on the real classes, evaluated over a stated bounded set of definitions (every field on/off, list lengths 0-3, description and "
                           "extension strings over the characters the encoder, the un-escaper and the grammar distinguish). No deductive obligation: regex + str.split code is outside the prover's reach."},
    "C17": {"jobs": [], "frames": {"rules": ["F1-no-module-state", "F2-no-class-attribute-writes", "F3-no-mutable-defaults"], "modules": ["schema"]}, "native": "native_schema_text.py", "level": "other",
            "explanation": "Exact: L(RFC 4512 ABNF) is contained in the prefix language of each compiled description regex (automata inclusion over the full alphabet), for the three grammars incl. the quoted SYNTAX variant. "
                           "Bounded: field extraction against grammar sentences generated with their denoted values and spacing choices; totality (only ValueError) over short strings and single-character edits."},
    "C19": {"jobs": [], "static": "frames", "native": "native_c19.py", "level": "other",
            "explanation": "Frame / ownership obligations (rules F1-F6 of pyvc/frames.py, one per function or class) discharged syntactically on the ASTs: no module-level or class-level mutable state is written, "
                           "no mutable defaults, session constructors create their state afresh, option objects carry no hidden state, register_* appends to the session's own list after a duplicate test. "
                           "Non-interference of interleavings then follows from the frame rule (paper argument); the per-method `modifies` frames of the session layer are proved under C08-C12. "
                           "Bounded: interleavings of scripted sessions and registration scenarios.",
            "assumptions": ["LDAPResultCode._missing_ inserts pseudo-members into the enum's value map: declared benign (same value, same name)",
                            "syntactic frame rules are sound for code without reflection (setattr/globals()/exec are checked for only on option objects)"]},
    "C18": {"jobs": FILTER_TEXT + DECODE_TREE, "static": "cost", "native": "native_c18.py", "level": "other",
            "explanation": "Proved (decreases obligations): every loop and every recursive call of the RFC 4515 text scanners and of the BER decode tree strictly decreases a non-negative measure bounded by the input length "
                           "(remaining octets of the span / of the reader), so each loop runs at most linearly often and recursion depth is at most the input length; the loops of asn1.py likewise (C07). "
                           "A syntactic rule per function of the recursive parser cycles (no-retry-after-failure) adds that a failing call is never caught and tried again, so a parse makes at most n returning calls plus one failing one. "
                           "This bounds the number of steps by a polynomial whose degree is the fixed nesting depth of the code, given that the primitive operations (slices, regex matches) are polynomial - which is what the rest decides: "
                           "Decision procedure per compiled pattern: no exponential ambiguity in the Glushkov automaton built from this interpreter's sre parse tree (exact, full Unicode alphabet); "
                           "refutations are replayed by timing the real pattern under a hard timeout. Hand-written scanners: bounded growth probe on adversarial families (labelled bounded); the decreases "
                           "clauses of the asn1 loops are discharged under C07.",
            "trusted_base": ["CPython sre is a backtracking matcher whose cost on a pattern without exponential ambiguity is polynomial in the subject length (Weber-Seidl / Weideman et al.)",
                             "sre opcodes modelled: LITERAL NOT_LITERAL ANY IN BRANCH SUBPATTERN MAX/MIN_REPEAT AT; anything else is reported undecided"]},
    "C08": {"jobs": SEND_CORE + SERVER_API + CLIENT_API + INCOMING + RECEIVE[:4], "native": "native_session.py"},
    "C09": {"jobs": [j(f"{S}:LDAPClient._send"), inh("_send", "LDAPClient")] + CLIENT_API + [INCOMING[0]], "native": "native_session.py"},
    "C10": {"jobs": SEND_CORE + SERVER_API + CLIENT_API + ENCODE_TREE, "native": "native_session.py", "assumptions": _ENC_ASSUME},
    "C11": {"jobs": RECEIVE[:4], "native": "native_joint.py", "level": "other", "joint": True,
            "explanation": "Contract-level joint invariant over (client, server, two FIFO queues) discharged per action with z3, the session part of every action being derived from the proved L3 method contracts "
                           "(obligation: contract => action). The two designed terminations are terminal steps: client unbind / server notice of disconnection are accepted from every alive state and close their side; the delivery of the termination message cannot return "
                           "normally (receive never returns a termination message: a proved postcondition), so it raises, and every raise of receive leaves the receiver CLOSED with nothing in progress. Between a termination being sent and being delivered the other side "
                           "continues from the same J-state (J over the frozen fields of the closed side; paper step). Byte-level delivery reduces to message-level delivery by C02 / C01 (used as lemmas; C01 is bounded, hence level 'other'). "
                           "Bounded: all joint histories up to a stated depth with partial deliveries, including terminations."},
    "C12": {"jobs": DRAIN + SEND_CORE + SERVER_API + CLIENT_API + ENCODE_TREE, "native": "native_session.py", "assumptions": _ENC_ASSUME},
}
