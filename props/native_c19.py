"""Bounded stand-in for C19 (session isolation, per-session registrations); runs under /venv/bin/python.

Two or three sessions run scripted call sequences (including calls that fail half-way: unencodable strings, rejected
sends, malformed input) alone and under many interleavings; every observable of each session - return values,
exception types and messages, state, drained bytes - must be the same as when it runs alone.  Registration of custom
control / filter / credential types is exercised on one session (before and after its first traffic) against a second
session without the registration.  Labelled bounded.
"""
import sys, os, json, time, random, dataclasses, itertools
sys.path.insert(0, os.path.dirname(os.path.dirname(os.path.abspath(__file__))))
sys.path.insert(0, os.environ.get("SANSLDAP_SRC", "/repo/src"))
import sansldap
from sansldap import LDAPClient, LDAPServer
from sansldap._session import SessionState, LDAPError, ProtocolError
from sansldap._messages import (SearchRequest, BindRequest, SearchResultDone, LDAPResult, LDAPResultCode, PackingOptions, SearchScope, DereferencingPolicy)
from sansldap._controls import LDAPControl, ControlOptions
from sansldap._filter import LDAPFilter, FilterOptions, FilterPresent, FilterAnd
from sansldap._authentication import AuthenticationCredential, AuthenticationOptions, SimpleCredential
from sansldap.asn1 import ASN1Reader, ASN1Writer, ASN1Tag, TagClass

violations = []
n_eval = 0


def rec(clause, inputs, detail=""):
    if len(violations) < 30:
        violations.append({"function": "isolation", "kind": "oracle", "property": "C19", "clause": clause, "inputs": inputs, "detail": detail})


@dataclasses.dataclass(frozen=True)
class CustomFilter(LDAPFilter):
    filter_id: int = dataclasses.field(init=False, repr=False, default=1024)
    value: str

    def pack(self, writer, options):
        writer.write_octet_string(self.value.encode(options.string_encoding), tag=ASN1Tag(TagClass.CONTEXT_SPECIFIC, self.filter_id, False))

    @classmethod
    def unpack(cls, reader, options):
        return CustomFilter(value=reader.read_octet_string(ASN1Tag(TagClass.CONTEXT_SPECIFIC, cls.filter_id, False)).decode("utf-8"))


@dataclasses.dataclass(frozen=True)
class CustomControl(LDAPControl):
    control_type: str = dataclasses.field(init=False, default="1.2.3.4.5.6")
    value: bytes = dataclasses.field(init=False, repr=False, default=None)
    text: str = ""

    def get_value(self, options):
        return self.text.encode("utf-8")

    @classmethod
    def unpack(cls, control_type, critical, value, options):
        return CustomControl(critical=critical, text=(value or b"").decode("utf-8"))


@dataclasses.dataclass(frozen=True)
class CustomCred(AuthenticationCredential):
    auth_id: int = dataclasses.field(init=False, repr=False, default=9)
    token: bytes = b""

    def pack(self, writer, options):
        writer.write_octet_string(self.token, tag=ASN1Tag(TagClass.CONTEXT_SPECIFIC, self.auth_id, False))

    @classmethod
    def unpack(cls, reader, options):
        return CustomCred(token=reader.read_octet_string(tag=ASN1Tag(TagClass.CONTEXT_SPECIFIC, cls.auth_id, False)))


def observe(fn):
    try:
        r = fn()
        return ("ok", repr(r)[:300])
    except BaseException as e:
        extra = ""
        if isinstance(e, ProtocolError):
            extra = (e.response or b"").hex()
        return ("exc", type(e).__name__, str(e)[:200], extra)


def req_bytes(kind, mid):
    c = LDAPClient()
    for _ in range(mid - 1):
        c.extended_request("1.1")
    c.data_to_send()
    if kind == "search":
        c.search_request("dc=x", filter=FilterAnd([FilterPresent("cn")]))
    elif kind == "bind":
        c2 = LDAPClient(); c2.bind_simple("cn=x", "p"); return c2.data_to_send()
    else:
        c.extended_request("1.2.3", b"v")
    return c.data_to_send()


def client_script(tag):
    """List of (label, function(session)) steps; tag makes the data of different sessions different."""
    return [
        ("search", lambda s: s.search_request("dc=" + tag)),
        ("bad dn", lambda s: s.bind_simple("cn=\udc80" + tag, "pw")),                  # pack fails half-way
        ("drain", lambda s: s.data_to_send().hex()),
        ("ext", lambda s: s.extended_request("1.2." + str(len(tag)), tag.encode())),
        ("bind while busy", lambda s: s.bind_simple("cn=" + tag, "pw")),
        ("drain 3", lambda s: s.data_to_send(3).hex()),
        ("garbage", lambda s: s.receive(b"\x30\x03\x02\x01")),
        ("state", lambda s: s.state.name),
        ("drain all", lambda s: s.data_to_send().hex()),
        ("after", lambda s: s.extended_request("1.2")),
        ("unbind", lambda s: s.unbind()),
        ("after close", lambda s: s.search_request("x")),
        ("final", lambda s: (s.state.name, s.data_to_send().hex())),
    ]


def server_script(tag):
    n = len(tag)
    return [
        ("recv search", lambda s: s.receive(req_bytes("search", 1))),
        ("entry", lambda s: s.search_result_entry(1, "cn=" + tag, [])),
        ("bad entry", lambda s: s.search_result_entry(1, "cn=\udc80" + tag, [])),
        ("unknown id", lambda s: s.search_result_done(7)),
        ("drain", lambda s: s.data_to_send().hex()),
        ("recv ext split", lambda s: s.receive(req_bytes("ext", 2)[:5])),
        ("recv ext rest", lambda s: s.receive(req_bytes("ext", 2)[5:])),
        ("done", lambda s: s.search_result_done(1, diagnostics_message=tag)),
        ("ext resp", lambda s: s.extended_response(2, name="1." + str(n), value=tag.encode())),
        ("drain 2", lambda s: s.data_to_send(2).hex()),
        ("bad bytes", lambda s: s.receive(b"\x30\x05\x02\x01\x01\x42\x05")),
        ("state", lambda s: s.state.name),
        ("final", lambda s: (s.state.name, s.data_to_send().hex())),
    ]


def run_alone(make, script):
    s = make()
    return [observe(lambda st=st: st[1](s)) for st in script]


def run_interleaved(actors, order):
    """actors: list of (make, script); order: sequence of actor indices (each index appears len(script) times)."""
    sess = [mk() for mk, _ in actors]
    pos = [0] * len(actors)
    traces = [[] for _ in actors]
    for i in order:
        st = actors[i][1][pos[i]]
        traces[i].append(observe(lambda: st[1](sess[i])))
        pos[i] += 1
    return traces


def interleaving_checks(tier, seed):
    global n_eval
    rnd = random.Random(seed)
    actor_sets = [
        [(LDAPClient, client_script("alpha")), (LDAPServer, server_script("b"))],
        [(LDAPClient, client_script("a")), (LDAPClient, client_script("beta"))],
        [(LDAPServer, server_script("x")), (LDAPServer, server_script("yy")), (LDAPClient, client_script("z"))],
    ]
    for actors in actor_sets:
        alone = [run_alone(mk, sc) for mk, sc in actors]
        lens = [len(sc) for _, sc in actors]
        orders = []
        base = [i for i, l in enumerate(lens) for _ in range(l)]
        orders.append(base)                                   # A then B
        orders.append(list(reversed(base)))
        rr = []
        for k in range(max(lens)):
            for i, l in enumerate(lens):
                if k < l:
                    rr.append(i)
        orders.append(rr)                                     # strict alternation
        for _ in range(60 if tier == "quick" else 600):
            o = list(base)
            rnd.shuffle(o)
            orders.append(o)
        for order in orders:
            n_eval += 1
            traces = run_interleaved(actors, order)
            for i, (tr, al) in enumerate(zip(traces, alone)):
                if tr != al:
                    k = next(j for j in range(len(al)) if tr[j] != al[j])
                    rec("a session observes the same results, errors, states and bytes interleaved as alone",
                        {"actors": [mk.__name__ for mk, _ in actors], "order": order, "session": i, "step": actors[i][1][k][0]},
                        f"alone {al[k]!r} interleaved {tr[k]!r}"[:400])
                    break


def registration_checks():
    global n_eval
    # --- filter
    for late in (False, True):
        n_eval += 1
        a, b = LDAPServer(), LDAPServer()
        c = LDAPClient()
        c.register_filter(CustomFilter)
        if late:      # A has already decoded ordinary traffic before the registration
            a.receive(req_bytes("search", 1)); b.receive(req_bytes("search", 1))
            c.search_request("x"); c.data_to_send()
        a.register_filter(CustomFilter)
        try:
            a.register_filter(CustomFilter)
            rec("a duplicate registration is rejected", {"kind": "filter", "late": late})
        except ValueError:
            pass
        c.search_request("dc=x", filter=FilterAnd([CustomFilter("v")]))
        data = c.data_to_send()
        try:
            msgs = a.receive(data)
            if not (msgs and isinstance(msgs[0], SearchRequest) and msgs[0].filter == FilterAnd([CustomFilter("v")])):
                rec("the registering session decodes the custom filter", {"kind": "filter", "late": late}, repr(msgs)[:200])
        except Exception as e:
            rec("the registering session decodes the custom filter", {"kind": "filter", "late": late}, f"{type(e).__name__}: {e}"[:200])
        try:
            b.receive(data)
            rec("a session without the registration treats the custom filter as unknown", {"kind": "filter", "late": late})
        except ProtocolError:
            pass
        if CustomFilter in b._packing_options.filter.choices or CustomFilter in LDAPServer()._packing_options.filter.choices or CustomFilter in FilterOptions().choices:
            rec("a registration is visible only in the session that made it", {"kind": "filter", "late": late})
    # --- control
    for late in (False, True):
        n_eval += 1
        a, b, c = LDAPServer(), LDAPServer(), LDAPClient()
        if late:
            a.receive(req_bytes("ext", 1)); b.receive(req_bytes("ext", 1)); c.extended_request("1.1"); c.data_to_send()
        a.register_control(CustomControl)
        c.register_control(CustomControl)
        try:
            c.register_control(CustomControl)
            rec("a duplicate registration is rejected", {"kind": "control", "late": late})
        except ValueError:
            pass
        c.extended_request("1.2", controls=[CustomControl(critical=True, text="hi")])
        data = c.data_to_send()
        try:
            ma = a.receive(data)
            mb = b.receive(data)
            ca, cb = ma[0].controls[0], mb[0].controls[0]
            if not (isinstance(ca, CustomControl) and ca.text == "hi" and ca.critical):
                rec("the registering session decodes the custom control", {"kind": "control", "late": late}, repr(ca))
            if type(cb) is not LDAPControl or cb.control_type != "1.2.3.4.5.6" or cb.value != b"hi":
                rec("a session without the registration treats the custom control as a generic control", {"kind": "control", "late": late}, repr(cb))
        except Exception as e:
            rec("custom control decode", {"kind": "control", "late": late}, f"{type(e).__name__}: {e}"[:200])
        if CustomControl in b._packing_options.control.choices or CustomControl in ControlOptions().choices:
            rec("a registration is visible only in the session that made it", {"kind": "control", "late": late})
    # --- credential
    for late in (False, True):
        n_eval += 1
        a, b, c = LDAPServer(), LDAPServer(), LDAPClient()
        if late:
            a.receive(req_bytes("ext", 1)); b.receive(req_bytes("ext", 1)); c.extended_request("1.1"); c.data_to_send()
            a.extended_response(1); b.extended_response(1); c.receive(a.data_to_send()); b.data_to_send()
        a.register_auth_credential(CustomCred)
        c.register_auth_credential(CustomCred)
        try:
            a.register_auth_credential(CustomCred)
            rec("a duplicate registration is rejected", {"kind": "credential", "late": late})
        except ValueError:
            pass
        c.bind("cn=x", CustomCred(token=b"tok"))
        data = c.data_to_send()
        try:
            ma = a.receive(data)
            if not (isinstance(ma[0], BindRequest) and ma[0].authentication == CustomCred(token=b"tok")):
                rec("the registering session decodes the custom credential", {"kind": "credential", "late": late}, repr(ma)[:200])
        except Exception as e:
            rec("the registering session decodes the custom credential", {"kind": "credential", "late": late}, f"{type(e).__name__}: {e}"[:200])
        try:
            b.receive(data)
            rec("a session without the registration treats the custom credential as unknown", {"kind": "credential", "late": late})
        except ProtocolError:
            pass
        if CustomCred in b._packing_options.authentication.choices or CustomCred in AuthenticationOptions().choices:
            rec("a registration is visible only in the session that made it", {"kind": "credential", "late": late})
    # --- fresh sessions share no mutable object
    n_eval += 1
    x, y = LDAPClient(), LDAPClient()
    shared = []
    for name in ("_outgoing_buffer", "_incoming_buffer", "_outstanding_requests", "_search_requests", "_packing_options"):
        if getattr(x, name) is getattr(y, name):
            shared.append(name)
    for sub in ("authentication", "control", "filter"):
        if getattr(x._packing_options, sub) is getattr(y._packing_options, sub) or getattr(x._packing_options, sub).choices is getattr(y._packing_options, sub).choices:
            shared.append("_packing_options." + sub)
    if shared:
        rec("two sessions share no mutable object", {"shared": shared})


def main():
    tier = os.environ.get("VERIF_TIER", "quick")
    seed = int(os.environ.get("VERIF_SEED", "0") or 0)
    t0 = time.time()
    interleaving_checks(tier, seed)
    registration_checks()
    out = {"evaluations": n_eval, "distinct_nontrivial": n_eval, "violations": violations, "wall_s": round(time.time() - t0, 2),
           "bound": f"3 groups of 2-3 sessions (client/server mixes) with 13-step scripts incl. half-failing calls, {63 if tier == 'quick' else 603} interleavings each (sequential both ways, strict alternation, seeded random); "
                    "custom filter / control / credential registered before and after first traffic, against an unregistered session; object identity of per-session state"}
    json.dump(out, sys.stdout, default=str)


if __name__ == "__main__":
    if len(sys.argv) > 2 and sys.argv[1] == "replay":
        main_out = None
        interleaving_checks("quick", 0)
        registration_checks()
        print(json.dumps({"violations": violations[:5]}, default=str)[:3000])
        sys.exit(1 if violations else 0)
    main()
