# Sidecar contracts for sansldap/asn1.py (byte level, layer L1) and for the lemmas of specs/ber.py.
# Executed by pyvc.run.load_contracts with `contract`, OBJECT_FIELDS and EXTRAS in scope.
# Postconditions are taken from X.690 through the spec functions in specs/ber.py; loop invariants refer to locals.

OBJECT_FIELDS["asn1.ASN1Reader"] = {"_data": "bytes", "_view": "memoryview"}
OBJECT_FIELDS["asn1.ASN1Writer"] = {"_data": "bytearray", "_tag": "t.Optional[ASN1Tag]", "_parent": "t.Optional[ASN1Writer]"}
EXTRAS.setdefault("immutable_fields", {})["asn1.ASN1Reader"] = ("_data",)
EXTRAS["immutable_fields"]["asn1.ASN1Writer"] = ("_tag", "_parent")

# ------------------------------------------------------------------------------------------------ lemmas
contract("specs.ber:lemma_pow256_pos", requires=[], ensures=["pow256(k) >= 1"], decreases="k + 1 if k >= 0 else 0")
contract("specs.ber:lemma_pow128_pos", requires=[], ensures=["pow128(k) >= 1"], decreases="k + 1 if k >= 0 else 0")
contract("specs.ber:lemma_be_prefix",
         requires=["0 <= lo", "hi <= len(s)"],
         ensures=["be(cat(s, r), lo, hi) == be(s, lo, hi)"],
         decreases="hi - lo if hi >= lo else 0")
contract("specs.ber:lemma_b128_prefix",
         requires=["0 <= lo", "hi <= len(s)"],
         ensures=["b128(cat(s, r), lo, hi) == b128(s, lo, hi)"],
         decreases="hi - lo if hi >= lo else 0")
contract("specs.ber:lemma_b128end_prefix",
         requires=["0 <= i", "b128end(s, i) < len(s)"],
         ensures=["b128end(cat(s, r), i) == b128end(s, i)"],
         decreases="len(s) - i if len(s) >= i else 0")
contract("specs.ber:lemma_be_bound",
         requires=["0 <= lo", "hi <= len(s)"],
         ensures=["0 <= be(s, lo, hi)", "be(s, lo, hi) < pow256(hi - lo)", "pow256(hi - lo) >= 1"],
         decreases="hi - lo if hi >= lo else 0")
contract("specs.ber:lemma_le_bound",
         requires=["k <= len(s)"],
         ensures=["0 <= le(s, k)", "le(s, k) < pow256(k)", "pow256(k) >= 1"],
         decreases="k if k >= 0 else 0")
contract("specs.ber:lemma_le_frame",
         requires=["k <= len(a)", "k <= len(b)", "forall(j, 0, k, a[j] == b[j])"],
         ensures=["le(a, k) == le(b, k)"],
         decreases="k if k >= 0 else 0")
contract("specs.ber:lemma_be_frame",
         requires=["0 <= lo", "hi <= len(a)", "hi <= len(b)", "forall(j, lo, hi, a[j] == b[j])"],
         ensures=["be(a, lo, hi) == be(b, lo, hi)"],
         decreases="hi - lo if hi >= lo else 0")
contract("specs.ber:lemma_b128_frame",
         requires=["0 <= lo", "hi <= len(a)", "hi <= len(b)", "forall(j, lo, hi, a[j] == b[j])"],
         ensures=["b128(a, lo, hi) == b128(b, lo, hi)"],
         decreases="hi - lo if hi >= lo else 0")
contract("specs.ber:lemma_be_le_reverse",
         requires=["len(r) == len(d)", "forall(q, 0, len(d), r[q] == d[len(d) - 1 - q])", "0 <= j", "j <= len(d)"],
         ensures=["be(r, 0, j) * pow256(len(d) - j) + le(d, len(d) - j) == le(d, len(d))"],
         decreases="j")

# ------------------------------------------------------------------------------------------------ base-128 numbers
contract("asn1:_unpack_asn1_octet_number",
         params={"data": "memoryview"},
         requires=[],
         ensures=["result[1] == b128end(data, 0) + 1",
                  "result[1] >= 1", "result[1] <= len(data)",
                  "result[0] == b128(data, 0, result[1])",
                  "result[0] >= 0"],
         raises={"NotEnougData": "b128end(data, 0) >= len(data)"},
         loops={0: dict(invariant=["0 <= idx", "idx <= len(data)", "i == b128(data, 0, idx)", "i >= 0",
                                   "b128end(data, 0) == b128end(data, idx)"],
                        decreases="len(data) - idx")})

contract("specs.ber:lemma_b128_le128_reverse",
         requires=["len(r) == len(d)", "forall(q, 0, len(d), r[q] == d[len(d) - 1 - q])", "0 <= j", "j <= len(d)"],
         ensures=["b128(r, 0, j) * pow128(len(d) - j) + le128(d, len(d) - j) == le128(d, len(d))"],
         decreases="j")
contract("specs.ber:lemma_b128end_find",
         requires=["0 <= i", "i <= j", "j < len(s)", "forall(q, i, j, s[q] >= 128)", "s[j] < 128"],
         ensures=["b128end(s, i) == j"],
         decreases="j - i")
contract("specs.ber:lemma_pow2_8", requires=["k >= 0"], ensures=["pow2(8 * k) == pow256(k)"], decreases="k", fuel=9)
contract("specs.ber:lemma_be_complement",
         requires=["len(m) == len(c)", "0 <= j", "j <= len(c)", "forall(q, 0, j, m[q] == 255 - c[q])"],
         ensures=["be(m, 0, j) + be(c, 0, j) == pow256(j) - 1"],
         decreases="j")
contract("specs.ber:lemma_be_increment",
         requires=["len(a) == len(b)", "0 <= i", "i < n", "n <= len(a)", "forall(q, 0, i, b[q] == a[q])", "b[i] == a[i] + 1",
                   "forall(q, i + 1, n, a[q] == 255 and b[q] == 0)"],
         ensures=["be(b, 0, n) == be(a, 0, n) + 1"],
         decreases="n - i")

contract("asn1:_pack_asn1_octet_number",
         requires=["num >= 1"],
         result="bytearray",
         ensures=["len(result) >= 1",
                  "forall(q, 0, len(result) - 1, result[q] >= 128)",
                  "result[len(result) - 1] < 128",
                  "b128(result, 0, len(result)) == num",
                  "result[0] != 128"],
         loops={0: dict(invariant=["num >= 0",
                                   "old(num) == num * pow128(len(num_octets)) + le128(num_octets, len(num_octets))",
                                   "pow128(len(num_octets)) >= 1",
                                   "implies(len(num_octets) >= 1, num_octets[0] < 128)",
                                   "forall(q, 1, len(num_octets), num_octets[q] >= 128)",
                                   "implies(len(num_octets) >= 1, num * 128 + num_octets[len(num_octets) - 1] % 128 >= 1)",
                                   "implies(len(num_octets) == 0, num >= 1)"],
                        body_hints=["le128(num_octets, len(num_octets))", "pow128(len(num_octets))",
                                    "lemma_le128_frame(old_octets, num_octets, len(num_octets) - 1)"],
                        snapshot_each={"old_octets": "num_octets"},
                        exit_snapshot={"rev_src": "num_octets"},
                        decreases="num")},
         exit_hints=["lemma_b128_le128_reverse(rev_src, num_octets, len(num_octets))", "pow128(0)", "le128(rev_src, 0)"])

contract("specs.ber:lemma_le128_frame",
         requires=["k <= len(a)", "k <= len(b)", "forall(j, 0, k, a[j] == b[j])"],
         ensures=["le128(a, k) == le128(b, k)"],
         decreases="k if k >= 0 else 0")

# ------------------------------------------------------------------------------------------------ header reader
contract("asn1:_read_asn1_header",
         requires=[],
         ensures=["hdr_complete(data)", "not indefinite(data)",
                  "result.tag.tag_class == id_class(data)",
                  "result.tag.is_constructed == id_constructed(data)",
                  "result.tag.tag_number == id_number(data)",
                  "result.tag_length == hdr_len(data)",
                  "result.length == val_len(data)",
                  "result.length >= 0", "result.tag_length >= 2", "result.tag_length <= len(data)",
                  "result.tag.tag_number >= 0",
                  "implies(id_class(data) == 0, universal_number_known(id_number(data)))"],
         raises={"NotEnougData": "not hdr_complete(data)",
                 "ValueError": "id_complete(data) and ((id_class(data) == 0 and not universal_number_known(id_number(data))) or (len(data) > id_len(data) and indefinite(data)))"},
         loops={0: dict(invariant=["length_octets == 1 + (len_first(data) - 128)", "length_octets >= 2",
                                   "len(view) == len(data) - id_len(data)",
                                   "view == drop(data, id_len(data))",
                                   "length >= 0",
                                   "length == be(drop(view, 1), 0, _i0) * pow256(length_octets - 1 - _i0)",
                                   "pow256(length_octets - 1 - _i0) >= 1",
                                   "_i0 + 1 <= len(view)"],
                        body_hints=["drop(view, 1)[idx - 1] == octet_val",
                                    "lemma_pow2_8(length_octets - 1 - idx)", "pow256(length_octets - idx)",
                                    "be(drop(view, 1), 0, idx)", "lemma_pow256_pos(length_octets - 1 - idx)"],
                        entry_hints=["lemma_pow256_pos(length_octets - 1)"],
                        exit_hints=["pow256(0)", "drop(view, 1) == drop(data, id_len(data) + 1)"])},
         exit_hints=[])

# ------------------------------------------------------------------------------------------------ tag validation and primitive readers
# `header`, when supplied, is the result of peek_header on the same data (documented use); H_* below name the header
# fields actually used: the supplied header's, else the parsed one.
_HDR_OK = "implies(header is not None, header.tag_length >= 0 and header.length >= 0 and header.tag_length <= len(data))"

contract("asn1:_validate_tag",
         params={"data": "memoryview", "hint": "str"},
         requires=[_HDR_OK],
         ensures=["implies(header is None, tlv_complete(data) and result[1] == hdr_len(data) + val_len(data) and result[0] == content_of(data))",
                  "implies(header is None, expected_tag.tag_class == id_class(data) and expected_tag.tag_number == id_number(data) and expected_tag.is_constructed == id_constructed(data))",
                  "implies(header is not None, result[1] == header.tag_length + header.length and result[0] == take(drop(data, header.tag_length), header.length) and header.tag == expected_tag)",
                  "implies(header is not None, len(data) >= header.tag_length + header.length)",
                  "len(result[0]) == result[1] - (hdr_len(data) if header is None else header.tag_length)",
                  "result[1] <= len(data)", "result[1] >= 0", "implies(header is None, result[1] >= 2)"],
         raises={"NotEnougData": "(header is None and not tlv_complete(data)) or (header is not None and len(data) < header.tag_length + header.length)",
                 "ValueError": "(header is None and id_complete(data)) or (header is not None and header.tag != expected_tag)"})

_READ_COMMON = dict(
    params={"data": "memoryview", "hint": "str"},
    requires=[_HDR_OK],
    raises={"NotEnougData": "(header is None and not tlv_complete(data)) or (header is not None and len(data) < header.tag_length + header.length)",
            "ValueError": True})
# T_* : the tag that must match; C: the content octets; N: octets consumed
_CONTENT = "(content_of(data) if header is None else take(drop(data, header.tag_length), header.length))"
_CONSUMED = "(hdr_len(data) + val_len(data) if header is None else header.tag_length + header.length)"


def _tagmatch(default_num, default_cons):
    # effective expected tag: explicit tag, else the supplied header's own tag (any tag accepted), else the universal default
    return ("implies(header is None, tlv_complete(data) and (id_class(data) == (tag.tag_class if tag is not None else 0)) and "
            "(id_number(data) == (tag.tag_number if tag is not None else %d)) and "
            "(id_constructed(data) == (tag.is_constructed if tag is not None else %s)))" % (default_num, default_cons))


contract("asn1:_read_asn1_octet_string", **_READ_COMMON,
         ensures=["result[0] == " + _CONTENT, "result[1] == " + _CONSUMED, "result[1] <= len(data)", "result[1] >= 0", "implies(header is None, result[1] >= 2)",
                  _tagmatch(4, "False"),
                  "implies(header is not None and tag is not None, header.tag == tag)"])
contract("asn1:_read_asn1_sequence", **_READ_COMMON,
         ensures=["result[0] == " + _CONTENT, "result[1] == " + _CONSUMED, "result[1] <= len(data)", "result[1] >= 0", "implies(header is None, result[1] >= 2)",
                  _tagmatch(16, "True"),
                  "implies(header is not None and tag is not None, header.tag == tag)"])
contract("asn1:_read_asn1_set", **_READ_COMMON,
         ensures=["result[0] == " + _CONTENT, "result[1] == " + _CONSUMED, "result[1] <= len(data)", "result[1] >= 0", "implies(header is None, result[1] >= 2)",
                  _tagmatch(17, "True"),
                  "implies(header is not None and tag is not None, header.tag == tag)"])
contract("asn1:_read_asn1_boolean", **_READ_COMMON,
         # X.690 8.2: one content octet, FALSE = 0, TRUE = any other value (contents of another length are malformed: no claim)
         ensures=["implies(len(%s) == 1, result[0] == (%s[0] != 0))" % (_CONTENT, _CONTENT), "result[0] == bool_den(%s)" % _CONTENT,
                  "result[1] == " + _CONSUMED, "result[1] <= len(data)", "result[1] >= 0", "implies(header is None, result[1] >= 2)",
                  _tagmatch(1, "False"),
                  "implies(header is not None and tag is not None, header.tag == tag)"])

# ------------------------------------------------------------------------------------------------ TLV writer
contract("asn1:_pack_asn1",
         params={"tag_class": "int", "tag_number": "int", "data": "bytes"},
         requires=["tag_number >= 0", "len(data) < 9223372036854775808"],
         ensures=["tlv_of(result, tag_class, constructed, tag_number, data)"],
         raises={"ValueError": "tag_class < 0 or tag_class > 3"},
         bind_calls={"_pack_asn1_octet_number": "tagoct"},
         loops={0: dict(ghost_init={"P": "1"}, ghost_update={"P": "256 * P"},
                        invariant=["length >= 0", "P >= 1",
                                   "P == pow256(len(length_octets))",
                                   "len(data) == length * P + le(length_octets, len(length_octets))",
                                   "len(length_octets) <= 8",
                                   "length < pow256(8 - len(length_octets))",
                                   "implies(len(length_octets) >= 1, length * 256 + length_octets[len(length_octets) - 1] >= 1)",
                                   "implies(len(length_octets) == 0, length == len(data))"],
                        entry_hints=["pow256(8)", "pow256(7)", "pow256(4)", "pow256(0)"],
                        snapshot_each={"prev_octets": "length_octets", "prev_length": "length", "P0": "P"},
                        body_hints=["len(length_octets) == len(prev_octets) + 1",
                                    "length_octets[len(prev_octets)] == prev_length % 256",
                                    "length == prev_length // 256",
                                    "pow256(len(prev_octets) + 1) == 256 * pow256(len(prev_octets))",
                                    "pow256(8 - len(prev_octets))",
                                    "lemma_le_frame(prev_octets, length_octets, len(prev_octets))",
                                    "le(length_octets, len(prev_octets) + 1) == le(prev_octets, len(prev_octets)) + (prev_length % 256) * P0",
                                    "lemma_div_step(prev_length, 256, P0, le(prev_octets, len(prev_octets)))"],
                        exit_snapshot={"digits": "length_octets"},
                        decreases="length")},
         exit_hints=[
                     # the result, part by part
                     "unless tagoct, digits: result == cat(seq1(identifier_octets), seq1(len(data)), data)",
                     "unless tagoct; using digits: result == cat(seq1(identifier_octets), seq1(128 + len(length_octets)), length_octets, data)",
                     "using tagoct; unless digits: result == cat(seq1(identifier_octets), tagoct, seq1(len(data)), data)",
                     "using tagoct, digits: result == cat(seq1(identifier_octets), tagoct, seq1(128 + len(length_octets)), length_octets, data)",
                     # identifier octets: low / high tag number form, followed by short / long length form
                     "unless tagoct, digits: lemma_id_low(identifier_octets, cat(seq1(len(data)), data))",
                     "unless tagoct; using digits: lemma_id_low(identifier_octets, cat(seq1(128 + len(length_octets)), length_octets, data))",
                     "using tagoct; unless digits: lemma_id_high(identifier_octets, tagoct, cat(seq1(len(data)), data))",
                     "using tagoct, digits: lemma_id_high(identifier_octets, tagoct, cat(seq1(128 + len(length_octets)), length_octets, data))",
                     "using digits: lemma_be_le_reverse(digits, length_octets, len(digits))",
                     "using digits: pow256(0)", "using digits: le(digits, 0)",
                     "unless tagoct, digits: lemma_len_short(seq1(identifier_octets), len(data), data)",
                     "using tagoct; unless digits: lemma_len_short(cat(seq1(identifier_octets), tagoct), len(data), data)",
                     "unless tagoct; using digits: lemma_len_long(seq1(identifier_octets), length_octets, data)",
                     "using tagoct, digits: lemma_len_long(cat(seq1(identifier_octets), tagoct), length_octets, data)",
                     "using tagoct: drop(result, 1) == cat(tagoct, drop(result, 1 + len(tagoct)))",
                     "using tagoct: lemma_b128end_find(tagoct, 0, len(tagoct) - 1)",
                     "using tagoct: lemma_b128end_prefix(tagoct, drop(result, 1 + len(tagoct)), 0)",
                     "using tagoct: lemma_b128_prefix(tagoct, drop(result, 1 + len(tagoct)), 0, len(tagoct))",
                     "using digits: lemma_be_le_reverse(digits, length_octets, len(digits))",
                     "using digits: pow256(0)", "using digits: le(digits, 0)",
                     "using digits: drop(result, len(b_asn1_data) - len(length_octets)) == cat(length_octets, data)",
                     "using digits: lemma_be_prefix(length_octets, data, 0, len(length_octets))",
                     "drop(result, len(b_asn1_data)) == data"])

# ------------------------------------------------------------------------------------------------ INTEGER / ENUMERATED reader
contract("asn1:_read_asn1_integer",
         params={"data": "memoryview", "hint": "str"},
         requires=[_HDR_OK],
         ensures=["len(%s) >= 1" % _CONTENT,
                  "result[0] == tc(%s)" % _CONTENT,
                  "result[1] == " + _CONSUMED, "result[1] <= len(data)", "result[1] >= 0", "implies(header is None, result[1] >= 2)",
                  _tagmatch(2, "False"),
                  "implies(header is not None and tag is not None, header.tag == tag)"],
         raises={"NotEnougData": "(header is None and not tlv_complete(data)) or (header is not None and len(data) < header.tag_length + header.length)",
                 "ValueError": True},
         bind_calls={"_validate_tag": "vt"},
         loops={0: dict(invariant=["len(b_int) == len(vt[0])",
                                   "forall(q, 0, _i0, b_int[q] == 255 - vt[0][q])",
                                   "forall(q, _i0, len(b_int), b_int[q] == vt[0][q])"],
                        exit_snapshot={"comp": "b_int"}),
                1: dict(invariant=["len(b_int) == len(comp)",
                                   "forall(q, 0, len(b_int) - _i1, b_int[q] == comp[q])",
                                   "forall(q, len(b_int) - _i1, len(b_int), comp[q] == 255 and b_int[q] == 0)"],
                        break_hints=["lemma_be_increment(comp, b_int, i, len(b_int))",
                                     "lemma_be_complement(vt[0], comp, len(comp))"],
                        exit_hints=["comp[0] == 255 - vt[0][0]"]),
                2: dict(invariant=["int_value == be(b_int, 0, _i2)", "int_value >= 0"],
                        body_hints=["be(b_int, 0, _i2)"])})

# ------------------------------------------------------------------------------------------------ ASN1Reader methods
# view' == old(view)[consumed:] on return, view' == old(view) on every exception ("a reader never consumes bytes beyond the
# value it returns"; "reader advances only after a complete TLV was validated").
_V = "old(self._view)"
_RHDR_OK = "implies(header is not None, header.tag_length >= 0 and header.length >= 0 and header.tag_length <= len(self._view))"
_RCONTENT = "(content_of(%s) if header is None else take(drop(%s, header.tag_length), header.length))" % (_V, _V)
_RCONSUMED = "(hdr_len(%s) + val_len(%s) if header is None else header.tag_length + header.length)" % (_V, _V)
_RRAISES = {"NotEnougData": "(header is None and not tlv_complete(self._view)) or (header is not None and len(self._view) < header.tag_length + header.length)",
            "ValueError": True}


def _rtagmatch(default_num, default_cons):
    return ("implies(header is None, tlv_complete(%s) and (id_class(%s) == (tag.tag_class if tag is not None else 0)) and "
            "(id_number(%s) == (tag.tag_number if tag is not None else %d)) and "
            "(id_constructed(%s) == (tag.is_constructed if tag is not None else %s)))" % (_V, _V, _V, default_num, _V, default_cons))


_RCOMMON = dict(params={"hint": "str"}, requires=[_RHDR_OK], raises=_RRAISES, on_raise=["self._view == old(self._view)"], modifies=["self._view"])
_ADV = ["self._view == drop(%s, %s)" % (_V, _RCONSUMED), "%s <= len(%s)" % (_RCONSUMED, _V),
        "implies(header is not None and tag is not None, header.tag == tag)",
        # progress (termination of the `while reader:` loops of the decode tree): a TLV is at least two octets
        "implies(header is None, len(self._view) + 2 <= len(%s))" % _V]

contract("asn1:ASN1Reader.peek_header",
         requires=[],
         ensures=["hdr_complete(self._view)", "not indefinite(self._view)",
                  "result.tag.tag_class == id_class(self._view)", "result.tag.is_constructed == id_constructed(self._view)",
                  "result.tag.tag_number == id_number(self._view)", "result.tag_length == hdr_len(self._view)",
                  "result.length == val_len(self._view)", "result.length >= 0", "result.tag_length >= 2",
                  "result.tag_length <= len(self._view)", "result.tag.tag_number >= 0",
                  "result.tag.tag_class >= 0", "result.tag.tag_class <= 3"],
         raises={"NotEnougData": "not hdr_complete(self._view)", "ValueError": "id_complete(self._view)"},
         modifies=[])
contract("asn1:ASN1Reader.skip_value",
         requires=["header.tag_length >= 0", "header.length >= 0"],
         ensures=["self._view == drop(old(self._view), header.tag_length + header.length)"], raises={}, modifies=["self._view"])
contract("asn1:ASN1Reader.get_remaining_data",
         requires=[], ensures=["result == old(self._view)", "len(self._view) == 0"], raises={}, modifies=["self._view"])
contract("asn1:ASN1Reader.read_octet_string", **_RCOMMON,
         ensures=["result == " + _RCONTENT] + _ADV + [_rtagmatch(4, "False")])
contract("asn1:ASN1Reader.read_boolean", **_RCOMMON,
         ensures=["implies(len(%s) == 1, result == (%s[0] != 0))" % (_RCONTENT, _RCONTENT), "result == bool_den(%s)" % _RCONTENT] + _ADV + [_rtagmatch(1, "False")])
contract("asn1:ASN1Reader.read_integer", **_RCOMMON,
         ensures=["len(%s) >= 1" % _RCONTENT, "result == tc(%s)" % _RCONTENT] + _ADV + [_rtagmatch(2, "False")])
contract("asn1:ASN1Reader.read_sequence", **_RCOMMON,
         ensures=["result._view == " + _RCONTENT] + _ADV + [_rtagmatch(16, "True")])
contract("asn1:ASN1Reader.read_set", **_RCOMMON,
         ensures=["result._view == " + _RCONTENT] + _ADV + [_rtagmatch(17, "True")])
# read_enumerated converts to the caller's enum type: ValueError for a value that is not a member (enums without _missing_).
# enum_type ranges over the three enum types the library passes (closed world).
contract("asn1:ASN1Reader.read_enumerated", params={"hint": "str", "enum_type": "oneof:_messages.SearchScope,_messages.DereferencingPolicy,_messages.LDAPResultCode"},
         requires=[_RHDR_OK], raises=_RRAISES, modifies=["self._view"], result="int",
         on_raise={"NotEnougData": ["self._view == old(self._view)"]},
         ensures=["len(%s) >= 1" % _RCONTENT, "result == tc(%s)" % _RCONTENT] + _ADV + [_rtagmatch(10, "False")])
contract("asn1:_read_asn1_enumerated",
         params={"data": "memoryview", "hint": "str"},
         requires=[_HDR_OK],
         ensures=["len(%s) >= 1" % _CONTENT, "result[0] == tc(%s)" % _CONTENT,
                  "result[1] == " + _CONSUMED, "result[1] <= len(data)", "result[1] >= 0", "implies(header is None, result[1] >= 2)",
                  _tagmatch(10, "False"),
                  "implies(header is not None and tag is not None, header.tag == tag)"],
         raises={"NotEnougData": "(header is None and not tlv_complete(data)) or (header is not None and len(data) < header.tag_length + header.length)",
                 "ValueError": True})

contract("specs.ber:lemma_div_step", requires=["b >= 1"],
         ensures=["(v // b) * (b * p) + l + (v % b) * p == v * p + l"])

_IDS = "cat(seq1(f), rest)"
contract("specs.ber:lemma_id_low",
         requires=["0 <= f", "f <= 255", "f % 32 < 31"],
         ensures=["id_complete(%s)" % _IDS, "id_len(%s) == 1" % _IDS, "id_number(%s) == f %% 32" % _IDS, "id_class(%s) == f // 64" % _IDS,
                  "id_constructed(%s) == ((f // 32) %% 2 == 1)" % _IDS, "id_minimal(%s)" % _IDS])
_IDH = "cat(seq1(f), t, rest)"
contract("specs.ber:lemma_id_high",
         requires=["0 <= f", "f <= 255", "f % 32 == 31", "len(t) >= 1", "forall(q, 0, len(t) - 1, t[q] >= 128)", "t[len(t) - 1] < 128",
                   "t[0] != 128", "b128(t, 0, len(t)) >= 31"],
         ensures=["drop(%s, 1) == cat(t, rest)" % _IDH,
                  "id_complete(%s)" % _IDH, "id_len(%s) == 1 + len(t)" % _IDH, "id_number(%s) == b128(t, 0, len(t))" % _IDH,
                  "id_class(%s) == f // 64" % _IDH, "id_constructed(%s) == ((f // 32) %% 2 == 1)" % _IDH, "id_minimal(%s)" % _IDH])
_LS = "cat(i, seq1(n), content)"
contract("specs.ber:lemma_len_short",
         requires=["id_complete(%s)" % _LS, "id_len(%s) == len(i)" % _LS, "0 <= n", "n < 128", "n == len(content)"],
         ensures=["hdr_complete(%s)" % _LS, "not indefinite(%s)" % _LS, "val_len(%s) == n" % _LS, "hdr_len(%s) == len(i) + 1" % _LS,
                  "tlv_complete(%s)" % _LS, "len(%s) == hdr_len(%s) + len(content)" % (_LS, _LS), "drop(%s, hdr_len(%s)) == content" % (_LS, _LS),
                  "len_minimal(%s)" % _LS])
_LL = "cat(i, seq1(128 + len(r)), r, content)"
contract("specs.ber:lemma_len_long",
         requires=["id_complete(%s)" % _LL, "id_len(%s) == len(i)" % _LL, "1 <= len(r)", "len(r) <= 126", "be(r, 0, len(r)) == len(content)",
                   "len(content) >= 128", "r[0] != 0"],
         ensures=["drop(%s, len(i) + 1) == cat(r, content)" % _LL,
                  "hdr_complete(%s)" % _LL, "not indefinite(%s)" % _LL, "val_len(%s) == len(content)" % _LL, "hdr_len(%s) == len(i) + 1 + len(r)" % _LL,
                  "tlv_complete(%s)" % _LL, "len(%s) == hdr_len(%s) + len(content)" % (_LL, _LL), "drop(%s, hdr_len(%s)) == content" % (_LL, _LL),
                  "len_minimal(%s)" % _LL])

# ------------------------------------------------------------------------------------------------ INTEGER writer
contract("specs.ber:lemma_le_wrap",
         requires=["0 <= i", "i <= len(a)", "i <= len(b)", "forall(q, 0, i, a[q] == 255 and b[q] == 0)"],
         ensures=["le(a, i) == pow256(i) - 1", "le(b, i) == 0", "pow256(i) >= 1"], decreases="i")
contract("specs.ber:lemma_le_increment",
         requires=["len(a) == len(b)", "0 <= i", "i < n", "n <= len(a)", "forall(q, 0, i, a[q] == 255 and b[q] == 0)", "b[i] == a[i] + 1",
                   "forall(q, i + 1, n, b[q] == a[q])"],
         ensures=["le(b, n) == le(a, n) + 1"], decreases="n - i")
contract("specs.ber:lemma_le_all255",
         requires=["0 <= n", "n <= len(a)", "forall(q, 0, n, a[q] == 255)"],
         ensures=["le(a, n) == pow256(n) - 1", "pow256(n) >= 1"], decreases="n")

_K = "1099511627776"      # 2^40 content octets: the size bound under which len(content) < 2^63 is provable
_T = lambda f, d: "(tag.%s if tag is not None else %s)" % (f, d)
contract("asn1:_pack_asn1_integer",
         requires=["implies(tag is not None, tag.tag_number >= 0)", "value < pow256(%s)" % _K, "-value < pow256(%s)" % _K],
         witness={"c": "b_int"}, witness_sorts={"c": "bytes"},
         ensures=["len(c) >= 1", "tc(c) == value", "minimal_tc(c)",
                  "tlv_of(result, %s, %s, %s, c)" % (_T("tag_class", "0"), _T("is_constructed", "False"), _T("tag_number", "2"))],
         raises={"ValueError": "tag is not None and (tag.tag_class < 0 or tag.tag_class > 3)"},
         loops={
             0: dict(ghost_init={"P": "1"}, ghost_update={"P": "256 * P"},
                     invariant=["value >= 0", "P >= 1", "P == pow256(len(b_int))",
                                "implies(not is_negative, old(value) == value * P + le(b_int, len(b_int)))",
                                "implies(is_negative, -old(value) == value * P + P - 1 - le(b_int, len(b_int)))",
                                "implies(len(b_int) >= 1 and not is_negative, 256 * value + b_int[len(b_int) - 1] > 127)",
                                "implies(len(b_int) >= 1 and is_negative, 256 * value + (255 - b_int[len(b_int) - 1]) > 128)",
                                "implies(len(b_int) == 0, value == (-old(value) if is_negative else old(value)))",
                                "implies(is_negative, old(value) < 0)", "implies(not is_negative, old(value) >= 0)",
                                "value < pow256(%s - len(b_int))" % _K, "len(b_int) <= %s" % _K,
                                "le(b_int, len(b_int)) >= 0", "le(b_int, len(b_int)) < P"],
                     entry_hints=["pow256(0)", "le(b_int, 0)"],
                     snapshot_each={"prev": "b_int", "pv": "value", "P0": "P"},
                     body_hints=["len(b_int) == len(prev) + 1", "value == pv // 256",
                                 "b_int[len(prev)] == (255 - pv % 256 if is_negative else pv % 256)",
                                 "pow256(len(prev) + 1) == 256 * pow256(len(prev))",
                                 "pow256(%s - len(prev))" % _K,
                                 "lemma_le_frame(prev, b_int, len(prev))",
                                 "le(b_int, len(prev) + 1) == le(prev, len(prev)) + b_int[len(prev)] * P0",
                                 "lemma_div_step(pv, 256, P0, le(prev, len(prev)))"],
                     exit_snapshot={"lowdigits": "b_int", "topv": "value", "Pn": "P"},
                     decreases="value"),
             1: dict(snapshot={"entry": "b_int"},
                     invariant=["len(b_int) == len(entry)",
                                "forall(q, 0, _i1, entry[q] == 255 and b_int[q] == 0)",
                                "forall(q, _i1, len(b_int), b_int[q] == entry[q])"],
                     entry_hints=["len(b_int) == len(lowdigits) + 1", "b_int[len(lowdigits)] == 255 - topv",
                                  "lemma_le_frame(lowdigits, b_int, len(lowdigits))",
                                  "pow256(len(lowdigits) + 1) == 256 * pow256(len(lowdigits))",
                                  "le(b_int, len(lowdigits) + 1) == le(lowdigits, len(lowdigits)) + (255 - topv) * Pn",
                                  "le(b_int, len(b_int)) == pow256(len(b_int)) - 1 + old(value)"],
                     break_hints=["lemma_le_increment(entry, b_int, idx, len(b_int))",
                                  "le(b_int, len(b_int)) == pow256(len(b_int)) + old(value)"],
                     exit_snapshot={"incd": "b_int"},
                     exit_hints=["lemma_le_all255(entry, len(entry))"]),
         },
         bind_calls={"_pack_asn1": "packed"},
         exit_hints=[
             "unless incd: lemma_le_prefix(lowdigits, seq1(topv % 256), len(lowdigits))",
             "unless incd: le(cat(lowdigits, seq1(topv % 256)), len(lowdigits) + 1) == le(cat(lowdigits, seq1(topv % 256)), len(lowdigits)) + (topv % 256) * pow256(len(lowdigits))",
             "unless incd: le(b_int__before_reverse, len(b_int)) == value",
             "using incd: lemma_le_prefix(incd, seq1(255), len(incd))",
             "using incd: le(cat(incd, seq1(255)), len(incd) + 1) == le(cat(incd, seq1(255)), len(incd)) + 255 * pow256(len(incd))",
             "using incd: pow256(len(incd) + 1) == 256 * pow256(len(incd))",
             "using incd: implies(len(b_int__before_reverse) == len(incd) + 1, b_int__before_reverse[len(incd)] == 255)",
             "using incd: implies(len(b_int__before_reverse) == len(incd) + 1, le(b_int__before_reverse, len(incd) + 1) == le(b_int__before_reverse, len(incd)) + 255 * pow256(len(incd)))",
             "using incd: le(b_int__before_reverse, len(b_int)) == pow256(len(b_int)) + value",
             "using incd: b_int__before_reverse[len(b_int) - 1] >= 128",
             "lemma_be_le_reverse(b_int__before_reverse, b_int, len(b_int))", "pow256(0)", "le(b_int__before_reverse, 0)",
             "b_int[0] == b_int__before_reverse[len(b_int) - 1]",
             "implies(len(b_int) >= 2, b_int[1] == b_int__before_reverse[len(b_int) - 2])",
         ])

contract("specs.ber:lemma_le_prefix", requires=["k <= len(s)"], ensures=["le(cat(s, r), k) == le(s, k)"], decreases="k if k >= 0 else 0")

# ------------------------------------------------------------------------------------------------ remaining writers
_TAGREQ = ["implies(tag is not None, tag.tag_number >= 0)"]
_TAGERR = {"ValueError": "tag is not None and (tag.tag_class < 0 or tag.tag_class > 3)"}
contract("asn1:_pack_asn1_boolean",
         requires=_TAGREQ,
         ensures=["tlv_of(result, %s, %s, %s, seq1(255 if value else 0))" % (_T("tag_class", "0"), _T("is_constructed", "False"), _T("tag_number", "1"))],
         raises=_TAGERR)
contract("asn1:_pack_asn1_octet_string",
         params={"b_data": "bytes"},
         requires=_TAGREQ + ["len(b_data) < 9223372036854775808"],
         ensures=["tlv_of(result, %s, %s, %s, b_data)" % (_T("tag_class", "0"), _T("is_constructed", "False"), _T("tag_number", "4"))],
         raises=_TAGERR)
contract("asn1:_pack_asn1_enumerated",
         requires=_TAGREQ + ["value < pow256(%s)" % _K, "-value < pow256(%s)" % _K],
         witness={"c": "c"}, witness_sorts={"c": "bytes"}, bind_witness={"_pack_asn1_integer.c": "c"},
         ensures=["len(c) >= 1", "tc(c) == value", "minimal_tc(c)",
                  "tlv_of(result, %s, %s, %s, c)" % (_T("tag_class", "0"), _T("is_constructed", "False"), _T("tag_number", "10"))],
         raises=_TAGERR)

# ------------------------------------------------------------------------------------------------ ASN1Writer methods
_WMOD = ["self._data"]
contract("asn1:ASN1Writer.write_boolean",
         requires=_TAGREQ, modifies=_WMOD, raises=_TAGERR, on_raise=["self._data == old(self._data)"],
         witness={"w": "w"}, witness_sorts={"w": "bytes"}, bind_calls={"_pack_asn1_boolean": "w"},
         ensures=["self._data == old(self._data) + w",
                  "tlv_of(w, %s, %s, %s, seq1(255 if value else 0))" % (_T("tag_class", "0"), _T("is_constructed", "False"), _T("tag_number", "1"))])
contract("asn1:ASN1Writer.write_octet_string",
         params={"value": "bytes"},
         requires=_TAGREQ + ["len(value) < 9223372036854775808"], modifies=_WMOD, raises=_TAGERR, on_raise=["self._data == old(self._data)"],
         witness={"w": "w"}, witness_sorts={"w": "bytes"}, bind_calls={"_pack_asn1_octet_string": "w"},
         ensures=["self._data == old(self._data) + w",
                  "tlv_of(w, %s, %s, %s, value)" % (_T("tag_class", "0"), _T("is_constructed", "False"), _T("tag_number", "4"))])
for _m, _n in (("write_integer", "2"), ("write_enumerated", "10")):
    contract("asn1:ASN1Writer.%s" % _m,
             requires=_TAGREQ + ["value < pow256(%s)" % _K, "-value < pow256(%s)" % _K], modifies=_WMOD, raises=_TAGERR,
             on_raise=["self._data == old(self._data)"],
             witness={"w": "w", "c": "c"}, witness_sorts={"w": "bytes", "c": "bytes"},
             bind_calls={"_pack_asn1_integer": "w", "_pack_asn1_enumerated": "w"},
             bind_witness={"_pack_asn1_integer.c": "c", "_pack_asn1_enumerated.c": "c"},
             ensures=["self._data == old(self._data) + w", "len(c) >= 1", "tc(c) == value", "minimal_tc(c)",
                      "tlv_of(w, %s, %s, %s, c)" % (_T("tag_class", "0"), _T("is_constructed", "False"), _T("tag_number", _n))])
contract("asn1:ASN1Writer.push_sequence", inline=True)
contract("asn1:ASN1Writer.push_set", inline=True)
contract("asn1:ASN1Writer.__enter__", inline=True)
contract("asn1:ASN1Writer.__exit__",
         params={"exc_type": "const:None", "exc_val": "const:None", "exc_tb": "const:None"},
         requires=["implies(self._tag is not None, self._tag.tag_number >= 0 and self._tag.tag_class >= 0 and self._tag.tag_class <= 3)",
                   "len(self._data) < 9223372036854775808"],
         witness={"w": "w"}, witness_sorts={"w": "bytes"}, bind_calls={"_pack_asn1": "w"},
         ensures=["implies(self._parent is None or self._tag is None, True)",
                  "implies(self._parent is not None and self._tag is not None, self._parent._data == old(self._parent._data) + w and "
                  "tlv_of(w, self._tag.tag_class, self._tag.is_constructed, self._tag.tag_number, self._data))",
                  "self._data == old(self._data)"],
         raises={}, modifies=["self._parent._data"])
contract("asn1:ASN1Writer.get_data",
         requires=[], ensures=["result == self._data", "self._parent is None", "self._tag is None"],
         raises={"TypeError": "self._parent is not None or self._tag is not None"}, modifies=[])

# ------------------------------------------------------------------------------------------------ C07 round-trip lemmas over the contracts
_RTV = "cat(s, rest)"
contract("specs.ber:lemma_tlv_roundtrip",
         requires=["tlv_of(s, tag_class, constructed, number, content)"],
         ensures=["tlv_complete(%s)" % _RTV, "id_class(%s) == tag_class" % _RTV, "id_constructed(%s) == constructed" % _RTV,
                  "id_number(%s) == number" % _RTV, "hdr_len(%s) == hdr_len(s)" % _RTV, "val_len(%s) == len(content)" % _RTV,
                  "content_of(%s) == content" % _RTV, "rest_of(%s) == rest" % _RTV])
contract("specs.ber:lemma_integer_roundtrip",
         requires=["tlv_of(w, tag_class, constructed, number, c)", "len(c) >= 1", "tc(c) == value"],
         ensures=["tlv_complete(cat(w, rest))", "tc(content_of(cat(w, rest))) == value", "rest_of(cat(w, rest)) == rest",
                  "id_class(cat(w, rest)) == tag_class", "id_number(cat(w, rest)) == number", "id_constructed(cat(w, rest)) == constructed"])
contract("specs.ber:lemma_boolean_roundtrip",
         requires=["tlv_of(w, tag_class, constructed, number, seq1(255 if value else 0))"],
         ensures=["len(content_of(cat(w, rest))) == 1", "(content_of(cat(w, rest))[0] != 0) == value", "rest_of(cat(w, rest)) == rest"])

contract("specs.ber:lemma_b128end_bounds", requires=["0 <= i"],
         ensures=["i <= b128end(s, i)", "b128end(s, i) <= (len(s) if len(s) >= i else i)"], decreases="len(s) - i if len(s) >= i else 0")
