# Sidecar contracts for sansldap/asn1.py (byte level, layer L1) and for the lemmas of specs/ber.py.
# Executed by pyvc.run.load_contracts with `contract`, OBJECT_FIELDS and EXTRAS in scope.
# Postconditions are taken from X.690 through the spec functions in specs/ber.py; loop invariants refer to locals.

OBJECT_FIELDS["asn1.ASN1Reader"] = {"_data": "bytes", "_view": "memoryview"}
OBJECT_FIELDS["asn1.ASN1Writer"] = {"_data": "bytearray", "_tag": "t.Optional[ASN1Tag]", "_parent": "t.Optional[ASN1Writer]"}
EXTRAS.setdefault("immutable_fields", {})["asn1.ASN1Reader"] = ("_data",)
EXTRAS["immutable_fields"]["asn1.ASN1Writer"] = ("_tag", "_parent")

# ------------------------------------------------------------------------------------------------ lemmas
contract("specs.ber:lemma_pow256_pos", requires=[], ensures=["pow256(k) >= 1"], decreases="k + 1 if k >= 0 else 0")
contract("specs.ber:lemma_pow128_pos", requires=[], ensures=["pow128(k) >= 1"], decreases="k + 1 if k >= 0 else 0")
contract("specs.ber:lemma_be_prefix",
         requires=["0 <= lo", "hi <= len(s)"],
         ensures=["be(cat(s, r), lo, hi) == be(s, lo, hi)"],
         decreases="hi - lo if hi >= lo else 0")
contract("specs.ber:lemma_b128_prefix",
         requires=["0 <= lo", "hi <= len(s)"],
         ensures=["b128(cat(s, r), lo, hi) == b128(s, lo, hi)"],
         decreases="hi - lo if hi >= lo else 0")
contract("specs.ber:lemma_b128end_prefix",
         requires=["0 <= i", "b128end(s, i) < len(s)"],
         ensures=["b128end(cat(s, r), i) == b128end(s, i)"],
         decreases="len(s) - i if len(s) >= i else 0")
contract("specs.ber:lemma_be_bound",
         requires=["0 <= lo", "hi <= len(s)"],
         ensures=["0 <= be(s, lo, hi)", "be(s, lo, hi) < pow256(hi - lo)", "pow256(hi - lo) >= 1"],
         decreases="hi - lo if hi >= lo else 0")
contract("specs.ber:lemma_le_bound",
         requires=["k <= len(s)"],
         ensures=["0 <= le(s, k)", "le(s, k) < pow256(k)", "pow256(k) >= 1"],
         decreases="k if k >= 0 else 0")
contract("specs.ber:lemma_le_frame",
         requires=["k <= len(a)", "k <= len(b)", "forall(j, 0, k, a[j] == b[j])"],
         ensures=["le(a, k) == le(b, k)"],
         decreases="k if k >= 0 else 0")
contract("specs.ber:lemma_be_frame",
         requires=["0 <= lo", "hi <= len(a)", "hi <= len(b)", "forall(j, lo, hi, a[j] == b[j])"],
         ensures=["be(a, lo, hi) == be(b, lo, hi)"],
         decreases="hi - lo if hi >= lo else 0")
contract("specs.ber:lemma_b128_frame",
         requires=["0 <= lo", "hi <= len(a)", "hi <= len(b)", "forall(j, lo, hi, a[j] == b[j])"],
         ensures=["b128(a, lo, hi) == b128(b, lo, hi)"],
         decreases="hi - lo if hi >= lo else 0")
contract("specs.ber:lemma_be_le_reverse",
         requires=["len(r) == len(d)", "forall(q, 0, len(d), r[q] == d[len(d) - 1 - q])", "0 <= j", "j <= len(d)"],
         ensures=["be(r, 0, j) * pow256(len(d) - j) + le(d, len(d) - j) == le(d, len(d))"],
         decreases="j")

# ------------------------------------------------------------------------------------------------ base-128 numbers
contract("asn1:_unpack_asn1_octet_number",
         params={"data": "memoryview"},
         requires=[],
         ensures=["result[1] == b128end(data, 0) + 1",
                  "result[1] >= 1", "result[1] <= len(data)",
                  "result[0] == b128(data, 0, result[1])",
                  "result[0] >= 0"],
         raises={"NotEnougData": "b128end(data, 0) >= len(data)"},
         loops={0: dict(invariant=["0 <= idx", "idx <= len(data)", "i == b128(data, 0, idx)", "i >= 0",
                                   "b128end(data, 0) == b128end(data, idx)"],
                        decreases="len(data) - idx")})

contract("specs.ber:lemma_b128_le128_reverse",
         requires=["len(r) == len(d)", "forall(q, 0, len(d), r[q] == d[len(d) - 1 - q])", "0 <= j", "j <= len(d)"],
         ensures=["b128(r, 0, j) * pow128(len(d) - j) + le128(d, len(d) - j) == le128(d, len(d))"],
         decreases="j")
contract("specs.ber:lemma_b128end_find",
         requires=["0 <= i", "i <= j", "j < len(s)", "forall(q, i, j, s[q] >= 128)", "s[j] < 128"],
         ensures=["b128end(s, i) == j"],
         decreases="j - i")
contract("specs.ber:lemma_pow2_8", requires=["k >= 0"], ensures=["pow2(8 * k) == pow256(k)"], decreases="k", fuel=9)
contract("specs.ber:lemma_be_complement",
         requires=["len(m) == len(c)", "0 <= j", "j <= len(c)", "forall(q, 0, j, m[q] == 255 - c[q])"],
         ensures=["be(m, 0, j) + be(c, 0, j) == pow256(j) - 1"],
         decreases="j")
contract("specs.ber:lemma_be_increment",
         requires=["len(a) == len(b)", "0 <= i", "i < n", "n <= len(a)", "forall(q, 0, i, b[q] == a[q])", "b[i] == a[i] + 1",
                   "forall(q, i + 1, n, a[q] == 255 and b[q] == 0)"],
         ensures=["be(b, 0, n) == be(a, 0, n) + 1"],
         decreases="n - i")

contract("asn1:_pack_asn1_octet_number",
         requires=["num >= 1"],
         result="bytearray",
         ensures=["len(result) >= 1",
                  "forall(q, 0, len(result) - 1, result[q] >= 128)",
                  "result[len(result) - 1] < 128",
                  "b128(result, 0, len(result)) == num",
                  "result[0] != 128"],
         loops={0: dict(invariant=["num >= 0",
                                   "old(num) == num * pow128(len(num_octets)) + le128(num_octets, len(num_octets))",
                                   "pow128(len(num_octets)) >= 1",
                                   "implies(len(num_octets) >= 1, num_octets[0] < 128)",
                                   "forall(q, 1, len(num_octets), num_octets[q] >= 128)",
                                   "implies(len(num_octets) >= 1, num * 128 + num_octets[len(num_octets) - 1] % 128 >= 1)",
                                   "implies(len(num_octets) == 0, num >= 1)"],
                        body_hints=["le128(num_octets, len(num_octets))", "pow128(len(num_octets))",
                                    "lemma_le128_frame(old_octets, num_octets, len(num_octets) - 1)"],
                        snapshot_each={"old_octets": "num_octets"},
                        exit_snapshot={"rev_src": "num_octets"},
                        decreases="num")},
         exit_hints=["lemma_b128_le128_reverse(rev_src, num_octets, len(num_octets))", "pow128(0)", "le128(rev_src, 0)"])

contract("specs.ber:lemma_le128_frame",
         requires=["k <= len(a)", "k <= len(b)", "forall(j, 0, k, a[j] == b[j])"],
         ensures=["le128(a, k) == le128(b, k)"],
         decreases="k if k >= 0 else 0")

# ------------------------------------------------------------------------------------------------ header reader
contract("asn1:_read_asn1_header",
         requires=[],
         ensures=["hdr_complete(data)", "not indefinite(data)",
                  "result.tag.tag_class == id_class(data)",
                  "result.tag.is_constructed == id_constructed(data)",
                  "result.tag.tag_number == id_number(data)",
                  "result.tag_length == hdr_len(data)",
                  "result.length == val_len(data)",
                  "result.length >= 0", "result.tag_length >= 2", "result.tag_length <= len(data)",
                  "result.tag.tag_number >= 0",
                  "implies(id_class(data) == 0, universal_number_known(id_number(data)))"],
         raises={"NotEnougData": "not hdr_complete(data)",
                 "ValueError": "id_complete(data) and ((id_class(data) == 0 and not universal_number_known(id_number(data))) or (len(data) > id_len(data) and indefinite(data)))"},
         loops={0: dict(invariant=["length_octets == 1 + (len_first(data) - 128)", "length_octets >= 2",
                                   "len(view) == len(data) - id_len(data)",
                                   "view == drop(data, id_len(data))",
                                   "length >= 0",
                                   "length == be(drop(view, 1), 0, _i0) * pow256(length_octets - 1 - _i0)",
                                   "pow256(length_octets - 1 - _i0) >= 1",
                                   "_i0 + 1 <= len(view)"],
                        body_hints=["drop(view, 1)[idx - 1] == octet_val",
                                    "lemma_pow2_8(length_octets - 1 - idx)", "pow256(length_octets - idx)",
                                    "be(drop(view, 1), 0, idx)", "lemma_pow256_pos(length_octets - 1 - idx)"],
                        entry_hints=["lemma_pow256_pos(length_octets - 1)"],
                        exit_hints=["pow256(0)", "drop(view, 1) == drop(data, id_len(data) + 1)"])},
         exit_hints=[])

# ------------------------------------------------------------------------------------------------ tag validation and primitive readers
# `header`, when supplied, is the result of peek_header on the same data (documented use); H_* below name the header
# fields actually used: the supplied header's, else the parsed one.
_HDR_OK = "implies(header is not None, header.tag_length >= 0 and header.length >= 0 and header.tag_length <= len(data))"

contract("asn1:_validate_tag",
         params={"data": "memoryview", "hint": "str"},
         requires=[_HDR_OK],
         ensures=["implies(header is None, tlv_complete(data) and result[1] == hdr_len(data) + val_len(data) and result[0] == content_of(data))",
                  "implies(header is None, expected_tag.tag_class == id_class(data) and expected_tag.tag_number == id_number(data) and expected_tag.is_constructed == id_constructed(data))",
                  "implies(header is not None, result[1] == header.tag_length + header.length and result[0] == take(drop(data, header.tag_length), header.length) and header.tag == expected_tag)",
                  "implies(header is not None, len(data) >= header.tag_length + header.length)",
                  "len(result[0]) == result[1] - (hdr_len(data) if header is None else header.tag_length)",
                  "result[1] <= len(data)", "result[1] >= 0"],
         raises={"NotEnougData": "(header is None and not tlv_complete(data)) or (header is not None and len(data) < header.tag_length + header.length)",
                 "ValueError": "(header is None and id_complete(data)) or (header is not None and header.tag != expected_tag)"})

_READ_COMMON = dict(
    params={"data": "memoryview", "hint": "str"},
    requires=[_HDR_OK],
    raises={"NotEnougData": "(header is None and not tlv_complete(data)) or (header is not None and len(data) < header.tag_length + header.length)",
            "ValueError": True})
# T_* : the tag that must match; C: the content octets; N: octets consumed
_CONTENT = "(content_of(data) if header is None else take(drop(data, header.tag_length), header.length))"
_CONSUMED = "(hdr_len(data) + val_len(data) if header is None else header.tag_length + header.length)"


def _tagmatch(default_num, default_cons):
    # effective expected tag: explicit tag, else the supplied header's own tag (any tag accepted), else the universal default
    return ("implies(header is None, tlv_complete(data) and (id_class(data) == (tag.tag_class if tag is not None else 0)) and "
            "(id_number(data) == (tag.tag_number if tag is not None else %d)) and "
            "(id_constructed(data) == (tag.is_constructed if tag is not None else %s)))" % (default_num, default_cons))


contract("asn1:_read_asn1_octet_string", **_READ_COMMON,
         ensures=["result[0] == " + _CONTENT, "result[1] == " + _CONSUMED, "result[1] <= len(data)", "result[1] >= 0",
                  _tagmatch(4, "False"),
                  "implies(header is not None and tag is not None, header.tag == tag)"])
contract("asn1:_read_asn1_sequence", **_READ_COMMON,
         ensures=["result[0] == " + _CONTENT, "result[1] == " + _CONSUMED, "result[1] <= len(data)", "result[1] >= 0",
                  _tagmatch(16, "True"),
                  "implies(header is not None and tag is not None, header.tag == tag)"])
contract("asn1:_read_asn1_set", **_READ_COMMON,
         ensures=["result[0] == " + _CONTENT, "result[1] == " + _CONSUMED, "result[1] <= len(data)", "result[1] >= 0",
                  _tagmatch(17, "True"),
                  "implies(header is not None and tag is not None, header.tag == tag)"])
contract("asn1:_read_asn1_boolean", **_READ_COMMON,
         ensures=["result[0] == (not (len(%s) == 1 and %s[0] == 0))" % (_CONTENT, _CONTENT),
                  "result[1] == " + _CONSUMED, "result[1] <= len(data)", "result[1] >= 0",
                  _tagmatch(1, "False"),
                  "implies(header is not None and tag is not None, header.tag == tag)"])

# ------------------------------------------------------------------------------------------------ TLV writer
contract("asn1:_pack_asn1",
         params={"tag_class": "int", "tag_number": "int", "data": "bytes"},
         requires=["tag_number >= 0", "len(data) < 9223372036854775808"],
         ensures=["tlv_of(result, tag_class, constructed, tag_number, data)"],
         raises={"ValueError": "tag_class < 0 or tag_class > 3"},
         bind_calls={"_pack_asn1_octet_number": "tagoct"},
         loops={0: dict(invariant=["length >= 0",
                                   "len(data) == length * pow256(len(length_octets)) + le(length_octets, len(length_octets))",
                                   "pow256(len(length_octets)) >= 1",
                                   "len(length_octets) <= 8",
                                   "length < pow256(8 - len(length_octets))",
                                   "implies(len(length_octets) >= 1, length * 256 + length_octets[len(length_octets) - 1] >= 1)",
                                   "implies(len(length_octets) == 0, length == len(data))"],
                        entry_hints=["pow256(8)", "pow256(7)", "pow256(4)", "pow256(0)"],
                        snapshot_each={"prev_octets": "length_octets"},
                        body_hints=["le(length_octets, len(length_octets))", "pow256(len(length_octets))",
                                    "pow256(8 - len(prev_octets))",
                                    "lemma_le_frame(prev_octets, length_octets, len(length_octets) - 1)"],
                        exit_snapshot={"digits": "length_octets"},
                        decreases="length")},
         exit_hints=["using tagoct: drop(result, 1) == cat(tagoct, drop(result, 1 + len(tagoct)))",
                     "using tagoct: lemma_b128end_find(tagoct, 0, len(tagoct) - 1)",
                     "using tagoct: lemma_b128end_prefix(tagoct, drop(result, 1 + len(tagoct)), 0)",
                     "using tagoct: lemma_b128_prefix(tagoct, drop(result, 1 + len(tagoct)), 0, len(tagoct))",
                     "using digits: lemma_be_le_reverse(digits, length_octets, len(digits))",
                     "using digits: pow256(0)", "using digits: le(digits, 0)",
                     "using digits: drop(result, len(b_asn1_data) - len(length_octets)) == cat(length_octets, data)",
                     "using digits: lemma_be_prefix(length_octets, data, 0, len(length_octets))",
                     "drop(result, len(b_asn1_data)) == data"])

# ------------------------------------------------------------------------------------------------ INTEGER / ENUMERATED reader
contract("asn1:_read_asn1_integer",
         params={"data": "memoryview", "hint": "str"},
         requires=[_HDR_OK],
         ensures=["len(%s) >= 1" % _CONTENT,
                  "result[0] == tc(%s)" % _CONTENT,
                  "result[1] == " + _CONSUMED, "result[1] <= len(data)", "result[1] >= 0",
                  _tagmatch(2, "False"),
                  "implies(header is not None and tag is not None, header.tag == tag)"],
         raises={"NotEnougData": "(header is None and not tlv_complete(data)) or (header is not None and len(data) < header.tag_length + header.length)",
                 "ValueError": True},
         bind_calls={"_validate_tag": "vt"},
         loops={0: dict(invariant=["len(b_int) == len(vt[0])",
                                   "forall(q, 0, _i0, b_int[q] == 255 - vt[0][q])",
                                   "forall(q, _i0, len(b_int), b_int[q] == vt[0][q])"],
                        exit_snapshot={"comp": "b_int"}),
                1: dict(invariant=["len(b_int) == len(comp)",
                                   "forall(q, 0, len(b_int) - _i1, b_int[q] == comp[q])",
                                   "forall(q, len(b_int) - _i1, len(b_int), comp[q] == 255 and b_int[q] == 0)"],
                        break_hints=["lemma_be_increment(comp, b_int, i, len(b_int))",
                                     "lemma_be_complement(vt[0], comp, len(comp))"],
                        exit_hints=["comp[0] == 255 - vt[0][0]"]),
                2: dict(invariant=["int_value == be(b_int, 0, _i2)", "int_value >= 0"],
                        body_hints=["be(b_int, 0, _i2)"])})
