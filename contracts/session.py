# Sidecar contracts for sansldap/_session.py (layer L3).  Abstract state of a session:
#   state, _outstanding_requests, _search_requests, _message_counter (client), _outgoing_buffer, _incoming_buffer.
# LDAPMessage.pack is abstract here:  result == enc(self, options)  (specs/sess.py); contracts/messages.py relates it to RFC 4511.
# Postconditions are taken from the statements of C08 / C09 / C10 / C12.

OBJECT_FIELDS["_session.LDAPSession"] = {
    "state": "int", "version": "int",
    "_outgoing_buffer": "bytearray", "_incoming_buffer": "bytearray",
    "_outstanding_requests": "t.Set[int]", "_search_requests": "t.Set[int]",
    "_packing_options": "sym:PackingOptions",
}
OBJECT_FIELDS["_session.LDAPClient"] = {"_message_counter": "int"}
OBJECT_FIELDS["_session.LDAPServer"] = {}
EXTRAS.setdefault("immutable_fields", {})["_session.LDAPSession"] = ("_packing_options", "version")
EXTRAS.setdefault("exc_fields", {})["ProtocolError"] = {"request": "t.Optional[sym:LDAPMessage]", "response": "t.Optional[bytes]"}
# object.__setattr__(msg, "message_id", id) on a frozen message: every other observer used by the contracts is preserved
EXTRAS.setdefault("sym_frames", {})["message_id"] = [("class_of", "int"), ("fld_name", "str"), ("fld_name_isnone", "bool"),
                                                     ("fld_result", "obj")]

CLOSED = "SessionState.CLOSED"
BINDING = "SessionState.BINDING"
OPENED = "SessionState.OPENED"
BEFORE = "SessionState.BEFORE_OPEN"
NOTICE = "ExtendedOperations.LDAP_NOTICE_OF_DISCONNECTION"

VALID_STATE = "(self.state == %s or self.state == %s or self.state == %s or self.state == %s)" % (BEFORE, BINDING, OPENED, CLOSED)
# what may be sent while BINDING (C08): bind traffic or a termination
BIND_TRAFFIC = ("(isinstance(msg, (UnbindRequest, BindRequest, BindResponse)) or "
                "(isinstance(msg, ExtendedResponse) and msg.name == %s))" % NOTICE)
GATE_REJECTS = "(old(self.state) == %s or (old(self.state) == %s and not %s))" % (CLOSED, BINDING, BIND_TRAFFIC)
OPENED_IF_FRESH = "(%s if old(self.state) == %s else old(self.state))" % (OPENED, BEFORE)
UNCHANGED_WIRE = ["self._outgoing_buffer == old(self._outgoing_buffer)"]
UNCHANGED_BOOK = ["self._outstanding_requests == old(self._outstanding_requests)",
                  "self._search_requests == old(self._search_requests)"]
SEND_MOD = ["self.state", "self._outgoing_buffer"]

# ------------------------------------------------------------------------------------------------ abstract encoder
contract("_messages:LDAPMessage.pack",
         params={"self": "sym:LDAPMessage", "options": "sym:PackingOptions"},
         requires=[], ensures=["result == enc(self, options)", "len(result) >= 2"], raises={}, trusted=True,
         note="L3 abstraction of the encoder: a function of the message value and the options. Assumed: determinism (equal values give equal octets). "
              "Discharged from the body under the key _messages:LDAPMessage.pack[totality] (contracts/encode.py): it returns at least two octets for every "
              "message value and raises nothing but UnicodeEncodeError (text without an encoding: outside 'arguments conform to their annotations')")

# ------------------------------------------------------------------------------------------------ drain (C12)
for _cls in ("LDAPClient", "LDAPServer"):
    contract("_session:%s/LDAPSession.data_to_send" % _cls,
             requires=[VALID_STATE],
             ensures=["result + self._outgoing_buffer == old(self._outgoing_buffer)",
                      "implies(amount is None, len(self._outgoing_buffer) == 0)",
                      "implies(amount is not None and amount >= 0 and amount <= len(old(self._outgoing_buffer)), len(result) == amount)",
                      "implies(amount is not None and amount > len(old(self._outgoing_buffer)), len(self._outgoing_buffer) == 0)"],
             raises={}, modifies=["self._outgoing_buffer"])

# ------------------------------------------------------------------------------------------------ base send gate
# server: the base gate then the outstanding-id validation, both before any byte is queued
SRV_REJECTS = "(%s or (not isinstance(msg, UnbindRequest) and msg.message_id not in old(self._outstanding_requests)))" % GATE_REJECTS
ID_OK = "(isinstance(msg, UnbindRequest) or msg.message_id in old(self._outstanding_requests))"
contract("_session:LDAPServer._validate_outgoing_message",
         params={"msg": "sym:LDAPMessage"},
         requires=[], ensures=["isinstance(msg, UnbindRequest) or msg.message_id in self._outstanding_requests"],
         raises={"LDAPError": "not isinstance(msg, UnbindRequest) and msg.message_id not in self._outstanding_requests"},
         modifies=[])
contract("_session:LDAPClient/LDAPSession._validate_outgoing_message", params={"msg": "sym:LDAPMessage"},
         requires=[], ensures=[], raises={}, modifies=[])

contract("_session:LDAPServer/LDAPSession._send",
         params={"msg": "sym:LDAPMessage"},
         requires=[VALID_STATE],
         ensures=["result == msg.message_id",
                  "self._outgoing_buffer == old(self._outgoing_buffer) + enc(msg, self._packing_options)",
                  "self.state == " + OPENED_IF_FRESH,
                  "not " + GATE_REJECTS, ID_OK],
         raises={"LDAPError": SRV_REJECTS},
         on_raise=UNCHANGED_WIRE + ["self.state == " + OPENED_IF_FRESH,
                                    "implies(%s, self.state == old(self.state))" % GATE_REJECTS],
         modifies=SEND_MOD)
contract("_session:LDAPClient/LDAPSession._send",
         params={"msg": "sym:LDAPMessage"},
         requires=[VALID_STATE],
         ensures=["result == msg.message_id",
                  "self._outgoing_buffer == old(self._outgoing_buffer) + enc(msg, self._packing_options)",
                  "self.state == " + OPENED_IF_FRESH,
                  "not " + GATE_REJECTS],
         raises={"LDAPError": GATE_REJECTS},
         on_raise=UNCHANGED_WIRE + ["self.state == old(self.state)"],
         modifies=SEND_MOD)

# ------------------------------------------------------------------------------------------------ server send (C10)
FINAL = "(not isinstance(msg, (UnbindRequest, SearchResultEntry, SearchResultReference)))"
contract("_session:LDAPServer._send",
         params={"msg": "sym:LDAPMessage"},
         requires=[VALID_STATE],
         ensures=["result == msg.message_id",
                  "self._outgoing_buffer == old(self._outgoing_buffer) + enc(msg, self._packing_options)",
                  "self.state == " + OPENED_IF_FRESH,
                  "not " + GATE_REJECTS, ID_OK,
                  # a final response retires the request, an entry / reference keeps it, nothing else changes
                  "self._outstanding_requests == (set_del(old(self._outstanding_requests), msg.message_id) if %s else old(self._outstanding_requests))" % FINAL,
                  "self._search_requests == old(self._search_requests)"],
         raises={"LDAPError": SRV_REJECTS},
         on_raise=UNCHANGED_WIRE + UNCHANGED_BOOK + ["self.state == " + OPENED_IF_FRESH,
                                                    "implies(%s, self.state == old(self.state))" % GATE_REJECTS],
         modifies=SEND_MOD + ["self._outstanding_requests"])

# ------------------------------------------------------------------------------------------------ client send (C09)
CLIENT_INV = ["self._message_counter >= 1",
              "forall(x, self._message_counter, self._message_counter + 1, True)",   # placeholder keeps clause list aligned
              ]
# ids handed out are below the counter; searches are outstanding while the session is alive
CLIENT_INV = ["self._message_counter >= 1",
              "ids_below(self._outstanding_requests, self._message_counter)",
              "ids_below(self._search_requests, self._message_counter)",
              "implies(self.state != %s, subset(self._search_requests, self._outstanding_requests))" % CLOSED]
contract("_session:LDAPClient._send",
         params={"msg": "sym:LDAPMessage"},
         requires=[VALID_STATE] + CLIENT_INV,
         ensures=["not " + GATE_REJECTS,
                  "self.state == " + OPENED_IF_FRESH,
                  "self._search_requests == old(self._search_requests)",
                  "implies(isinstance(msg, UnbindRequest), result == msg.message_id and self._message_counter == old(self._message_counter) "
                  "and self._outstanding_requests == old(self._outstanding_requests) "
                  "and self._outgoing_buffer == old(self._outgoing_buffer) + enc(msg, self._packing_options))",
                  # ids: positive, strictly increasing, never reused, and the id carried in the bytes
                  "implies(not isinstance(msg, UnbindRequest), result == old(self._message_counter) and result >= 1 "
                  "and self._message_counter == old(self._message_counter) + 1 "
                  "and self._outstanding_requests == set_add(old(self._outstanding_requests), result) "
                  "and self._outgoing_buffer == old(self._outgoing_buffer) + enc(upd_message_id(msg, result), self._packing_options))"],
         raises={"LDAPError": GATE_REJECTS},
         on_raise=UNCHANGED_WIRE + UNCHANGED_BOOK + ["self.state == old(self.state)", "self._message_counter == old(self._message_counter)"],
         modifies=SEND_MOD + ["self._outstanding_requests", "self._message_counter"])

# ------------------------------------------------------------------------------------------------ server API (C08, C10, C12)
def _srv_accept(kind_is_bind_traffic, id_expr="message_id"):
    """Two separate clauses: the state gate (C08) and the outstanding-id requirement (C10)."""
    gate = "old(self.state) != %s" % CLOSED
    if not kind_is_bind_traffic:
        gate = "(%s and old(self.state) != %s)" % (gate, BINDING)
    return [gate, "%s in old(self._outstanding_requests)" % id_expr]


def _srv_reject(kind_is_bind_traffic, id_expr="message_id"):
    gate = "old(self.state) == %s" % CLOSED
    if not kind_is_bind_traffic:
        gate = "(%s or old(self.state) == %s)" % (gate, BINDING)
    return "(%s or %s not in old(self._outstanding_requests))" % (gate, id_expr)


def _srv_on_raise(kind_is_bind_traffic):
    gate = "old(self.state) == %s" % CLOSED
    if not kind_is_bind_traffic:
        gate = "(%s or old(self.state) == %s)" % (gate, BINDING)
    return UNCHANGED_WIRE + UNCHANGED_BOOK + ["self.state == " + OPENED_IF_FRESH, "implies(%s, self.state == old(self.state))" % gate]


SASL = "LDAPResultCode.SASL_BIND_IN_PROGRESS"
_W = dict(witness={"sentmsg": "msg"}, witness_sorts={"sentmsg": "sym:LDAPMessage"})
_SENT = "self._outgoing_buffer == old(self._outgoing_buffer) + enc(sentmsg, self._packing_options)"

contract("_session:LDAPServer.bind_response", **_W,
         params={"result_code": "int"},
         requires=[VALID_STATE],
         ensures=["result == message_id", _SENT, "isinstance(sentmsg, BindResponse)", "sentmsg.message_id == message_id"] + _srv_accept(True) + [
                  "self._outstanding_requests == set_del(old(self._outstanding_requests), message_id)",
                  "self._search_requests == old(self._search_requests)",
                  # BINDING is left only by a bind response that is not 'SASL bind in progress'
                  "self.state == (%s if result_code != %s else %s)" % (OPENED, SASL, OPENED_IF_FRESH)],
         raises={"LDAPError": _srv_reject(True)}, on_raise=_srv_on_raise(True),
         modifies=SEND_MOD + ["self._outstanding_requests"])

contract("_session:LDAPServer.extended_response", **_W,
         params={"result_code": "int"},
         requires=[VALID_STATE],
         ensures=["result == message_id", _SENT, "isinstance(sentmsg, ExtendedResponse)", "sentmsg.message_id == message_id",
                  "old(self.state) != %s" % CLOSED, "message_id in old(self._outstanding_requests)",
                  "implies(old(self.state) == %s, name == %s)" % (BINDING, NOTICE),
                  "self._outstanding_requests == set_del(old(self._outstanding_requests), message_id)",
                  "self._search_requests == old(self._search_requests)",
                  # a notice of disconnection terminates the session
                  "self.state == (%s if name == %s else %s)" % (CLOSED, NOTICE, OPENED_IF_FRESH)],
         raises={"LDAPError": "(old(self.state) == %s or (old(self.state) == %s and not (name == %s)) or message_id not in old(self._outstanding_requests))" % (CLOSED, BINDING, NOTICE)},
         on_raise=UNCHANGED_WIRE + UNCHANGED_BOOK + ["self.state == " + OPENED_IF_FRESH,
                                                    "implies(old(self.state) == %s or old(self.state) == %s, self.state == old(self.state))" % (CLOSED, BINDING)],
         modifies=SEND_MOD + ["self._outstanding_requests"])

for _m, _cls_ in (("search_result_entry", "SearchResultEntry"), ("search_result_reference", "SearchResultReference")):
    contract("_session:LDAPServer.%s" % _m, **_W,
             requires=[VALID_STATE],
             ensures=["result == message_id", _SENT, "isinstance(sentmsg, %s)" % _cls_, "sentmsg.message_id == message_id"] + _srv_accept(False) + [
                      "self._outstanding_requests == old(self._outstanding_requests)",
                      "self._search_requests == old(self._search_requests)",
                      "self.state == " + OPENED_IF_FRESH],
             raises={"LDAPError": _srv_reject(False)}, on_raise=_srv_on_raise(False),
             modifies=SEND_MOD)

contract("_session:LDAPServer.search_result_done", **_W,
         params={"result_code": "int"},
         requires=[VALID_STATE],
         ensures=["result == message_id", _SENT, "isinstance(sentmsg, SearchResultDone)", "sentmsg.message_id == message_id"] + _srv_accept(False) + [
                  "self._outstanding_requests == set_del(old(self._outstanding_requests), message_id)",
                  "self._search_requests == set_del(old(self._search_requests), message_id)",
                  "self.state == " + OPENED_IF_FRESH],
         raises={"LDAPError": _srv_reject(False)}, on_raise=_srv_on_raise(False),
         modifies=SEND_MOD + ["self._outstanding_requests", "self._search_requests"])

# unbind: both classes (inherited)
contract("_session:LDAPServer/LDAPSession.unbind", **_W,
         requires=[VALID_STATE],
         ensures=[_SENT, "isinstance(sentmsg, UnbindRequest)", "sentmsg.message_id == 0",
                  "old(self.state) != %s" % CLOSED,
                  "self.state == %s" % CLOSED, "self._outstanding_requests == empty_set()",
                  "self._search_requests == old(self._search_requests)"],
         raises={"LDAPError": "old(self.state) == %s" % CLOSED},
         on_raise=UNCHANGED_WIRE + UNCHANGED_BOOK + ["self.state == old(self.state)"],
         modifies=SEND_MOD + ["self._outstanding_requests"])
contract("_session:LDAPClient/LDAPSession.unbind", **_W,
         requires=[VALID_STATE] + CLIENT_INV,
         ensures=[_SENT, "isinstance(sentmsg, UnbindRequest)", "sentmsg.message_id == 0",
                  "old(self.state) != %s" % CLOSED,
                  "self.state == %s" % CLOSED, "self._outstanding_requests == empty_set()",
                  "self._search_requests == old(self._search_requests)",
                  "self._message_counter == old(self._message_counter)"] + CLIENT_INV,
         raises={"LDAPError": "old(self.state) == %s" % CLOSED},
         on_raise=UNCHANGED_WIRE + UNCHANGED_BOOK + ["self.state == old(self.state)", "self._message_counter == old(self._message_counter)"],
         modifies=SEND_MOD + ["self._outstanding_requests"])

# ------------------------------------------------------------------------------------------------ client API (C08, C09, C10, C12)
_CLI_UNCHANGED = UNCHANGED_WIRE + UNCHANGED_BOOK + ["self.state == old(self.state)", "self._message_counter == old(self._message_counter)"]
_SENT_ID = "self._outgoing_buffer == old(self._outgoing_buffer) + enc(upd_message_id(sentmsg, result), self._packing_options)"
_NEW_ID = ["result == old(self._message_counter)", "result >= 1", "self._message_counter == old(self._message_counter) + 1",
           "self._outstanding_requests == set_add(old(self._outstanding_requests), result)"]

_BIND_REJ = "(old(self._outstanding_requests) != empty_set() or old(self.state) == %s)" % CLOSED
_BIND_ENS = _NEW_ID + [_SENT_ID, "isinstance(sentmsg, BindRequest)", "old(self.state) != %s" % CLOSED,
                       "old(self._outstanding_requests) == empty_set()",
                       "self._search_requests == old(self._search_requests)",
                       "self.state == %s" % BINDING] + CLIENT_INV
contract("_session:LDAPClient.bind", **_W,
         requires=[VALID_STATE] + CLIENT_INV, ensures=_BIND_ENS,
         raises={"LDAPError": _BIND_REJ}, on_raise=_CLI_UNCHANGED,
         modifies=SEND_MOD + ["self._outstanding_requests", "self._message_counter"])
for _m in ("bind_simple", "bind_sasl"):
    contract("_session:LDAPClient.%s" % _m,
             witness={"sentmsg": "sentmsg"}, witness_sorts={"sentmsg": "sym:LDAPMessage"}, bind_witness={"bind.sentmsg": "sentmsg"},
             requires=[VALID_STATE] + CLIENT_INV, ensures=_BIND_ENS,
             raises={"LDAPError": _BIND_REJ}, on_raise=_CLI_UNCHANGED,
             modifies=SEND_MOD + ["self._outstanding_requests", "self._message_counter"])

_REQ_REJ = "(old(self.state) == %s or old(self.state) == %s)" % (CLOSED, BINDING)
contract("_session:LDAPClient.extended_request", **_W,
         requires=[VALID_STATE] + CLIENT_INV,
         ensures=_NEW_ID + [_SENT_ID, "isinstance(sentmsg, ExtendedRequest)", "not " + _REQ_REJ,
                            "self._search_requests == old(self._search_requests)",
                            "self.state == " + OPENED_IF_FRESH] + CLIENT_INV,
         raises={"LDAPError": _REQ_REJ}, on_raise=_CLI_UNCHANGED,
         modifies=SEND_MOD + ["self._outstanding_requests", "self._message_counter"])
contract("_session:LDAPClient.search_request", **_W,
         params={"scope": "int", "dereferencing_policy": "int"},
         # the enum-typed arguments are members of their enums ("arguments conform to their annotations")
         requires=[VALID_STATE, "0 <= scope and scope <= 2", "0 <= dereferencing_policy and dereferencing_policy <= 3"] + CLIENT_INV,
         ensures=_NEW_ID + [_SENT_ID, "isinstance(sentmsg, SearchRequest)", "not " + _REQ_REJ,
                            "self._search_requests == set_add(old(self._search_requests), result)",
                            "self.state == " + OPENED_IF_FRESH] + CLIENT_INV,
         raises={"LDAPError": _REQ_REJ}, on_raise=_CLI_UNCHANGED,
         modifies=SEND_MOD + ["self._outstanding_requests", "self._message_counter", "self._search_requests"])

# ------------------------------------------------------------------------------------------------ incoming bookkeeping
_ID = "msg.message_id"
_IN_SEARCH = "(%s in old(self._search_requests))" % _ID
_CLI_PIM_REJ = "(not isinstance(msg, Response) or (%s not in old(self._search_requests) and %s not in old(self._outstanding_requests)))" % (_ID, _ID)
_KEEP = "(%s and not isinstance(msg, SearchResultDone))" % _IN_SEARCH
contract("_session:LDAPClient._process_incoming_message",
         params={"msg": "sym:LDAPMessage"},
         requires=[VALID_STATE, "self.state != %s" % CLOSED] + CLIENT_INV,
         ensures=["not " + _CLI_PIM_REJ,
                  # a search stays in progress until its done message; everything else completes on its first response
                  "self._outstanding_requests == (old(self._outstanding_requests) if %s else set_del(old(self._outstanding_requests), %s))" % (_KEEP, _ID),
                  "self._search_requests == (set_del(old(self._search_requests), %s) if (%s and isinstance(msg, SearchResultDone)) else old(self._search_requests))" % (_ID, _IN_SEARCH),
                  "self.state == (%s if (isinstance(msg, BindResponse) and msg.result.result_code != %s) else old(self.state))" % (OPENED, SASL),
                  "self._message_counter == old(self._message_counter)"] + CLIENT_INV,
         raises={"ProtocolError": _CLI_PIM_REJ},
         on_raise=UNCHANGED_BOOK + ["self.state == old(self.state)", "exc.response is None", "exc.request is None"],
         modifies=["self.state", "self._outstanding_requests", "self._search_requests"])

_SRV_PIM_REJ = "(not isinstance(msg, Request) or (isinstance(msg, BindRequest) and old(self._outstanding_requests) != empty_set()))"
contract("_session:LDAPServer._process_incoming_message",
         params={"msg": "sym:LDAPMessage"},
         requires=[VALID_STATE, "self.state != %s" % CLOSED],
         ensures=["not " + _SRV_PIM_REJ,
                  "self._outstanding_requests == set_add(old(self._outstanding_requests), %s)" % _ID,
                  "self._search_requests == (set_add(old(self._search_requests), %s) if isinstance(msg, SearchRequest) else old(self._search_requests))" % _ID,
                  "self.state == (%s if isinstance(msg, BindRequest) else %s)" % (BINDING, OPENED_IF_FRESH)],
         raises={"ProtocolError": _SRV_PIM_REJ},
         on_raise=UNCHANGED_BOOK + ["self.state == old(self.state)", "exc.response is None", "exc.request is None"],
         modifies=["self.state", "self._outstanding_requests", "self._search_requests"])

# ------------------------------------------------------------------------------------------------ receive (C02, C05, C06, C08)
_S = "(old(self._incoming_buffer) + data)"          # everything delivered so far that has not been returned as messages
# designed terminations: an UnbindRequest, or an ExtendedResponse that is the notice of disconnection.  receive never returns
# one of them as an ordinary message (C11: delivering a termination ends the session - any raise leaves it CLOSED, below)
_TERM = lambda m: ("(isinstance(%s, UnbindRequest) or (isinstance(%s, ExtendedResponse) and %s.name == %s.value))" % (m, m, m, NOTICE))
_NO_TERM_RETURNED = "forall(j, 0, len(result), not %s)" % _TERM("result[j]")
_RECV_ENS = ["old(self.state) != %s" % CLOSED, _NO_TERM_RETURNED,
             # C02 / C06: exactly the messages of the complete top-level TLVs, in order; only an incomplete TLV is held back
             "result == msgs(%s, self._packing_options)" % _S,
             "self._incoming_buffer == residue(%s)" % _S,
             "self.state != %s" % CLOSED,
             "self._outgoing_buffer == old(self._outgoing_buffer)"]
_RECV_RAISE = {"*": ["self.state == %s" % CLOSED, "self._outgoing_buffer == old(self._outgoing_buffer)",
                     # a CLOSED session accepts no data and keeps its bookkeeping
                     "implies(old(self.state) == %s, self._incoming_buffer == old(self._incoming_buffer) and self._outstanding_requests == old(self._outstanding_requests))" % CLOSED,
                     "implies(old(self.state) != %s, self._outstanding_requests == empty_set())" % CLOSED]}
_RECV_RAISE_BASE = {"*": _RECV_RAISE["*"] + ["exc.response is None"]}
_RECV_LOOP_A = dict(invariant=["msgs(self._incoming_buffer, self._packing_options) == cat_obj(incoming_msgs, msgs(reader._view, self._packing_options))",
                               "residue(self._incoming_buffer) == residue(reader._view)"])
_RECV_LOOP_B = dict(invariant=["msgs(data, self._packing_options) == cat_obj(incoming_msgs, msgs(reader._view, self._packing_options))",
                               "residue(data) == residue(reader._view)",
                               "len(self._incoming_buffer) == 0"])


def _recv_loops(extra_inv):
    return {0: _RECV_LOOP_A, 1: _RECV_LOOP_B,
            2: dict(invariant=[VALID_STATE, "self.state != %s" % CLOSED, "self._outgoing_buffer == old(self._outgoing_buffer)",
                               "forall(j, 0, _i2, not %s)" % _TERM("incoming_msgs[j]")] + extra_inv)}


contract("_session:LDAPServer/LDAPSession.receive",
         params={"data": "bytes"},
         requires=[VALID_STATE],
         ensures=_RECV_ENS, raises={"ProtocolError": True}, on_raise=_RECV_RAISE_BASE, loops=_recv_loops([]),
         modifies=["self.state", "self._incoming_buffer", "self._outstanding_requests", "self._search_requests"])
contract("_session:LDAPClient/LDAPSession.receive",
         params={"data": "bytes"},
         requires=[VALID_STATE] + CLIENT_INV,
         ensures=_RECV_ENS + CLIENT_INV + ["self._message_counter == old(self._message_counter)"],
         raises={"ProtocolError": True}, on_raise=_RECV_RAISE_BASE, loops=_recv_loops(CLIENT_INV),
         modifies=["self.state", "self._incoming_buffer", "self._outstanding_requests", "self._search_requests"])
# C05: the bytes attached to the error are the encoding of a notice of disconnection (server) / an unbind request (client)
_SRV_RESP = ("implies(exc.response is not None, exc.response == enc(msg, self._packing_options) and isinstance(msg, ExtendedResponse) "
             "and msg.message_id == 0 and msg.name == %s.value and msg.result.result_code == LDAPResultCode.PROTOCOL_ERROR)" % NOTICE)
_CLI_RESP = ("implies(exc.response is not None, exc.response == enc(msg, self._packing_options) and isinstance(msg, UnbindRequest) "
             "and msg.message_id == 0)")
contract("_session:LDAPServer.receive",
         params={"data": "bytes"},
         requires=[VALID_STATE],
         ensures=_RECV_ENS, raises={"ProtocolError": True}, on_raise={"*": _RECV_RAISE["*"] + [_SRV_RESP]},
         modifies=["self.state", "self._incoming_buffer", "self._outstanding_requests", "self._search_requests"])
contract("_session:LDAPClient.receive",
         params={"data": "bytes"},
         requires=[VALID_STATE] + CLIENT_INV,
         ensures=_RECV_ENS + CLIENT_INV + ["self._message_counter == old(self._message_counter)"],
         raises={"ProtocolError": True}, on_raise={"*": _RECV_RAISE["*"] + [_CLI_RESP]},
         modifies=["self.state", "self._incoming_buffer", "self._outstanding_requests", "self._search_requests"])
