# Sidecar contracts for sansldap/_messages.py and the receive path of _session.py.
# L3 view of decoding: unpack_ldap_message consumes exactly one complete top-level TLV or reports that the outermost
# TLV is incomplete *without moving*; what the content octets denote is the uninterpreted dec_content (specs/sess.py).

OBJECT_FIELDS["_messages.PackingOptions"] = {"string_encoding": "str"}

_RV = "old(reader._view)"
_DECODE_ERRORS = {"ValueError": True, "NotImplementedError": True, "RecursionError": True}

contract("_messages:_unpack_ldap_message_content",
         params={"options": "sym:PackingOptions"},
         requires=[],
         ensures=["result == dec_content(old(message._view), options)"],
         raises=dict(_DECODE_ERRORS, NotEnougData=True),
         modifies=["message._view"], trusted=True,
         note="decoding the content of one envelope is a deterministic function of those octets and the options; the set of "
              "exception classes it may raise is what the C05 obligations on the decode tree establish")

contract("_messages:unpack_ldap_message",
         params={"options": "sym:PackingOptions"},
         requires=[],
         ensures=["tlv_complete(%s)" % _RV,
                  "reader._view == drop(%s, tlv_len(%s))" % (_RV, _RV),
                  "result == dec_content(content_of(%s), options)" % _RV],
         # C06: 'wait for more bytes' is signalled only while the outermost TLV is incomplete, and then nothing was consumed
         raises=dict(_DECODE_ERRORS, NotEnougData="not tlv_complete(reader._view)"),
         on_raise={"NotEnougData": ["reader._view == old(reader._view)"]},
         modifies=["reader._view"])

# ---- chunking lemmas (C02)
_AB = "cat(a, b)"
contract("specs.sess:lemma_tlv_prefix",
         requires=["tlv_complete(a)"],
         ensures=["tlv_complete(%s)" % _AB, "hdr_len(%s) == hdr_len(a)" % _AB, "val_len(%s) == val_len(a)" % _AB, "tlv_len(%s) == tlv_len(a)" % _AB,
                  "tlv_len(a) <= len(a)", "tlv_len(a) >= 2"])
contract("specs.sess:lemma_chunk",
         requires=[],
         ensures=["msgs(%s, o) == cat_obj(msgs(a, o), msgs(cat(residue(a), b), o))" % _AB,
                  "residue(%s) == residue(cat(residue(a), b))" % _AB,
                  "nframes(%s) == nframes(a) + nframes(cat(residue(a), b))" % _AB],
         decreases="len(a)")

contract("specs.sess:lemma_residue_incomplete", requires=[],
         ensures=["not tlv_complete(residue(s))", "len(residue(s)) <= len(s)", "0 <= nframes(s)"], decreases="len(s)")

# C02, the fold over a partition: no paper step left
contract("specs.sess:lemma_any_chunking",
         requires=["0 <= i", "not tlv_complete(r)"],
         ensures=["deliver_msgs(r, chunks, i, o) == msgs(cat(r, joined(chunks, i)), o)",
                  "deliver_residue(r, chunks, i) == residue(cat(r, joined(chunks, i)))"],
         decreases="len(chunks) - i")
