# Sidecar contracts for the BER decode tree below the LDAPMessage envelope (_messages, _filter, _controls, _authentication):
# exception containment (C05).  Every function may only raise ValueError (which includes UnicodeDecodeError),
# NotImplementedError or NotEnougData, for every content of the reader; implicit exceptions (IndexError, KeyError,
# AttributeError on None, enum conversion, unpack arity, ...) are obligations at the statements that could raise them.
# Options are the defaults (no user-registered custom credential / filter / control types).

_CONTAIN = {"ValueError": True, "NotImplementedError": True, "NotEnougData": True}


def containment(key, reader="reader", options=None, **kw):
    params = dict(kw.pop("params", {}))
    if options:
        params["options"] = "const:" + options
    contract(key, params=params, requires=kw.pop("requires", []), ensures=kw.pop("ensures", []), raises=dict(_CONTAIN),
             modifies=[reader + "._view"] if reader else [], reader_loops=True, **kw)


# every decoder that is called from a `while reader:` loop consumes at least one TLV (two octets)
_PROGRESS = "len(reader._view) + 2 <= len(old(reader._view))"

_AO = "AuthenticationOptions()"
containment("_authentication:SimpleCredential.unpack", options=_AO)
containment("_authentication:SaslCredential.unpack", options=_AO)
containment("_authentication:AuthenticationCredential.unpack", options=_AO)

_CO = "ControlOptions()"
for _n in ("LDAPControl", "PagedResultControl", "ShowDeactivatedLinkControl", "ShowDeletedControl"):
    containment("_controls:%s.unpack" % _n, reader=None, options=_CO)
containment("_controls:unpack_ldap_control", options=_CO, ensures=[_PROGRESS])

_FO = "FilterOptions()"
_LT = {"FilterAnd": {"filters": "t.List[LDAPFilter]"}, "FilterOr": {"filters": "t.List[LDAPFilter]"}}
for _n in ("FilterAnd", "FilterOr", "FilterNot", "FilterEquality", "FilterSubstrings", "FilterGreaterOrEqual", "FilterLessOrEqual",
           "FilterPresent", "FilterApproxMatch", "FilterExtensibleMatch", "LDAPFilter"):
    containment("_filter:%s.unpack" % _n, options=_FO, local_types=_LT.get(_n, {}), ensures=[_PROGRESS])
containment("_filter:_unpack_filter_attribute_value_assertion", options=_FO, ensures=[_PROGRESS],
            params={"cls": "oneof:FilterEquality,FilterGreaterOrEqual,FilterLessOrEqual,FilterApproxMatch"})

_PO = "PackingOptions()"
for _n in ("bind_request", "bind_response", "extended_request", "extended_response", "search_request", "search_result_done",
           "search_result_entry", "search_result_reference"):
    containment("_messages:_unpack_%s" % _n, options=_PO)
containment("_messages:_unpack_ldap_result", options=_PO, local_types={"referrals": "t.List[str]"})
containment("_messages:_unpack_partial_attribute", options=_PO, ensures=[_PROGRESS])

# The envelope's content decoder: its functional postcondition (result == dec_content(octets, options)) stays an assumed
# determinism statement in contracts/messages.py; the exception classes that contract lists are what is proved here, from
# the body, under a second contract key.
containment("_messages:_unpack_ldap_message_content[containment]", reader="message", options=_PO,
            local_types={"controls": "t.List[LDAPControl]"})
