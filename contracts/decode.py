# Sidecar contracts for the BER decode tree below the LDAPMessage envelope (_messages, _filter, _controls, _authentication):
# exception containment (C05).  Every function may only raise ValueError (which includes UnicodeDecodeError),
# NotImplementedError or NotEnougData, for every content of the reader; implicit exceptions (IndexError, KeyError,
# AttributeError on None, enum conversion, unpack arity, ...) are obligations at the statements that could raise them.
# Options are the defaults (no user-registered custom credential / filter / control types).

_CONTAIN = {"ValueError": True, "NotImplementedError": True, "NotEnougData": True}


def containment(key, reader="reader", options=None, **kw):
    params = dict(kw.pop("params", {}))
    if options:
        params["options"] = "const:" + options
    contract(key, params=params, requires=kw.pop("requires", []), ensures=kw.pop("ensures", []), raises=dict(_CONTAIN),
             modifies=[reader + "._view"] if reader else [], reader_loops=True, **kw)


# every decoder that is called from a `while reader:` loop consumes at least one TLV (two octets)
_PROGRESS = "len(reader._view) + 2 <= len(old(reader._view))"

_AO = "AuthenticationOptions()"
containment("_authentication:SimpleCredential.unpack", options=_AO)
containment("_authentication:SaslCredential.unpack", options=_AO)
containment("_authentication:AuthenticationCredential.unpack", options=_AO)

_CO = "ControlOptions()"
# object.__setattr__(control, "value", control_value) in unpack_ldap_control: every other field of the control is unchanged
EXTRAS.setdefault("sym_frames", {})["value"] = [("fld_critical", "bool"), ("fld_control_type", "str"), ("fld_size", "int"), ("fld_cookie", "bytes")]
for _n in ("LDAPControl", "PagedResultControl", "ShowDeactivatedLinkControl", "ShowDeletedControl"):
    # the control object carries the criticality it was given (value level, C04 / C01); the base class also type and value
    containment("_controls:%s.unpack" % _n, reader=None, options=_CO,
                ensures=["result.critical == critical"] + (["result.control_type == control_type", "result.value == value"] if _n == "LDAPControl" else []))
containment("_controls:unpack_ldap_control", options=_CO, ensures=[_PROGRESS])

_FO = "FilterOptions()"
_LT = {"FilterAnd": {"filters": "t.List[LDAPFilter]"}, "FilterOr": {"filters": "t.List[LDAPFilter]"}}
for _n in ("FilterAnd", "FilterOr", "FilterNot", "FilterEquality", "FilterSubstrings", "FilterGreaterOrEqual", "FilterLessOrEqual",
           "FilterPresent", "FilterApproxMatch", "FilterExtensibleMatch", "LDAPFilter"):
    containment("_filter:%s.unpack" % _n, options=_FO, local_types=_LT.get(_n, {}), ensures=[_PROGRESS])
containment("_filter:_unpack_filter_attribute_value_assertion", options=_FO, ensures=[_PROGRESS],
            params={"cls": "oneof:FilterEquality,FilterGreaterOrEqual,FilterLessOrEqual,FilterApproxMatch"})

_PO = "PackingOptions()"
for _n in ("bind_request", "bind_response", "extended_request", "extended_response", "search_request", "search_result_done",
           "search_result_entry", "search_result_reference"):
    containment("_messages:_unpack_%s" % _n, options=_PO, ensures=["result.message_id == message_id"])
containment("_messages:_unpack_ldap_result", options=_PO, local_types={"referrals": "t.List[str]"})
containment("_messages:_unpack_partial_attribute", options=_PO, ensures=[_PROGRESS])

# The envelope's content decoder: its functional postcondition (result == dec_content(octets, options)) stays an assumed
# determinism statement in contracts/messages.py; the exception classes that contract lists are what is proved here, from
# the body, under a second contract key.
# object.__setattr__(msg, "name", ...) on the decoded ExtendedResponse (MS-ADTS responseName): every other field is unchanged
EXTRAS.setdefault("sym_frames", {})["name"] = [("fld_message_id", "int"), ("fld_result", "obj"), ("fld_value", "bytes"), ("fld_value_isnone", "bool"), ("fld_controls", "seqobj")]
_MV = "old(message._view)"
_OPV = "rest_of(%s)" % _MV          # the protocolOp element follows the messageID
_KINDS = (("BindRequest", 0), ("BindResponse", 1), ("UnbindRequest", 2), ("SearchRequest", 3), ("SearchResultEntry", 4), ("SearchResultDone", 5),
          ("SearchResultReference", 19), ("ExtendedRequest", 23), ("ExtendedResponse", 24))
containment("_messages:_unpack_ldap_message_content[containment]", reader="message", options=_PO,
            local_types={"controls": "t.List[LDAPControl]"},
            # value level (C04 / C01): the messageID is the value of the first element, whatever its length form; the message class is
            # chosen by the APPLICATION tag number of the second element
            ensures=["result.message_id == tc(content_of(%s))" % _MV, "id_class(%s) == 1" % _OPV] +
                    ["isinstance(result, %s) == (id_number(%s) == %d)" % (k, _OPV, n) for k, n in _KINDS])

# ================================================================================================ value-level contracts (C04 / C01, pilot)
# What the decoder returns, stated over the X.690 denotation of the octets it was given (content_of / rest_of / id_* accept
# every definite length form, so the statement covers non-minimal lengths by construction), including which following
# elements are *not* taken for a component.
_V = "old(reader._view)"
_C = "content_of(%s)" % _V
_R = "rest_of(%s)" % _C
_IS_OCTETS = lambda s: "(len(%s) > 0 and id_class(%s) == 0 and id_number(%s) == 4 and not id_constructed(%s))" % (s, s, s, s)
containment("_authentication:SimpleCredential.unpack", options=_AO,
            ensures=["tlv_complete(%s)" % _V, "id_class(%s) == 2" % _V, "id_number(%s) == 0" % _V, "not id_constructed(%s)" % _V,
                     "result.password == unutf8(%s)" % _C, "reader._view == rest_of(%s)" % _V])
containment("_authentication:SaslCredential.unpack", options=_AO,
            ensures=["tlv_complete(%s)" % _V, "id_class(%s) == 2" % _V, "id_number(%s) == 3" % _V, "id_constructed(%s)" % _V,
                     "reader._view == rest_of(%s)" % _V,
                     "result.mechanism == unutf8(content_of(%s))" % _C,
                     # credentials OCTET STRING OPTIONAL: present exactly when the next element is a UNIVERSAL primitive OCTET STRING;
                     # anything else that follows the mechanism is an unrecognised trailing element and is ignored
                     "(result.credentials is not None) == %s" % _IS_OCTETS(_R),
                     "implies(%s, result.credentials == content_of(%s))" % (_IS_OCTETS(_R), _R)])

# AttributeValueAssertion-shaped filter choices and `present`
_R1 = lambda s: "rest_of(%s)" % s
containment("_filter:_unpack_filter_attribute_value_assertion", options=_FO,
            params={"cls": "oneof:FilterEquality,FilterGreaterOrEqual,FilterLessOrEqual,FilterApproxMatch"},
            ensures=[_PROGRESS, "tlv_complete(%s)" % _V, "id_class(%s) == 2" % _V, "id_number(%s) == cls.filter_id" % _V, "id_constructed(%s)" % _V,
                     "reader._view == rest_of(%s)" % _V,
                     "result[0] == unutf8(content_of(%s))" % _C, "result[1] == content_of(%s)" % _R])
for _n, _id in (("FilterEquality", 3), ("FilterGreaterOrEqual", 5), ("FilterLessOrEqual", 6), ("FilterApproxMatch", 8)):
    containment("_filter:%s.unpack" % _n, options=_FO,
                ensures=[_PROGRESS, "id_class(%s) == 2" % _V, "id_number(%s) == %d" % (_V, _id), "id_constructed(%s)" % _V, "reader._view == rest_of(%s)" % _V,
                         "result.attribute == unutf8(content_of(%s))" % _C, "result.value == content_of(%s)" % _R])
containment("_filter:FilterPresent.unpack", options=_FO,
            ensures=[_PROGRESS, "id_class(%s) == 2" % _V, "id_number(%s) == 7" % _V, "not id_constructed(%s)" % _V, "reader._view == rest_of(%s)" % _V,
                     "result.attribute == unutf8(%s)" % _C])

# BindRequest / SearchRequest: the fixed leading components, in order, each read with its universal tag
_E = lambda k: _V if k == 0 else "rest_of(%s)" % _E(k - 1)        # the octets starting at the k-th element
containment("_messages:_unpack_bind_request", options=_PO, witness={"v1": "reader_view_1", "v2": "reader_view_2"}, witness_sorts={"v1": "bytes", "v2": "bytes"},
            ensures=["result.message_id == message_id", "v1 == rest_of(%s)" % _V, "v2 == rest_of(v1)",
                     "result.version == tc(content_of(%s))" % _V, "result.name == unutf8(content_of(v1))",
                     # authentication AuthenticationChoice: the third element selects the class by its context tag number
                     "isinstance(result.authentication, SimpleCredential) == (id_number(v2) == 0)",
                     "isinstance(result.authentication, SaslCredential) == (id_number(v2) == 3)",
                     "implies(id_number(v2) == 0, result.authentication.password == unutf8(content_of(v2)))",
                     "implies(id_number(v2) == 3, result.authentication.mechanism == unutf8(content_of(content_of(v2))))"])
# hints: the k-th element starts at the sum of the lengths of the elements before it (flattened form of the nested rest_of)
_OFF = lambda k: " + ".join("tlv_len(%s)" % _E(i) for i in range(k))
_FLAT = ["%s == drop(%s, %s)" % (_E(k), _V, _OFF(k)) for k in range(2, 6)]



# ExtendedRequest: requestName, then a loop that takes [1] as requestValue (last one wins) and skips everything else
_OV = "or_empty(value)"
containment("_messages:_unpack_extended_request", options=_PO,
            ensures=["result.message_id == message_id",
                     "id_class(%s) == 2" % _V, "id_number(%s) == 0" % _V, "not id_constructed(%s)" % _V,
                     "result.name == unutf8(%s)" % _C,
                     "(result.value is None) == opt_none(rest_of(%s), 1, True)" % _V,
                     "implies(result.value is not None, result.value == opt_val(rest_of(%s), 1, empty()))" % _V],
            loops={0: dict(snapshot={"v0": "reader._view"},
                           invariant=["opt_none(reader._view, 1, value is None) == opt_none(v0, 1, True)",
                                      "opt_val(reader._view, 1, %s) == opt_val(v0, 1, empty())" % _OV],
                           decreases="len(reader._view)")},
            exit_hints=["v0 == rest_of(%s)" % _V])

contract("specs.ldapmsg:lemma_nth_rest_step", requires=["k >= 0"], ensures=["nth_rest(s, k + 1) == rest_of(nth_rest(s, k))"], decreases="k")

# LDAPResult (COMPONENTS OF: read from the enclosing reader): resultCode, matchedDN, diagnosticMessage, then referral [3] if it follows
_E3 = _E(3)
_HASREF = "(len(%s) > 0 and id_class(%s) == 2 and id_number(%s) == 3)" % (_E3, _E3, _E3)
_REFC = "content_of(%s)" % _E3
containment("_messages:_unpack_ldap_result", options=_PO, local_types={"referrals": "t.List[str]"},
            witness={"v1": "reader_view_1", "v2": "reader_view_2", "v3": "reader_view_3"}, witness_sorts={"v1": "bytes", "v2": "bytes", "v3": "bytes"},
            ensures=["v1 == rest_of(%s)" % _V, "v2 == rest_of(v1)", "v3 == rest_of(v2)",
                     "result.result_code == tc(content_of(%s))" % _V,
                     "result.matched_dn == unutf8(content_of(v1))", "result.diagnostics_message == unutf8(content_of(v2))",
                     # referral [3] OPTIONAL: present exactly when the next element is context-tagged 3; then the reader has moved past it
                     "(result.referrals is not None) == (len(v3) > 0 and id_class(v3) == 2 and id_number(v3) == 3)",
                     "reader._view == (rest_of(v3) if (len(v3) > 0 and id_class(v3) == 2 and id_number(v3) == 3) else v3)",
                     # ... and its URIs are the contents of the elements of the referral, in order
                     "implies(result.referrals is not None, len(nth_rest(content_of(v3), len(result.referrals))) == 0)",
                     "implies(result.referrals is not None, forall(q, 0, len(result.referrals), len(nth_rest(content_of(v3), q)) > 0))",
                     "implies(result.referrals is not None, forall(q, 0, len(result.referrals), result.referrals[q] == unutf8(content_of(nth_rest(content_of(v3), q)))))"],
            loops={0: dict(snapshot={"r0": "referral_reader._view"},
                           invariant=["referral_reader._view == nth_rest(r0, len(referrals))",
                                      "forall(q, 0, len(referrals), referrals[q] == unutf8(content_of(nth_rest(r0, q))))",
                                      "forall(q, 0, len(referrals), len(nth_rest(r0, q)) > 0)"],
                           snapshot_each={"k0": "len(referrals)", "prev": "referrals"},
                           body_hints=["lemma_nth_rest_step(r0, k0)", "len(referrals) == k0 + 1",
                                       "forall(q, 0, k0, referrals[q] == prev[q])",
                                       "referrals[k0] == unutf8(content_of(nth_rest(r0, k0)))"],
                           decreases="len(referral_reader._view)")})

# responses built on LDAPResult: the components of the result first (callee), then optional context-tagged components read by a
# skipping loop (last one wins); v1 is the reader's view after the LDAPResult components
def _opt_loop(specs):
    inv, post = [], []
    for local, num in specs:
        inv += ["opt_none(reader._view, %d, %s is None) == opt_none(v0, %d, True)" % (num, local, num),
                "opt_val(reader._view, %d, or_empty(%s)) == opt_val(v0, %d, empty())" % (num, local, num)]
    return {0: dict(snapshot={"v0": "reader._view"}, invariant=inv, decreases="len(reader._view)")}


_RES_DEC = ["result.result.result_code == tc(content_of(%s))" % _V,
            "result.result.matched_dn == unutf8(content_of(rest_of(%s)))" % _V,
            "result.result.diagnostics_message == unutf8(content_of(rest_of(rest_of(%s))))" % _V,
            "(result.result.referrals is not None) == %s" % _HASREF]
containment("_messages:_unpack_search_result_done", options=_PO, ensures=["result.message_id == message_id"] + _RES_DEC)
containment("_messages:_unpack_bind_response", options=_PO, witness={"v1": "reader_view_1"}, witness_sorts={"v1": "bytes"},
            ensures=["result.message_id == message_id"] + _RES_DEC + [
                     "(result.server_sasl_creds is None) == opt_none(v1, 7, True)",
                     "implies(result.server_sasl_creds is not None, result.server_sasl_creds == opt_val(v1, 7, empty()))"],
            loops=_opt_loop([("sasl_creds", 7)]), exit_hints=["v0 == v1"])
containment("_messages:_unpack_extended_response", options=_PO, witness={"v1": "reader_view_1"}, witness_sorts={"v1": "bytes"},
            ensures=["result.message_id == message_id"] + _RES_DEC + [
                     "(result.name is None) == opt_none(v1, 10, True)",
                     "implies(result.name is not None, utf8(result.name) == opt_val(v1, 10, empty()))",
                     "(result.value is None) == opt_none(v1, 11, True)",
                     "implies(result.value is not None, result.value == opt_val(v1, 11, empty()))"],
            loops=_opt_loop([("name", 10), ("value", 11)]), exit_hints=["v0 == v1"])


# ---- lists of strings / octet strings read by `while reader: x = reader.read_octet_string(); xs.append(x)`
def _list_loop(reader, lst, elem):
    """Loop contract: after k iterations the reader is at the k-th suffix of the element stream r0 and lst[q] is the (decoded)
    content of the q-th element; every suffix before the k-th was non-empty (so k is the number of elements when the loop ends)."""
    return dict(snapshot={"r0": "%s._view" % reader},
                invariant=["%s._view == nth_rest(r0, len(%s))" % (reader, lst),
                           "forall(q, 0, len(%s), %s[q] == %s)" % (lst, lst, elem % "nth_rest(r0, q)"),
                           "forall(q, 0, len(%s), len(nth_rest(r0, q)) > 0)" % lst],
                snapshot_each={"k0": "len(%s)" % lst, "prev": lst},
                body_hints=["lemma_nth_rest_step(r0, k0)", "len(%s) == k0 + 1" % lst, "forall(q, 0, k0, %s[q] == prev[q])" % lst,
                            "%s[k0] == %s" % (lst, elem % "nth_rest(r0, k0)")],
                decreases="len(%s._view)" % reader)


def _list_post(lst, stream, elem):
    return ["len(nth_rest(%s, len(%s))) == 0" % (stream, lst),
            "forall(q, 0, len(%s), len(nth_rest(%s, q)) > 0)" % (lst, stream),
            "forall(q, 0, len(%s), %s[q] == %s)" % (lst, lst, elem % ("nth_rest(%s, q)" % stream))]


_STR_ELEM = "unutf8(content_of(%s))"
_OCT_ELEM = "content_of(%s)"
# SearchResultReference ::= SEQUENCE OF uri URI (the elements of the protocolOp itself)
containment("_messages:_unpack_search_result_reference", options=_PO,
            ensures=["result.message_id == message_id"] + _list_post("result.uris", _V, _STR_ELEM),
            loops={0: _list_loop("reader", "uris", _STR_ELEM)})
# PartialAttribute ::= SEQUENCE { type AttributeDescription, vals SET OF value AttributeValue }
_PA_VALS = "content_of(rest_of(%s))" % _C
containment("_messages:_unpack_partial_attribute", options=_PO,
            ensures=[_PROGRESS, "reader._view == rest_of(%s)" % _V, "id_class(%s) == 0" % _V, "id_number(%s) == 16" % _V,
                     "result.name == unutf8(content_of(%s))" % _C] + _list_post("result.values", _PA_VALS, _OCT_ELEM),
            loops={0: _list_loop("value_reader", "values", _OCT_ELEM)}, exit_hints=["r0 == %s" % _PA_VALS])


# SearchRequest (placed here: it uses the list helpers)
# the reader's view after the k-th component is the ghost reader_view_k; the chain v_k == rest_of(v_{k-1}) says the components are
# consecutive elements, each clause being a single step for the solver
_CH = {"v%d" % k: "reader_view_%d" % k for k in range(1, 8)}
containment("_messages:_unpack_search_request", options=_PO, witness=_CH, witness_sorts={w: "bytes" for w in _CH},
            loops={0: _list_loop("attributes_reader", "attributes", _STR_ELEM)}, exit_hints=["r0 == content_of(v7)"],
            ensures=["result.message_id == message_id",
                     "v1 == rest_of(%s)" % _V, "v2 == rest_of(v1)", "v3 == rest_of(v2)", "v4 == rest_of(v3)", "v5 == rest_of(v4)", "v6 == rest_of(v5)",
                     "result.base_object == unutf8(content_of(%s))" % _V,
                     "result.scope == tc(content_of(v1))", "result.deref_aliases == tc(content_of(v2))",
                     "result.size_limit == tc(content_of(v3))", "result.time_limit == tc(content_of(v4))",
                     # BOOLEAN: FALSE is the octet 00, TRUE any other octet (X.690 8.2.2)
                     "implies(len(content_of(v5)) == 1, result.types_only == (content_of(v5)[0] != 0))",
                     # filter Filter: the seventh element selects the filter class by its context tag number (v6 = where it starts)
                     "id_class(v6) == 2"] + ["isinstance(result.filter, %s) == (id_number(v6) == %d)" % (k_, n_) for k_, n_ in
                                             (("FilterAnd", 0), ("FilterOr", 1), ("FilterNot", 2), ("FilterEquality", 3), ("FilterSubstrings", 4), ("FilterGreaterOrEqual", 5),
                                              ("FilterLessOrEqual", 6), ("FilterPresent", 7), ("FilterApproxMatch", 8), ("FilterExtensibleMatch", 9))] + [
                     "implies(id_number(v6) == 7, result.filter.attribute == unutf8(content_of(v6)))",
                     # attributes AttributeSelection: the SEQUENCE that follows the filter (v7 = the view after the filter)
                     "id_class(v7) == 0", "id_number(v7) == 16"] + _list_post("result.attributes", "content_of(v7)", _STR_ELEM))

# AuthenticationChoice dispatch: the class is chosen by the context tag number; the fields are those of the chosen class's decoder
containment("_authentication:AuthenticationCredential.unpack", options=_AO,
            ensures=["id_class(%s) == 2" % _V,
                     "isinstance(result, SimpleCredential) == (id_number(%s) == 0)" % _V,
                     "isinstance(result, SaslCredential) == (id_number(%s) == 3)" % _V,
                     "reader._view == rest_of(%s)" % _V,
                     "implies(id_number(%s) == 0, result.password == unutf8(%s))" % (_V, _C),
                     "implies(id_number(%s) == 3, result.mechanism == unutf8(content_of(%s)))" % (_V, _C),
                     "implies(id_number(%s) == 3, (result.credentials is not None) == %s)" % (_V, _IS_OCTETS(_R)),
                     "implies(id_number(%s) == 3 and %s, result.credentials == content_of(%s))" % (_V, _IS_OCTETS(_R), _R)])

# SearchResultEntry ::= SEQUENCE { objectName LDAPDN, attributes PartialAttributeList }: the object name, and as many PartialAttribute
# items as the attribute list has elements (what each item is, is the postcondition of _unpack_partial_attribute; carrying it through
# the list as a nested quantified invariant is beyond the solvers' budget)
_AS = "content_of(rest_of(%s))" % _V                   # the element stream of the attribute list
containment("_messages:_unpack_search_result_entry", options=_PO,
            ensures=["result.message_id == message_id", "result.object_name == unutf8(content_of(%s))" % _V,
                     "len(nth_rest(%s, len(result.attributes))) == 0" % _AS,
                     "forall(q, 0, len(result.attributes), len(nth_rest(%s, q)) > 0)" % _AS,
                     # the q-th item carries the type of the q-th element of the list (one quantifier level: the item's name)
                     "forall(q, 0, len(result.attributes), result.attributes[q].name == unutf8(content_of(content_of(nth_rest(%s, q)))))" % _AS],
            loops={0: dict(snapshot={"r0": "attr_reader._view"},
                           invariant=["attr_reader._view == nth_rest(r0, len(attributes))",
                                      "forall(q, 0, len(attributes), len(nth_rest(r0, q)) > 0)",
                                      "forall(q, 0, len(attributes), attributes[q].name == unutf8(content_of(content_of(nth_rest(r0, q)))))"],
                           snapshot_each={"k0": "len(attributes)", "prev": "attributes"},
                           body_hints=["lemma_nth_rest_step(r0, k0)", "len(attributes) == k0 + 1", "forall(q, 0, k0, attributes[q] == prev[q])",
                                       "attributes[k0].name == unutf8(content_of(content_of(nth_rest(r0, k0))))",
                                       "forall(q, 0, k0, attributes[q].name == prev[q].name)"],
                           decreases="len(attr_reader._view)")},
            exit_hints=["r0 == %s" % _AS])

# Control ::= SEQUENCE { controlType LDAPOID, criticality BOOLEAN DEFAULT FALSE, controlValue OCTET STRING OPTIONAL }
# v1 = what follows controlType.  criticality is recognised by UNIVERSAL 1, controlValue by UNIVERSAL 4 (after the criticality if
# there is one); anything else that follows is an unrecognised trailing element and changes nothing.
_HASU = lambda s, num: "(len(%s) > 0 and id_class(%s) == 0 and id_number(%s) == %d)" % (s, s, s, num)
containment("_controls:unpack_ldap_control", options=_CO, witness={"v1": "control_reader_view_1"}, witness_sorts={"v1": "bytes"},
            ensures=[_PROGRESS, "reader._view == rest_of(%s)" % _V, "id_class(%s) == 0" % _V, "id_number(%s) == 16" % _V, "v1 == rest_of(%s)" % _C,
                     "implies(not %s, result.critical == False)" % _HASU("v1", 1),
                     "implies(%s and len(content_of(v1)) == 1, result.critical == (content_of(v1)[0] != 0))" % _HASU("v1", 1),
                     "implies(not %s, (result.value is not None) == %s)" % (_HASU("v1", 1), _HASU("v1", 4)),
                     "implies(not %s and %s, result.value == content_of(v1))" % (_HASU("v1", 1), _HASU("v1", 4)),
                     "implies(%s, (result.value is not None) == %s)" % (_HASU("v1", 1), _HASU("rest_of(v1)", 4)),
                     "implies(%s and %s, result.value == content_of(rest_of(v1)))" % (_HASU("v1", 1), _HASU("rest_of(v1)", 4))])

# pagedResultsControl value ::= SEQUENCE { size INTEGER, cookie OCTET STRING }
containment("_controls:PagedResultControl.unpack", reader=None, options=_CO,
            ensures=["result.critical == critical",
                     "implies(value is not None, result.size == tc(content_of(content_of(value))))",
                     "implies(value is not None, result.cookie == content_of(rest_of(content_of(value))))"])

# Filter ::= CHOICE: the class is selected by the context tag number of the element
_FCH = (("FilterAnd", 0), ("FilterOr", 1), ("FilterNot", 2), ("FilterEquality", 3), ("FilterSubstrings", 4), ("FilterGreaterOrEqual", 5),
        ("FilterLessOrEqual", 6), ("FilterPresent", 7), ("FilterApproxMatch", 8), ("FilterExtensibleMatch", 9))
containment("_filter:LDAPFilter.unpack", options=_FO,
            ensures=[_PROGRESS, "id_class(%s) == 2" % _V, "reader._view == rest_of(%s)" % _V] + ["isinstance(result, %s) == (id_number(%s) == %d)" % (k, _V, n) for k, n in _FCH] +
                    ["implies(id_number(%s) == 7, result.attribute == unutf8(%s))" % (_V, _C),
                     "implies(id_number(%s) == 3 or id_number(%s) == 5 or id_number(%s) == 6 or id_number(%s) == 8, "
                     "result.attribute == unutf8(content_of(%s)) and result.value == content_of(%s))" % (_V, _V, _V, _V, _C, _R)])

# MatchingRuleAssertion ::= SEQUENCE { matchingRule [1] OPTIONAL, type [2] OPTIONAL, matchValue [3], dnAttributes [4] BOOLEAN DEFAULT FALSE }
# read by a skipping loop: each of [1] / [2] / [3] is a fold over the element stream of the content (last one wins, others skipped).
# dnAttributes [4] BOOLEAN DEFAULT FALSE: absent = FALSE, present = the value of its content (FALSE only for the single octet 00).
containment("_filter:FilterExtensibleMatch.unpack", options=_FO,
            ensures=[_PROGRESS, "id_class(%s) == 2" % _V, "id_number(%s) == 9" % _V, "reader._view == rest_of(%s)" % _V,
                     "(result.rule is None) == opt_none(%s, 1, True)" % _C, "implies(result.rule is not None, utf8(result.rule) == opt_val(%s, 1, empty()))" % _C,
                     "(result.attribute is None) == opt_none(%s, 2, True)" % _C, "implies(result.attribute is not None, utf8(result.attribute) == opt_val(%s, 2, empty()))" % _C,
                     "result.value == opt_val(%s, 3, empty())" % _C,
                     "result.dn_attributes == opt_bool(%s, 4, False)" % _C],
            loops={0: dict(snapshot={"v0": "filter_reader._view"},
                           invariant=["opt_none(filter_reader._view, 1, rule is None) == opt_none(v0, 1, True)", "opt_val(filter_reader._view, 1, or_empty(rule)) == opt_val(v0, 1, empty())",
                                      "opt_none(filter_reader._view, 2, attribute is None) == opt_none(v0, 2, True)", "opt_val(filter_reader._view, 2, or_empty(attribute)) == opt_val(v0, 2, empty())",
                                      "opt_val(filter_reader._view, 3, value) == opt_val(v0, 3, empty())",
                                      "opt_bool(filter_reader._view, 4, dn_attributes) == opt_bool(v0, 4, False)"],
                           decreases="len(filter_reader._view)")},
            exit_hints=["v0 == %s" % _C])

# SubstringFilter ::= SEQUENCE { type AttributeDescription, substrings SEQUENCE OF CHOICE { initial [0], any [1], final [2] } }
# initial / final as folds over the element stream of `substrings` (a second initial / final is rejected with ValueError, so "the
# last one" is the only one); `any` is the list of the contents of all [1] elements, in order (sel_list)
_SUBS = "content_of(rest_of(%s))" % _C
containment("_filter:FilterSubstrings.unpack", options=_FO,
            ensures=[_PROGRESS, "id_class(%s) == 2" % _V, "id_number(%s) == 4" % _V, "reader._view == rest_of(%s)" % _V,
                     "result.attribute == unutf8(content_of(%s))" % _C,
                     "(result.initial is None) == opt_none(%s, 0, True)" % _SUBS, "implies(result.initial is not None, result.initial == opt_val(%s, 0, empty()))" % _SUBS,
                     "(result.final is None) == opt_none(%s, 2, True)" % _SUBS, "implies(result.final is not None, result.final == opt_val(%s, 2, empty()))" % _SUBS,
                     "result.any == sel_list(%s, 1, nil_bytes())" % _SUBS],
            loops={0: dict(snapshot={"v0": "substrings_reader._view"},
                           invariant=["opt_none(substrings_reader._view, 0, initial is None) == opt_none(v0, 0, True)", "opt_val(substrings_reader._view, 0, or_empty(initial)) == opt_val(v0, 0, empty())",
                                      "opt_none(substrings_reader._view, 2, final is None) == opt_none(v0, 2, True)", "opt_val(substrings_reader._view, 2, or_empty(final)) == opt_val(v0, 2, empty())",
                                      "sel_list(substrings_reader._view, 1, any_values) == sel_list(v0, 1, nil_bytes())"],
                           decreases="len(substrings_reader._view)")},
            exit_hints=["v0 == %s" % _SUBS])

# not [2] Filter: the inner filter's class is selected by the tag number of the (single) element inside
containment("_filter:FilterNot.unpack", options=_FO,
            ensures=[_PROGRESS, "id_class(%s) == 2" % _V, "id_number(%s) == 2" % _V, "reader._view == rest_of(%s)" % _V, "id_class(%s) == 2" % _C] +
                    ["isinstance(result.filter, %s) == (id_number(%s) == %d)" % (k_, _C, n_) for k_, n_ in _FCH])

# and [0] / or [1] SET OF Filter: as many sub-filters as the set has elements, each one of the class its own context tag number
# selects (what each sub-filter's fields are is the postcondition of the recursive call; not carried through the list)
for _n, _id in (("FilterAnd", 0), ("FilterOr", 1)):
    containment("_filter:%s.unpack" % _n, options=_FO, local_types=_LT[_n],
                ensures=[_PROGRESS, "id_class(%s) == 2" % _V, "id_number(%s) == %d" % (_V, _id), "id_constructed(%s)" % _V, "reader._view == rest_of(%s)" % _V,
                         "len(nth_rest(%s, len(result.filters))) == 0" % _C,
                         "forall(q, 0, len(result.filters), len(nth_rest(%s, q)) > 0)" % _C,
                         "forall(q, 0, len(result.filters), id_class(nth_rest(%s, q)) == 2)" % _C] +
                        ["forall(q, 0, len(result.filters), %s)" % " and ".join("(isinstance(result.filters[q], %s) == (id_number(nth_rest(%s, q)) == %d))" % (k_, _C, n_) for k_, n_ in _FCH)],
                loops={0: dict(snapshot={"r0": "%s_reader._view" % _n[6:].lower()},
                               invariant=["%s_reader._view == nth_rest(r0, len(filters))" % _n[6:].lower(),
                                          "forall(q, 0, len(filters), len(nth_rest(r0, q)) > 0)",
                                          "forall(q, 0, len(filters), id_class(nth_rest(r0, q)) == 2)"] +
                                         ["forall(q, 0, len(filters), %s)" % " and ".join("(isinstance(filters[q], %s) == (id_number(nth_rest(r0, q)) == %d))" % (k_, n_) for k_, n_ in _FCH)],
                               snapshot_each={"k0": "len(filters)", "prev": "filters"},
                               body_hints=["lemma_nth_rest_step(r0, k0)", "len(filters) == k0 + 1", "forall(q, 0, k0, filters[q] == prev[q])"],
                               decreases="len(%s_reader._view)" % _n[6:].lower())},
                exit_hints=["r0 == %s" % _C])
