# Sidecar contracts for the RFC 4515 text parser of _filter.py (LDAPFilter.from_string and the scanners below it): C15, first clause.
#
# For every text: the parser returns or raises FilterSyntaxError - every implicit exception site (indexing the view or a list,
# tuple unpacking, None) is an obligation - and the span (offset, length) reported by the error lies inside the part of the
# input the function was asked to parse, counted in octets of the UTF-8 view.  What the compiled regular expressions accept is
# not modelled (re.Pattern.match returns a match or None: both outcomes are followed); their languages are decided exactly by
# the automata stage of the same check.  str.split / bytes.split return at least one piece; nothing else is assumed of them.
EXTRAS.setdefault("exc_fields", {})["FilterSyntaxError"] = {"filter": "str", "offset": "int", "length": "int"}

_PRE = ["0 <= offset", "0 <= length", "offset + length <= len(view)"]
_SPAN = ["offset <= exc.offset", "0 <= exc.length", "exc.offset + exc.length <= offset + length"]
_SCAN = dict(params={"view": "memoryview"}, raises={"FilterSyntaxError": True}, on_raise={"FilterSyntaxError": _SPAN}, modifies=[],
             result="t.Tuple[sym:LDAPFilter, int]", ensures=["1 <= result[1]", "result[1] <= length"], decreases="length")

contract("_filter:_unpack_filter", requires=_PRE, **_SCAN,
         loops={0: dict(invariant=["len(current_view) == length", "0 <= read", "read <= length",
                                   "implies(parens_start is not None, 0 <= parens_start and parens_start < read)",
                                   "implies(parsed_filter is not None, 1 <= read)"],
                        decreases="length - read")})
contract("_filter:_unpack_complex_filter", requires=_PRE + ["length >= 1"], **_SCAN,
         loops={0: dict(invariant=["len(current_view) == length", "1 <= read", "read <= length"], decreases="length - read")})
contract("_filter:_unpack_simple_filter", requires=_PRE + ["length >= 1"], **_SCAN,
         loops={0: dict(invariant=["equals_idx == -1"]),
                1: dict(invariant=["value_length == len(current_view) - read", "len(current_view) == length", "0 <= read", "read <= length"])})

# leaves: the value un-escaper (re.sub with a callback: outside the engine's subset) is a trusted contract, exercised by the
# bounded evaluation; the extensible-match header and the substrings splitter are verified
contract("_filter:_unpack_filter_value", requires=[], ensures=[], raises={"FilterSyntaxError": True},
         on_raise={"FilterSyntaxError": ["exc.offset == offset", "exc.length == length"]}, modifies=[], trusted=True,
         note="re.Pattern.sub with a callback that raises ValueError for a malformed escape, caught and re-raised as FilterSyntaxError(offset, length) "
              "with the arguments it was given: outside the engine's Python subset; exercised by the bounded evaluation of C13 / C15")
contract("_filter:_unpack_filter_extensible_header", requires=[], ensures=[], raises={"FilterSyntaxError": True},
         on_raise={"FilterSyntaxError": ["exc.offset == offset", "exc.length == length"]}, modifies=[],
         result="t.Tuple[t.Optional[str], bool, t.Optional[str]]")
contract("_filter:_unpack_filter_substrings_value", requires=[], ensures=[], raises={"FilterSyntaxError": True},
         on_raise={"FilterSyntaxError": ["exc.offset == offset", "exc.length == length"]}, modifies=[], simple_loops=True,
         result="t.Tuple[t.Optional[bytes], t.List[bytes], t.Optional[bytes]]")

# entry point: strip, encode (surrogateescape), scan, reject trailing text.  RecursionError from the scanners (interpreter
# stack; not modelled) is caught and reported as FilterSyntaxError by the code itself.
contract("_filter:LDAPFilter.from_string", requires=[], ensures=[], raises={"FilterSyntaxError": True},
         on_raise={"FilterSyntaxError": ["0 <= exc.offset", "0 <= exc.length"]}, modifies=[], result="sym:LDAPFilter")
