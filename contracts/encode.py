# Sidecar contracts for the BER *encode* tree (_messages, _filter, _controls, _authentication): LDAPMessage.pack and
# everything below it.  Layer L2, encode direction.
#
# Totality (supports C10 / C12 / C08 / C09, where LDAPMessage.pack is the abstract function enc): packing raises nothing
# but UnicodeEncodeError - a str field holding text that has no encoding, e.g. a lone surrogate - for every message value
# whose fields conform to their annotations.  Closed world: credentials, filters and controls are instances of the
# library's own classes (the abstract base methods are not verified; a user-defined subclass is user code).
# Assumed (as for C07): INTEGER fields below 256^(2^40) in magnitude.

_K = "1099511627776"
EXTRAS["int_field_bound"] = _K      # every int / enum field of a message value: |x| < 256^(2^40)  (INTEGER contents of at most 2^40 octets, as for C07)
_ENC_RAISES = {"UnicodeEncodeError": True}
_W_OK = ("implies(writer._tag is not None, writer._tag.tag_number >= 0 and writer._tag.tag_class >= 0 and writer._tag.tag_class <= 3)")


def totality(key, options=None, writer="writer", **kw):
    params = dict(kw.pop("params", {}))
    if options:
        params["options"] = "const:" + options
    contract(key, params=params, requires=kw.pop("requires", []), ensures=kw.pop("ensures", []), raises=dict(_ENC_RAISES),
             modifies=[writer + "._data"] if writer else [], **kw)


_AO = "AuthenticationOptions()"
totality("_authentication:SimpleCredential.pack", options=_AO)
totality("_authentication:SaslCredential.pack", options=_AO)
contract("_authentication:AuthenticationCredential.pack", params={"options": "const:" + _AO}, requires=[], ensures=[], raises=dict(_ENC_RAISES),
         modifies=["writer._data"], trusted=True,
         note="abstract method: the contract every concrete credential class is verified against (closed world: SimpleCredential, SaslCredential)")

_CO = "ControlOptions()"
totality("_controls:LDAPControl.pack", options=_CO)
contract("_controls:LDAPControl.get_value", params={"options": "const:" + _CO}, requires=[], ensures=[], raises={}, modifies=[])
contract("_controls:PagedResultControl.get_value", params={"options": "const:" + _CO},
         requires=[], ensures=[], raises={}, modifies=[])

_FO = "FilterOptions()"
contract("_filter:LDAPFilter.pack", params={"options": "const:" + _FO}, requires=[], ensures=[], raises=dict(_ENC_RAISES),
         modifies=["writer._data"], trusted=True,
         note="abstract method: the contract every concrete filter class is verified against (closed world: the ten RFC 4511 choices)")
for _n in ("FilterAnd", "FilterOr", "FilterNot", "FilterEquality", "FilterSubstrings", "FilterGreaterOrEqual", "FilterLessOrEqual",
           "FilterPresent", "FilterApproxMatch", "FilterExtensibleMatch"):
    totality("_filter:%s.pack" % _n, options=_FO, simple_loops=True)

_PO = "PackingOptions()"
for _n in ("BindRequest", "BindResponse", "ExtendedRequest", "ExtendedResponse", "SearchRequest", "SearchResultDone", "SearchResultEntry",
           "SearchResultReference", "LDAPResult", "PartialAttribute", "LDAPMessage"):
    totality("_messages:%s._pack_inner" % _n, options=_PO, simple_loops=True)

# The envelope.  At L3 (contracts/session.py) LDAPMessage.pack is the abstract total function enc(msg, options); here its body
# is verified under a second contract key: it returns (or raises UnicodeEncodeError) for every message value.
contract("_messages:LDAPMessage.pack[totality]", params={"options": "const:" + _PO}, requires=[], ensures=["len(result) >= 2"], raises=dict(_ENC_RAISES),
         modifies=[], simple_loops=True, bind_witness={"__exit__.w": "w"}, exit_hints=["lemma_tlv_prefix(w, empty())"])

# ================================================================================================ encoding relation (C03)
# RFC 4511 encoding relation, encode direction, stated in the style of the writer contracts of C07: what a function
# appends is a concatenation of elements e_i, each of which is *exactly one* TLV with the stated class / form / number,
# minimal identifier and length octets (tlv_of) and the stated content; INTEGER / ENUMERATED contents are the minimal
# two's-complement octets of the value (tc, minimal_tc).  By lemma_tlv_roundtrip (unique readability, proved under C07)
# any strict X.690 decoder reads such a concatenation back element by element.
_SHAPE_BIND = {"write_enumerated.w": "we", "write_enumerated.c": "ce", "write_integer.w": "wi", "write_integer.c": "ci",
               "write_octet_string.w": "ws", "write_boolean.w": "wb", "__exit__.w": "wx"}


def shape(key, options, witness, ensures, **kw):
    contract(key, params={"options": "const:" + options}, requires=[], raises=dict(_ENC_RAISES), modifies=["writer._data"],
             witness=witness, witness_sorts={w: "bytes" for w in witness}, bind_witness=dict(_SHAPE_BIND), ensures=ensures, simple_loops=True, **kw)


# LDAPResult ::= SEQUENCE { resultCode ENUMERATED, matchedDN LDAPDN, diagnosticMessage LDAPString, referral [3] Referral OPTIONAL }
# (COMPONENTS OF: the three / four elements are appended to the enclosing writer)
_RES = "e_code + e_dn + e_msg + (e_ref if %s.referrals is not None else empty())"
_RES_FACTS = lambda r: [
    "tlv_of(e_code, 0, False, 10, c_code)", "len(c_code) >= 1", "tc(c_code) == %s.result_code" % r, "minimal_tc(c_code)",
    "tlv_of(e_dn, 0, False, 4, utf8(%s.matched_dn))" % r,
    "tlv_of(e_msg, 0, False, 4, utf8(%s.diagnostics_message))" % r,
    # Referral ::= SEQUENCE OF uri URI, tagged [3]
    "implies(%s.referrals is not None, tlv_of(e_ref, 2, True, 3, c_ref))" % r,
    "implies(%s.referrals is not None, strs_enc(c_ref, %s.referrals, 0, len(%s.referrals), 0, 4))" % (r, r, r)]


def str_loop(buf, xs, cls=0, num=4, kind="strs"):
    """Loop contract of  `for x in xs: buf.write_octet_string(<x>)`: after k iterations buf holds the elements of xs[0:k]."""
    return dict(invariant=["%s_enc(%s._data, %s, 0, _i0, %d, %d)" % (kind, buf, xs, cls, num)],
                snapshot_each={"prev": "%s._data" % buf},
                body_hints=["lemma_%s_snoc(prev, %s, 0, _i0 - 1, %d, %d, ws)" % (kind, xs, cls, num)])


shape("_messages:LDAPResult._pack_inner", _PO,
      witness={"e_code": "we_1", "c_code": "ce_1", "e_dn": "ws_1", "e_msg": "ws_2", "e_ref": "wx_1", "c_ref": "referrals._data"},
      ensures=["writer._data == old(writer._data) + " + _RES % "self"] + _RES_FACTS("self"),
      loops={0: str_loop("referrals", "self.referrals")})

# BindResponse ::= [APPLICATION 1] SEQUENCE { COMPONENTS OF LDAPResult, serverSaslCreds [7] OCTET STRING OPTIONAL }
_RES_BIND = {"_pack_inner.e_code": "e_code", "_pack_inner.c_code": "c_code", "_pack_inner.e_dn": "e_dn", "_pack_inner.e_msg": "e_msg",
             "_pack_inner.e_ref": "e_ref", "_pack_inner.c_ref": "c_ref"}
_RES_W = {"e_code": "e_code", "c_code": "c_code", "e_dn": "e_dn", "e_msg": "e_msg", "e_ref": "e_ref", "c_ref": "c_ref"}


def result_shape(key, extra_witness, tail, extra_facts):
    contract(key, params={"options": "const:" + _PO}, requires=[], raises=dict(_ENC_RAISES), modifies=["writer._data"],
             witness=dict(_RES_W, **extra_witness), witness_sorts={w: "bytes" for w in list(_RES_W) + list(extra_witness)},
             bind_witness=dict(_SHAPE_BIND, **_RES_BIND),
             ensures=["writer._data == old(writer._data) + " + _RES % "self.result" + tail] + _RES_FACTS("self.result") + extra_facts)


result_shape("_messages:SearchResultDone._pack_inner", {}, "", [])
result_shape("_messages:BindResponse._pack_inner", {"e_creds": "ws_1"},
             " + (e_creds if self.server_sasl_creds is not None else empty())",
             ["implies(self.server_sasl_creds is not None, tlv_of(e_creds, 2, False, 7, self.server_sasl_creds))"])
# ExtendedResponse ::= [APPLICATION 24] SEQUENCE { COMPONENTS OF LDAPResult, responseName [10] LDAPOID OPTIONAL, responseValue [11] OCTET STRING OPTIONAL }
result_shape("_messages:ExtendedResponse._pack_inner", {"e_name": "ws_s1", "e_value": "ws_s2"},
             " + (e_name if self.name is not None else empty()) + (e_value if self.value is not None else empty())",
             ["implies(self.name is not None, tlv_of(e_name, 2, False, 10, utf8(self.name)))",
              "implies(self.value is not None, tlv_of(e_value, 2, False, 11, self.value))"])

# AuthenticationChoice ::= CHOICE { simple [0] OCTET STRING, sasl [3] SaslCredentials }
# SaslCredentials ::= SEQUENCE { mechanism LDAPString, credentials OCTET STRING OPTIONAL }
_ONE = ["writer._data == old(writer._data) + e"]          # the function appends exactly one element e
contract("_authentication:AuthenticationCredential.pack", params={"options": "const:" + _AO}, requires=[], raises=dict(_ENC_RAISES),
         modifies=["writer._data"], witness={"e": "e"}, witness_sorts={"e": "bytes"}, ensures=_ONE, trusted=True,
         note="abstract method: the contract every concrete credential class is verified against (closed world: SimpleCredential, SaslCredential); "
              "what the one appended element is, is stated by the contract of the concrete class")
shape("_authentication:SimpleCredential.pack", _AO, {"e": "ws_1"},
      _ONE + ["tlv_of(e, 2, False, 0, utf8(self.password))"])
shape("_authentication:SaslCredential.pack", _AO, {"e": "wx_1", "e_mech": "ws_s1", "e_cred": "ws_s2"},
      _ONE + ["tlv_of(e, 2, True, 3, e_mech + (e_cred if self.credentials is not None else empty()))",
              "tlv_of(e_mech, 0, False, 4, utf8(self.mechanism))",
              "implies(self.credentials is not None, tlv_of(e_cred, 0, False, 4, self.credentials))"])

# ExtendedRequest ::= [APPLICATION 23] SEQUENCE { requestName [0] LDAPOID, requestValue [1] OCTET STRING OPTIONAL }
shape("_messages:ExtendedRequest._pack_inner", _PO, {"e_name": "ws_s1", "e_value": "ws_s2"},
      ["writer._data == old(writer._data) + e_name + (e_value if self.value is not None else empty())",
       "tlv_of(e_name, 2, False, 0, utf8(self.name))",
       "implies(self.value is not None, tlv_of(e_value, 2, False, 1, self.value))"])

# BindRequest ::= [APPLICATION 0] SEQUENCE { version INTEGER (1 .. 127), name LDAPDN, authentication AuthenticationChoice }
contract("_messages:BindRequest._pack_inner", params={"options": "const:" + _PO}, requires=[], raises=dict(_ENC_RAISES), modifies=["writer._data"],
         witness={"e_ver": "wi_1", "c_ver": "ci_1", "e_name": "ws_1", "e_auth": "e_auth"},
         witness_sorts={"e_ver": "bytes", "c_ver": "bytes", "e_name": "bytes", "e_auth": "bytes"},
         bind_witness=dict(_SHAPE_BIND, **{"pack.e": "e_auth"}),
         ensures=["writer._data == old(writer._data) + e_ver + e_name + e_auth",
                  "tlv_of(e_ver, 0, False, 2, c_ver)", "len(c_ver) >= 1", "tc(c_ver) == self.version", "minimal_tc(c_ver)",
                  "tlv_of(e_name, 0, False, 4, utf8(self.name))"])

# UnbindRequest ::= [APPLICATION 2] NULL: nothing inside the protocolOp element (LDAPMessage._pack_inner is inherited)
contract("_messages:LDAPMessage._pack_inner", params={"options": "const:" + _PO}, requires=[], raises={}, modifies=["writer._data"],
         ensures=["writer._data == old(writer._data)"])

# Filter ::= CHOICE { ... equalityMatch [3] AttributeValueAssertion, greaterOrEqual [5], lessOrEqual [6], present [7] AttributeDescription,
#                     approxMatch [8], extensibleMatch [9] MatchingRuleAssertion, not [2] Filter ... }
# AttributeValueAssertion ::= SEQUENCE { attributeDesc AttributeDescription, assertionValue AssertionValue }
contract("_filter:LDAPFilter.pack", params={"options": "const:" + _FO}, requires=[], raises=dict(_ENC_RAISES),
         modifies=["writer._data"], witness={"e": "e"}, witness_sorts={"e": "bytes"}, ensures=_ONE, trusted=True,
         note="abstract method: the contract every concrete filter class is verified against (closed world: the ten RFC 4511 choices); "
              "what the one appended element is, is stated by the contract of the concrete class")
for _n, _id in (("FilterEquality", 3), ("FilterGreaterOrEqual", 5), ("FilterLessOrEqual", 6), ("FilterApproxMatch", 8)):
    shape("_filter:%s.pack" % _n, _FO, {"e": "wx_1", "e_attr": "ws_s1", "e_val": "ws_s2"},
          _ONE + ["tlv_of(e, 2, True, %d, e_attr + e_val)" % _id,
                  "tlv_of(e_attr, 0, False, 4, utf8(self.attribute))", "tlv_of(e_val, 0, False, 4, self.value)"])
shape("_filter:FilterPresent.pack", _FO, {"e": "ws_1"}, _ONE + ["tlv_of(e, 2, False, 7, utf8(self.attribute))"])
contract("_filter:FilterNot.pack", params={"options": "const:" + _FO}, requires=[], raises=dict(_ENC_RAISES), modifies=["writer._data"],
         witness={"e": "wx_1", "e_inner": "e_inner"}, witness_sorts={"e": "bytes", "e_inner": "bytes"},
         bind_witness=dict(_SHAPE_BIND, **{"pack.e": "e_inner"}),
         ensures=_ONE + ["tlv_of(e, 2, True, 2, e_inner)"])
# MatchingRuleAssertion ::= SEQUENCE { matchingRule [1] MatchingRuleId OPTIONAL, type [2] AttributeDescription OPTIONAL,
#                                      matchValue [3] AssertionValue, dnAttributes [4] BOOLEAN DEFAULT FALSE }
shape("_filter:FilterExtensibleMatch.pack", _FO, {"e": "wx_1", "e_rule": "ws_s1", "e_type": "ws_s2", "e_val": "ws_s3", "e_dn": "wb_1"},
      _ONE + ["tlv_of(e, 2, True, 9, (e_rule if self.rule is not None else empty()) + (e_type if self.attribute is not None else empty()) + e_val + "
              "(e_dn if self.dn_attributes else empty()))",
              "implies(self.rule is not None, tlv_of(e_rule, 2, False, 1, utf8(self.rule)))",
              "implies(self.attribute is not None, tlv_of(e_type, 2, False, 2, utf8(self.attribute)))",
              "tlv_of(e_val, 2, False, 3, self.value)",
              # DEFAULT FALSE is omitted; TRUE is the octet FF
              "implies(self.dn_attributes, tlv_of(e_dn, 2, False, 4, seq1(255)))"])

# LDAPMessage ::= SEQUENCE { messageID MessageID, protocolOp CHOICE { ... [APPLICATION n] ... }, controls [0] Controls OPTIONAL }
# The protocolOp element is constructed for every operation except UnbindRequest ::= [APPLICATION 2] NULL, which is primitive.
contract("_messages:LDAPMessage.pack[totality]", params={"options": "const:" + _PO}, requires=[], raises=dict(_ENC_RAISES), modifies=[], simple_loops=True,
         witness={"e_env": "wx_s1", "e_id": "wi_1", "c_id": "ci_1", "e_op": "wx_s2", "inner": "inner._data", "e_ctrls": "wx_s3", "c_ctrls": "control_writer._data"},
         witness_sorts={w: "bytes" for w in ("e_env", "e_id", "c_id", "e_op", "inner", "e_ctrls", "c_ctrls")},
         bind_witness=dict(_SHAPE_BIND),
         ensures=["len(result) >= 2",
                  "result == e_env",
                  "tlv_of(e_env, 0, True, 16, e_id + e_op + (e_ctrls if len(self.controls) > 0 else empty()))",
                  "tlv_of(e_id, 0, False, 2, c_id)", "len(c_id) >= 1", "tc(c_id) == self.message_id", "minimal_tc(c_id)",
                  # protocolOp: [APPLICATION tag_number]; `inner` is what the message class's _pack_inner appended to an empty writer
                  "implies(self.tag_number != 2, tlv_of(e_op, 1, True, self.tag_number, inner))",
                  "implies(self.tag_number == 2, tlv_of(e_op, 1, False, self.tag_number, inner))",
                  "implies(len(self.controls) > 0, tlv_of(e_ctrls, 2, True, 0, c_ctrls))"],
         exit_hints=["lemma_tlv_prefix(e_env, empty())"], timeout=6000)

# ---- repeated components: snoc lemmas (specs/ldapmsg.py)
for _k, _c in (("strs", "utf8(xs[n])"), ("octs", "xs[n]")):
    contract("specs.ldapmsg:lemma_%s_snoc" % _k,
             requires=["%s_enc(s, xs, i, n, cls, num)" % _k, "0 <= i", "i <= n", "n < len(xs)", "tlv_of(w, cls, False, num, %s)" % _c],
             ensures=["%s_enc(cat(s, w), xs, i, n + 1, cls, num)" % _k],
             decreases="n - i")

# SearchResultReference ::= [APPLICATION 19] SEQUENCE SIZE (1..MAX) OF uri URI   (elements appended to the protocolOp writer itself)
_APP = "drop(writer._data, len(old(writer._data)))"       # what this call has appended so far
shape("_messages:SearchResultReference._pack_inner", _PO, {"E": _APP},
      ["writer._data == old(writer._data) + E", "strs_enc(E, self.uris, 0, len(self.uris), 0, 4)"],
      loops={0: dict(invariant=["writer._data == old(writer._data) + " + _APP, "strs_enc(%s, self.uris, 0, _i0, 0, 4)" % _APP],
                     snapshot_each={"prev": _APP},
                     body_hints=[_APP + " == prev + ws", "lemma_strs_snoc(prev, self.uris, 0, _i0 - 1, 0, 4, ws)"])})

# PartialAttribute ::= SEQUENCE { type AttributeDescription, vals SET OF value AttributeValue }
shape("_messages:PartialAttribute._pack_inner", _PO, {"e": "wx_s1", "e_type": "ws_s1", "e_vals": "wx_s2", "c_vals": "values._data"},
      _ONE + ["tlv_of(e, 0, True, 16, e_type + e_vals)", "tlv_of(e_type, 0, False, 4, utf8(self.name))",
              "tlv_of(e_vals, 0, True, 17, c_vals)", "octs_enc(c_vals, self.values, 0, len(self.values), 0, 4)"],
      loops={0: str_loop("values", "self.values", kind="octs")})

# SubstringFilter ::= SEQUENCE { type AttributeDescription, substrings SEQUENCE SIZE (1..MAX) OF substring CHOICE {
#                                initial [0] AssertionValue, any [1] AssertionValue, final [2] AssertionValue } }
shape("_filter:FilterSubstrings.pack", _FO,
      {"e": "wx_s1", "e_type": "ws_s1", "e_subs": "wx_s2", "e_init": "ws_s2", "c_any": "c_any", "e_final": "ws_s4"},
      _ONE + ["tlv_of(e, 2, True, 4, e_type + e_subs)", "tlv_of(e_type, 0, False, 4, utf8(self.attribute))",
              "tlv_of(e_subs, 0, True, 16, (e_init if self.initial is not None else empty()) + c_any + (e_final if self.final is not None else empty()))",
              "implies(self.initial is not None, tlv_of(e_init, 2, False, 0, self.initial))",
              "octs_enc(c_any, self.any, 0, len(self.any), 2, 1)",
              "implies(self.final is not None, tlv_of(e_final, 2, False, 2, self.final))"],
      loops={0: dict(ghost_init={"base": "value_writer._data"},
                     invariant=["value_writer._data == base + drop(value_writer._data, len(base))",
                                "octs_enc(drop(value_writer._data, len(base)), self.any, 0, _i0, 2, 1)"],
                     snapshot_each={"prev": "drop(value_writer._data, len(base))"},
                     body_hints=["drop(value_writer._data, len(base)) == prev + ws", "lemma_octs_snoc(prev, self.any, 0, _i0 - 1, 2, 1, ws)"],
                     exit_snapshot={"c_any": "drop(value_writer._data, len(base))"})})

# and [0] / or [1] SET SIZE (1..MAX) OF filter Filter: one constructed element; its content is what the element encoders
# (each verified against its own contract) appended - the accumulation over the list is not carried as an invariant
for _n, _id in (("FilterAnd", 0), ("FilterOr", 1)):
    shape("_filter:%s.pack" % _n, _FO, {"e": "wx_1", "c": "w._data"}, _ONE + ["tlv_of(e, 2, True, %d, c)" % _id])

# SearchResultEntry ::= [APPLICATION 4] SEQUENCE { objectName LDAPDN, attributes PartialAttributeList }
shape("_messages:SearchResultEntry._pack_inner", _PO, {"e_name": "ws_1", "e_attrs": "wx_1", "c_attrs": "attr_writer._data"},
      ["writer._data == old(writer._data) + e_name + e_attrs", "tlv_of(e_name, 0, False, 4, utf8(self.object_name))",
       "tlv_of(e_attrs, 0, True, 16, c_attrs)"])

# SearchRequest ::= [APPLICATION 3] SEQUENCE { baseObject LDAPDN, scope ENUMERATED, derefAliases ENUMERATED, sizeLimit INTEGER,
#                   timeLimit INTEGER, typesOnly BOOLEAN, filter Filter, attributes AttributeSelection }
contract("_messages:SearchRequest._pack_inner", params={"options": "const:" + _PO}, requires=[], raises=dict(_ENC_RAISES), modifies=["writer._data"],
         witness={"e_base": "ws_s1", "e_scope": "we_s1", "c_scope": "ce_s1", "e_deref": "we_s2", "c_deref": "ce_s2", "e_size": "wi_s1", "c_size": "ci_s1",
                  "e_time": "wi_s2", "c_time": "ci_s2", "e_types": "wb_1", "e_filter": "e_filter", "e_attrs": "wx_1", "c_attrs": "attr_writer._data"},
         witness_sorts={w: "bytes" for w in ("e_base", "e_scope", "c_scope", "e_deref", "c_deref", "e_size", "c_size", "e_time", "c_time", "e_types", "e_filter", "e_attrs", "c_attrs")},
         bind_witness=dict(_SHAPE_BIND, **{"pack.e": "e_filter"}), simple_loops=True,
         ensures=["writer._data == old(writer._data) + e_base + e_scope + e_deref + e_size + e_time + e_types + e_filter + e_attrs",
                  "tlv_of(e_base, 0, False, 4, utf8(self.base_object))",
                  "tlv_of(e_scope, 0, False, 10, c_scope)", "len(c_scope) >= 1", "tc(c_scope) == self.scope", "minimal_tc(c_scope)",
                  "tlv_of(e_deref, 0, False, 10, c_deref)", "len(c_deref) >= 1", "tc(c_deref) == self.deref_aliases", "minimal_tc(c_deref)",
                  "tlv_of(e_size, 0, False, 2, c_size)", "len(c_size) >= 1", "tc(c_size) == self.size_limit", "minimal_tc(c_size)",
                  "tlv_of(e_time, 0, False, 2, c_time)", "len(c_time) >= 1", "tc(c_time) == self.time_limit", "minimal_tc(c_time)",
                  "tlv_of(e_types, 0, False, 1, seq1(255 if self.types_only else 0))",
                  "tlv_of(e_attrs, 0, True, 16, c_attrs)", "strs_enc(c_attrs, self.attributes, 0, len(self.attributes), 0, 4)"],
         loops={0: str_loop("attr_writer", "self.attributes")})

# Control ::= SEQUENCE { controlType LDAPOID, criticality BOOLEAN DEFAULT FALSE, controlValue OCTET STRING OPTIONAL }
# get_value is overridden by the known control types (PagedResultControl builds its value): the contract at the dispatch site says
# only that it returns; what the value is, is stated per class
contract("_controls:LDAPControl.get_value", params={"options": "const:" + _CO}, requires=[], raises={}, modifies=[], ensures=[])
contract("_controls:LDAPControl.pack", params={"options": "const:" + _CO}, requires=[], raises=dict(_ENC_RAISES), modifies=["writer._data"],
         witness={"e": "wx_1", "e_type": "ws_s1", "e_crit": "wb_1", "e_val": "ws_s2", "val": "value"},
         witness_sorts={"e": "bytes", "e_type": "bytes", "e_crit": "bytes", "e_val": "bytes", "val": "t.Optional[bytes]"},
         bind_witness=dict(_SHAPE_BIND),
         ensures=_ONE + ["tlv_of(e, 0, True, 16, e_type + (e_crit if self.critical else empty()) + (e_val if val is not None else empty()))",
                         "tlv_of(e_type, 0, False, 4, utf8(self.control_type))",
                         # DEFAULT FALSE is omitted, TRUE is FF
                         "implies(self.critical, tlv_of(e_crit, 0, False, 1, seq1(255)))",
                         # the value octets are what get_value returns for this control (the raw value for unknown controls, see get_value)
                         "implies(val is not None, tlv_of(e_val, 0, False, 4, val))"])
# pagedResultsControl value ::= SEQUENCE { size INTEGER, cookie OCTET STRING }  (RFC 2696)
contract("_controls:PagedResultControl.get_value", params={"options": "const:" + _CO}, requires=[], raises={}, modifies=[],
         witness={"e": "wx_1", "e_size": "wi_1", "c_size": "ci_1", "e_cookie": "ws_1"}, witness_sorts={w: "bytes" for w in ("e", "e_size", "c_size", "e_cookie")},
         bind_witness=dict(_SHAPE_BIND), result="bytes",
         ensures=["result == e", "tlv_of(e, 0, True, 16, e_size + e_cookie)",
                  "tlv_of(e_size, 0, False, 2, c_size)", "len(c_size) >= 1", "tc(c_size) == self.size", "minimal_tc(c_size)",
                  "tlv_of(e_cookie, 0, False, 4, self.cookie)"])

# ---- round trips (C01): the decoder's postcondition applied to the octets the encoder's postcondition describes
_XR = "cat(e_name, ite(has_value, e_value, empty()))"
contract("specs.ldapmsg:lemma_rt_extended_request",
         requires=["tlv_of(e_name, 2, False, 0, name_b)", "implies(has_value, tlv_of(e_value, 2, False, 1, value))"],
         ensures=["id_class(%s) == 2" % _XR, "id_number(%s) == 0" % _XR, "not id_constructed(%s)" % _XR,
                  "content_of(%s) == name_b" % _XR,
                  "opt_none(rest_of(%s), 1, True) == (not has_value)" % _XR,
                  "implies(has_value, opt_val(rest_of(%s), 1, empty()) == value)" % _XR])
contract("specs.ldapmsg:lemma_strs_enc_nth",
         requires=["strs_enc(s, xs, i, n, cls, num)", "0 <= i", "i <= q", "q < n", "n <= len(xs)"],
         ensures=["content_of(nth_rest(s, q - i)) == utf8(xs[q])"], decreases="q - i")
contract("specs.ldapmsg:lemma_strs_enc_end",
         requires=["strs_enc(s, xs, i, n, cls, num)", "0 <= i", "i <= n", "n <= len(xs)"],
         ensures=["len(nth_rest(s, n - i)) == 0"], decreases="n - i")
_ONE_OPT = "ite(has, e, empty())"
contract("specs.ldapmsg:lemma_opt_single",
         requires=["implies(has, tlv_of(e, 2, False, num, value))", "other != num"],
         ensures=["opt_none(%s, num, True) == (not has)" % _ONE_OPT, "implies(has, opt_val(%s, num, empty()) == value)" % _ONE_OPT,
                  "opt_none(%s, other, True)" % _ONE_OPT])
_PAIR = "cat(ite(has_a, ea, empty()), ite(has_b, eb, empty()))"
contract("specs.ldapmsg:lemma_opt_pair",
         requires=["implies(has_a, tlv_of(ea, 2, False, na, va))", "implies(has_b, tlv_of(eb, 2, False, nb, vb))", "na != nb"],
         ensures=["opt_none(%s, na, True) == (not has_a)" % _PAIR, "implies(has_a, opt_val(%s, na, empty()) == va)" % _PAIR,
                  "opt_none(%s, nb, True) == (not has_b)" % _PAIR, "implies(has_b, opt_val(%s, nb, empty()) == vb)" % _PAIR])
_LR = "cat(e_code, e_dn, e_msg, ite(has_ref, e_ref, empty()), tail)"
_LR3 = "rest_of(rest_of(rest_of(%s)))" % _LR
contract("specs.ldapmsg:lemma_rt_ldap_result",
         requires=["tlv_of(e_code, 0, False, 10, c_code)", "tlv_of(e_dn, 0, False, 4, dn_b)", "tlv_of(e_msg, 0, False, 4, msg_b)",
                   "implies(has_ref, tlv_of(e_ref, 2, True, 3, c_ref))",
                   # what follows the result is not itself tagged [3] (BindResponse continues with [7], ExtendedResponse with [10] / [11])
                   "implies(not has_ref, len(tail) == 0 or not (id_class(tail) == 2 and id_number(tail) == 3))"],
         ensures=["content_of(%s) == c_code" % _LR, "content_of(rest_of(%s)) == dn_b" % _LR, "content_of(rest_of(rest_of(%s))) == msg_b" % _LR,
                  "(len(%s) > 0 and id_class(%s) == 2 and id_number(%s) == 3) == has_ref" % (_LR3, _LR3, _LR3),
                  "implies(has_ref, content_of(%s) == c_ref and rest_of(%s) == tail)" % (_LR3, _LR3),
                  "implies(not has_ref, %s == tail)" % _LR3])

# round trip theorems: hypotheses = the encoder's postcondition (witness style, as in the *_pack_inner contracts above) and the
# decoder's postcondition (as in contracts/decode.py, with old(reader._view) := the octets E the encoder produced)
_ENC_RES = ["tlv_of(e_code, 0, False, 10, c_code)", "len(c_code) >= 1", "tc(c_code) == code", "tlv_of(e_dn, 0, False, 4, dn_b)", "tlv_of(e_msg, 0, False, 4, msg_b)",
            "implies(has_ref, tlv_of(e_ref, 2, True, 3, c_ref))"]


def _dec_res(E, after):
    e3 = "rest_of(rest_of(rest_of(%s)))" % E
    hasref = "(len(%s) > 0 and id_class(%s) == 2 and id_number(%s) == 3)" % (e3, e3, e3)
    return (["d_code == tc(content_of(%s))" % E, "d_dn_b == content_of(rest_of(%s))" % E, "d_msg_b == content_of(rest_of(rest_of(%s)))" % E,
             "d_has_ref == %s" % hasref], "(rest_of(%s) if %s else %s)" % (e3, hasref, e3))


_EB = "cat(e_code, e_dn, e_msg, ite(has_ref, e_ref, empty()), ite(has_creds, e_creds, empty()))"
_DB, _VB = _dec_res(_EB, None)
contract("specs.ldapmsg:thm_rt_bind_response",
         requires=_ENC_RES + ["implies(has_creds, tlv_of(e_creds, 2, False, 7, creds))"] + _DB +
                  ["d_creds_none == opt_none(%s, 7, True)" % _VB, "implies(not d_creds_none, d_creds == opt_val(%s, 7, empty()))" % _VB],
         ensures=["d_code == code", "d_dn_b == dn_b", "d_msg_b == msg_b", "d_has_ref == has_ref",
                  "d_creds_none == (not has_creds)", "implies(has_creds, d_creds == creds)"])
_EX = "cat(e_code, e_dn, e_msg, ite(has_ref, e_ref, empty()), ite(has_name, e_name, empty()), ite(has_value, e_value, empty()))"
_DX, _VX = _dec_res(_EX, None)
contract("specs.ldapmsg:thm_rt_extended_response",
         requires=_ENC_RES + ["implies(has_name, tlv_of(e_name, 2, False, 10, name_b))", "implies(has_value, tlv_of(e_value, 2, False, 11, value))"] + _DX +
                  ["d_name_none == opt_none(%s, 10, True)" % _VX, "implies(not d_name_none, d_name_b == opt_val(%s, 10, empty()))" % _VX,
                   "d_value_none == opt_none(%s, 11, True)" % _VX, "implies(not d_value_none, d_value == opt_val(%s, 11, empty()))" % _VX],
         ensures=["d_code == code", "d_dn_b == dn_b", "d_msg_b == msg_b", "d_has_ref == has_ref",
                  "d_name_none == (not has_name)", "implies(has_name, d_name_b == name_b)",
                  "d_value_none == (not has_value)", "implies(has_value, d_value == value)"])
contract("specs.ldapmsg:lemma_strs_enc_nonempty",
         requires=["strs_enc(s, xs, i, n, cls, num)", "0 <= i", "i <= q", "q < n", "n <= len(xs)"],
         ensures=["len(nth_rest(s, q - i)) > 0"], decreases="q - i")
contract("specs.ldapmsg:thm_rt_referrals",
         requires=["strs_enc(c_ref, xs, 0, n, 0, 4)", "0 <= n", "n <= len(xs)", "0 <= count",
                   # the decoder's postcondition about the list it built (contracts/decode.py, _unpack_ldap_result)
                   "len(nth_rest(c_ref, count)) == 0", "forall(k, 0, count, len(nth_rest(c_ref, k)) > 0)"],
         ensures=["count == n", "implies(0 <= q and q < n, unutf8(content_of(nth_rest(c_ref, q))) == unutf8(utf8(xs[q])))"])
contract("specs.ldapmsg:lemma_octs_enc_nth",
         requires=["octs_enc(s, xs, i, n, cls, num)", "0 <= i", "i <= q", "q < n", "n <= len(xs)"],
         ensures=["content_of(nth_rest(s, q - i)) == xs[q]"], decreases="q - i")
contract("specs.ldapmsg:lemma_octs_enc_end",
         requires=["octs_enc(s, xs, i, n, cls, num)", "0 <= i", "i <= n", "n <= len(xs)"],
         ensures=["len(nth_rest(s, n - i)) == 0"], decreases="n - i")
contract("specs.ldapmsg:lemma_octs_enc_nonempty",
         requires=["octs_enc(s, xs, i, n, cls, num)", "0 <= i", "i <= q", "q < n", "n <= len(xs)"],
         ensures=["len(nth_rest(s, q - i)) > 0"], decreases="q - i")
contract("specs.ldapmsg:thm_rt_octs",
         requires=["octs_enc(c, xs, 0, n, 0, 4)", "0 <= n", "n <= len(xs)", "0 <= count",
                   "len(nth_rest(c, count)) == 0", "forall(k, 0, count, len(nth_rest(c, k)) > 0)"],
         ensures=["count == n", "implies(0 <= q and q < n, content_of(nth_rest(c, q)) == xs[q])"])

_AVA = "cat(e, tail)"
contract("specs.ldapmsg:thm_rt_ava_filter",
         requires=["tlv_of(e, 2, True, num, cat(e_attr, e_val))", "tlv_of(e_attr, 0, False, 4, attr_b)", "tlv_of(e_val, 0, False, 4, val)"],
         # decoder (contracts/decode.py, _unpack_filter_attribute_value_assertion): class 2, number, constructed; attribute / value from the content
         ensures=["id_class(%s) == 2" % _AVA, "id_number(%s) == num" % _AVA, "id_constructed(%s)" % _AVA, "rest_of(%s) == tail" % _AVA,
                  "content_of(content_of(%s)) == attr_b" % _AVA, "content_of(rest_of(content_of(%s))) == val" % _AVA])
_BRS = "cat(e_ver, e_name, e_auth)"
contract("specs.ldapmsg:thm_rt_bind_request_simple",
         requires=["tlv_of(e_ver, 0, False, 2, c_ver)", "tlv_of(e_name, 0, False, 4, name_b)", "tlv_of(e_auth, 2, False, 0, pw_b)"],
         ensures=["content_of(%s) == c_ver" % _BRS, "content_of(rest_of(%s)) == name_b" % _BRS,
                  "id_class(rest_of(rest_of(%s))) == 2" % _BRS, "id_number(rest_of(rest_of(%s))) == 0" % _BRS,
                  "content_of(rest_of(rest_of(%s))) == pw_b" % _BRS])
_SASL_C = "content_of(rest_of(rest_of(%s)))" % _BRS
_IS_O = lambda s: "(len(%s) > 0 and id_class(%s) == 0 and id_number(%s) == 4 and not id_constructed(%s))" % (s, s, s, s)
contract("specs.ldapmsg:thm_rt_bind_request_sasl",
         requires=["tlv_of(e_ver, 0, False, 2, c_ver)", "tlv_of(e_name, 0, False, 4, name_b)",
                   "tlv_of(e_auth, 2, True, 3, cat(e_mech, ite(has_cred, e_cred, empty())))", "tlv_of(e_mech, 0, False, 4, mech_b)",
                   "implies(has_cred, tlv_of(e_cred, 0, False, 4, cred))"],
         ensures=["content_of(%s) == c_ver" % _BRS, "content_of(rest_of(%s)) == name_b" % _BRS,
                  "id_class(rest_of(rest_of(%s))) == 2" % _BRS, "id_number(rest_of(rest_of(%s))) == 3" % _BRS,
                  "content_of(%s) == mech_b" % _SASL_C,
                  "%s == has_cred" % _IS_O("rest_of(%s)" % _SASL_C),
                  "implies(has_cred, content_of(rest_of(%s)) == cred)" % _SASL_C])
_SRF = "cat(e_base, e_scope, e_deref, e_size, e_time, e_types, tail)"
_R = lambda k: _SRF if k == 0 else "rest_of(%s)" % _R(k - 1)
contract("specs.ldapmsg:thm_rt_search_request_fixed",
         requires=["tlv_of(e_base, 0, False, 4, base_b)", "tlv_of(e_scope, 0, False, 10, c_scope)", "tlv_of(e_deref, 0, False, 10, c_deref)",
                   "tlv_of(e_size, 0, False, 2, c_size)", "tlv_of(e_time, 0, False, 2, c_time)", "tlv_of(e_types, 0, False, 1, seq1(255 if types_only else 0))"],
         ensures=["content_of(%s) == base_b" % _R(0), "content_of(%s) == c_scope" % _R(1), "content_of(%s) == c_deref" % _R(2),
                  "content_of(%s) == c_size" % _R(3), "content_of(%s) == c_time" % _R(4),
                  "len(content_of(%s)) == 1" % _R(5), "(content_of(%s)[0] != 0) == types_only" % _R(5), "%s == tail" % _R(6)])
_CT = "cat(e, tail)"
_CV1 = "rest_of(content_of(%s))" % _CT
_HU = lambda s, num: "(len(%s) > 0 and id_class(%s) == 0 and id_number(%s) == %d)" % (s, s, s, num)
contract("specs.ldapmsg:thm_rt_control",
         requires=["tlv_of(e, 0, True, 16, cat(e_type, ite(critical, e_crit, empty()), ite(has_val, e_val, empty())))", "tlv_of(e_type, 0, False, 4, type_b)",
                   "implies(critical, tlv_of(e_crit, 0, False, 1, seq1(255)))", "implies(has_val, tlv_of(e_val, 0, False, 4, val))"],
         ensures=["rest_of(%s) == tail" % _CT, "content_of(content_of(%s)) == type_b" % _CT,
                  "%s == critical" % _HU(_CV1, 1),
                  "implies(critical, len(content_of(%s)) == 1 and content_of(%s)[0] != 0)" % (_CV1, _CV1),
                  "implies(not critical, %s == has_val)" % _HU(_CV1, 4),
                  "implies(not critical and has_val, content_of(%s) == val)" % _CV1,
                  "implies(critical, %s == has_val)" % _HU("rest_of(%s)" % _CV1, 4),
                  "implies(critical and has_val, content_of(rest_of(%s)) == val)" % _CV1])
_PA = "cat(e, tail)"
_PAV = "content_of(rest_of(content_of(%s)))" % _PA
contract("specs.ldapmsg:thm_rt_partial_attribute",
         requires=["tlv_of(e, 0, True, 16, cat(e_type, e_vals))", "tlv_of(e_type, 0, False, 4, name_b)", "tlv_of(e_vals, 0, True, 17, c_vals)",
                   "octs_enc(c_vals, xs, 0, len(xs), 0, 4)", "0 <= count",
                   # the decoder's postcondition about the values it collected (contracts/decode.py, _unpack_partial_attribute)
                   "len(nth_rest(%s, count)) == 0" % _PAV, "forall(k, 0, count, len(nth_rest(%s, k)) > 0)" % _PAV],
         ensures=["rest_of(%s) == tail" % _PA, "content_of(content_of(%s)) == name_b" % _PA, "%s == c_vals" % _PAV,
                  "count == len(xs)", "implies(0 <= q and q < len(xs), content_of(nth_rest(%s, q)) == xs[q])" % _PAV])
contract("specs.ldapmsg:thm_rt_present", requires=["tlv_of(e, 2, False, 7, attr_b)"],
         ensures=["id_class(cat(e, tail)) == 2", "id_number(cat(e, tail)) == 7", "not id_constructed(cat(e, tail))",
                  "content_of(cat(e, tail)) == attr_b", "rest_of(cat(e, tail)) == tail"])
_FE = "cat(e, tail)"
contract("specs.ldapmsg:lemma_fold_skip",
         requires=["tlv_of(e, 2, False, num_e, content)", "num_e != num"],
         ensures=["opt_none(%s, num, acc_none) == opt_none(tail, num, acc_none)" % _FE, "opt_val(%s, num, acc) == opt_val(tail, num, acc)" % _FE,
                  "opt_bool(%s, num, acc_b) == opt_bool(tail, num, acc_b)" % _FE])
contract("specs.ldapmsg:lemma_fold_hit",
         requires=["tlv_of(e, 2, False, num, content)"],
         ensures=["opt_none(%s, num, acc_none) == opt_none(tail, num, False)" % _FE, "opt_val(%s, num, acc) == opt_val(tail, num, content)" % _FE,
                  "opt_bool(%s, num, acc_b) == opt_bool(tail, num, bool_den(content))" % _FE])
_XM = "cat(ite(has_rule, e_rule, empty()), ite(has_type, e_type, empty()), e_val, ite(dn, e_dn, empty()))"
contract("specs.ldapmsg:thm_rt_ext_match",
         requires=["implies(has_rule, tlv_of(e_rule, 2, False, 1, rule_b))", "implies(has_type, tlv_of(e_type, 2, False, 2, type_b))",
                   "tlv_of(e_val, 2, False, 3, val)", "implies(dn, tlv_of(e_dn, 2, False, 4, seq1(255)))"],
         # the decoder's postcondition (contracts/decode.py, FilterExtensibleMatch.unpack) on these octets gives back the four fields
         ensures=["opt_none(%s, 1, True) == (not has_rule)" % _XM, "implies(has_rule, opt_val(%s, 1, empty()) == rule_b)" % _XM,
                  "opt_none(%s, 2, True) == (not has_type)" % _XM, "implies(has_type, opt_val(%s, 2, empty()) == type_b)" % _XM,
                  "opt_val(%s, 3, empty()) == val" % _XM, "opt_bool(%s, 4, False) == dn" % _XM])
contract("specs.ldapmsg:lemma_sel_skip",
         requires=["tlv_of(e, 2, False, num_e, content)", "num_e != num"],
         ensures=["sel_list(cat(e, tail), num, acc) == sel_list(tail, num, acc)"])
contract("specs.ldapmsg:lemma_sel_run",
         requires=["octs_enc(s, xs, i, n, 2, num)", "0 <= i", "i <= n", "n <= len(xs)"],
         ensures=["sel_list(cat(s, tail), num, acc) == sel_list(tail, num, cat_list(acc, slice_list(xs, i, n)))"],
         decreases="n - i")
contract("specs.ldapmsg:lemma_fold_skip_run",
         requires=["octs_enc(s, xs, i, n, 2, num_run)", "0 <= i", "i <= n", "n <= len(xs)", "num_run != num"],
         ensures=["opt_none(cat(s, tail), num, acc_none) == opt_none(tail, num, acc_none)", "opt_val(cat(s, tail), num, acc) == opt_val(tail, num, acc)"],
         decreases="n - i")
_SS = "cat(ite(has_init, e_init, empty()), c_any, ite(has_final, e_final, empty()))"
contract("specs.ldapmsg:thm_rt_substrings",
         requires=["implies(has_init, tlv_of(e_init, 2, False, 0, init))", "octs_enc(c_any, xs, 0, len(xs), 2, 1)", "implies(has_final, tlv_of(e_final, 2, False, 2, final))"],
         ensures=["opt_none(%s, 0, True) == (not has_init)" % _SS, "implies(has_init, opt_val(%s, 0, empty()) == init)" % _SS,
                  "opt_none(%s, 2, True) == (not has_final)" % _SS, "implies(has_final, opt_val(%s, 2, empty()) == final)" % _SS,
                  "sel_list(%s, 1, nil_bytes()) == xs" % _SS])
