import z3, time
I = z3.IntSort(); S = z3.SeqSort(I)
def prove(name, hyps, goal, timeout=60000):
    s = z3.Solver(); s.set("timeout", timeout)
    for h in hyps: s.add(h)
    s.add(z3.Not(goal))
    t=time.time(); r = s.check(); dt=time.time()-t
    print(f"{name}: {'PROVED' if r==z3.unsat else r} {dt:.2f}s")
    if r==z3.sat:
        m=s.model(); print({str(d):m[d] for d in m.decls()})
pow256 = z3.Function('pow256', I, I)
le = z3.Function('le', S, I, I)     # le(d,k): LE value of first k digits
def U_pow(k): return pow256(k) == z3.If(k<=0, 1, 256*pow256(k-1))
def U_le(d,k): return le(d,k) == z3.If(k<=0, 0, le(d,k-1) + d[k-1]*pow256(k-1))
b = z3.Const('b', S); V, value = z3.Ints('V value'); j = z3.Length(b); P = pow256(j)
inv = z3.And(V == value*P + P - 1 - le(b,j), value >= 0, P >= 1,
             z3.Implies(j>=1, 256*value + (255 - b[j-1]) > 128))
rng = lambda s: z3.ForAll([z3.Int('q')], z3.Implies(z3.And(0<=z3.Int('q'), z3.Int('q')<z3.Length(s)), z3.And(0<=s[z3.Int('q')], s[z3.Int('q')]<=255)))
# (2) after loop: value <= 128; c = b ++ [255 - value]
top = 255 - value
c = z3.Concat(b, z3.Unit(top)); n = j+1
frame = le(c, j) == le(b, j)    # lemma instance (prefix stability), proved separately by induction
hy = [inv, V>0, value <= 128, z3.Or(j>=1, value>=1), rng(b), frame, U_le(c,n), U_pow(n), U_pow(j)]
prove("(2) complement value", hy, le(c,n) == pow256(n) - 1 - V)
prove("(2) top range", hy, z3.And(127<=top, top<=255))
# (3) final: given c' (cp) with le(cp,n) == pow256(n) - V and pointwise increment relation to c
cp = z3.Const('cp', S); i = z3.Int('i'); k = z3.Int('k')
incr = z3.And(z3.Length(cp)==n, 0<=i, i<n, c[i] < 255, cp[i]==c[i]+1,
              z3.ForAll([k], z3.Implies(z3.And(0<=k,k<i), z3.And(c[k]==255, cp[k]==0))),
              z3.ForAll([k], z3.Implies(z3.And(i<k,k<n), cp[k]==c[k])))
lecp = le(cp,n) == pow256(n) - V        # from incr lemma + (2)
tprime = cp[n-1]
# sign / value cases
tcle = lambda d,m: le(d,m) - z3.If(d[m-1]>=128, pow256(m), 0)
hy3 = hy + [incr, lecp]
prove("(3a) t' in [127,255]", hy3, z3.And(127<=tprime, tprime<=255))
prove("(3b) no-append case value", hy3+[tprime != 0x7F], tcle(cp,n) == -V)
cpp = z3.Concat(cp, z3.Unit(z3.IntVal(255)))
frame2 = le(cpp, n) == le(cp, n)
prove("(3c) append case value", hy3+[tprime == 0x7F, frame2, U_le(cpp,n+1), U_pow(n+1)], tcle(cpp,n+1) == -V)
minimal = lambda d,m: z3.Or(m==1, z3.And(z3.Not(z3.And(d[m-1]==0, d[m-2]<128)), z3.Not(z3.And(d[m-1]==255, d[m-2]>=128))))
prove("(3d) minimal no-append", hy3+[tprime != 0x7F], minimal(cp,n))
prove("(3e) minimal append", hy3+[tprime == 0x7F], minimal(cpp,n+1))
s = z3.Solver(); s.set("timeout", 20000)
for h in hy3: s.add(h)
s.add(j==2)
print("hyps consistent:", s.check())
