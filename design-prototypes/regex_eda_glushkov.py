import re, re._parser as sp, sys, time
sys.setrecursionlimit(10000)
import sansldap.schema as s, sansldap._filter as f
MAXREPEAT = sp.MAXREPEAT
class G:  # Glushkov builder
    def __init__(self): self.pos=[]  # list of charset as list of (lo,hi) ranges, negate flag
    def leaf(self, cs):
        self.pos.append(cs); i=len(self.pos)-1
        return (False, {i}, {i}, {})   # nullable, first, last, follow(dict)
def cat(a,b):
    fol = {k:set(v) for k,v in a[3].items()}
    for k,v in b[3].items(): fol.setdefault(k,set()).update(v)
    for l in a[2]: fol.setdefault(l,set()).update(b[1])
    return (a[0] and b[0], a[1] | (b[1] if a[0] else set()), b[2] | (a[2] if b[0] else set()), fol)
def alt(a,b):
    fol = {k:set(v) for k,v in a[3].items()}
    for k,v in b[3].items(): fol.setdefault(k,set()).update(v)
    return (a[0] or b[0], a[1]|b[1], a[2]|b[2], fol)
def star(a):
    fol = {k:set(v) for k,v in a[3].items()}
    for l in a[2]: fol.setdefault(l,set()).update(a[1])
    return (True, a[1], a[2], fol)
def opt(a): return (True,a[1],a[2],a[3])
EPS=(True,set(),set(),{})
def build(g, tree):
    r = EPS
    for op, av in tree:
        o=str(op)
        if o=="LITERAL": x=g.leaf(("set",[(av,av)],False))
        elif o=="ANY": x=g.leaf(("set",[(10,10)],True))
        elif o=="IN":
            neg=False; rs=[]
            for io,ia in av:
                if str(io)=="NEGATE": neg=True
                elif str(io)=="LITERAL": rs.append((ia,ia))
                elif str(io)=="RANGE": rs.append(ia)
                else: raise Exception(io)
            x=g.leaf(("set",rs,neg))
        elif o=="SUBPATTERN": x=build(g, av[3])
        elif o=="BRANCH":
            x=None
            for b in av[1]:
                y=build(g,b); x = y if x is None else alt(x,y)
        elif o=="MAX_REPEAT":
            lo,hi,sub=av
            x=EPS
            for _ in range(lo): x=cat(x,build(g,sub))
            if hi==MAXREPEAT: x=cat(x,star(build(g,sub)))
            else:
                for _ in range(hi-lo): x=cat(x,opt(build(g,sub)))   # note: a?a? style, fine
        elif o=="AT": x=EPS
        else: raise Exception(o)
        r=cat(r,x)
    return r
def atoms(poslist):
    cuts={0,0x110000}
    for _,rs,_n in poslist:
        for lo,hi in rs: cuts.add(lo); cuts.add(hi+1)
    cuts=sorted(cuts); ats=[(cuts[i],cuts[i+1]-1) for i in range(len(cuts)-1)]
    res=[]
    for _,rs,neg in poslist:
        sset=set()
        for ai,(lo,hi) in enumerate(ats):
            inside=any(l<=lo and hi<=h for l,h in rs)
            if inside!=neg: sset.add(ai)
        res.append(frozenset(sset))
    return ats,res
def eda(pattern, flags=0):
    g=G(); t=sp.parse(pattern, flags); nul,first,last,fol=build(g,t)
    ats,sets=atoms(g.pos); n=len(g.pos)
    # reachable positions
    # product graph
    import itertools
    succ={}
    nodes=[(p,q) for p in range(n) for q in range(n)]
    def nxt(p,q):
        out=[]
        for p2 in fol.get(p,()):
            for q2 in fol.get(q,()):
                if sets[p2]&sets[q2]: out.append((p2,q2))
        return out
    # Tarjan SCC iterative
    index={}; low={}; st=[]; onst=set(); comp={}; cid=0; idx=0
    for root in nodes:
        if root in index: continue
        work=[(root,iter(nxt(*root)))]; index[root]=low[root]=idx; idx+=1; st.append(root); onst.add(root)
        while work:
            v,it=work[-1]
            adv=False
            for w in it:
                if w not in index:
                    index[w]=low[w]=idx; idx+=1; st.append(w); onst.add(w); work.append((w,iter(nxt(*w)))); adv=True; break
                elif w in onst: low[v]=min(low[v],index[w])
            if adv: continue
            work.pop()
            if work: low[work[-1][0]]=min(low[work[-1][0]],low[v])
            if low[v]==index[v]:
                members=[]
                while True:
                    w=st.pop(); onst.discard(w); comp[w]=cid; members.append(w)
                    if w==v: break
                cid+=1
                if len(members)>1 or v in nxt(*v):
                    diag=[m for m in members if m[0]==m[1]]; off=[m for m in members if m[0]!=m[1]]
                    if diag and off:
                        return n, ("EDA", diag[0], off[0], [ (g.pos[x]) for x in off[0]])
    return n, None
for name,p in [("OC",s.OBJECT_CLASS_DESCRIPTION),("AT",s.ATTRIBUTE_TYPE_DESCRIPTION),("DIT",s.DIT_CONTENT_RULE_DESCRIPTION),("ATTR",f._ATTRIBUTE_PATTERN),("NOID",s.NOIDLEN_MATCH)]:
    t0=time.time(); r=eda(p.pattern,p.flags); print(name, r, f"{time.time()-t0:.1f}s")
t0=time.time(); print("fixed DSTRING", eda(s.OBJECT_CLASS_DESCRIPTION.pattern.replace(r"[^'\\]+", r"[^'\\]"), s.OBJECT_CLASS_DESCRIPTION.flags), time.time()-t0)
