# Contract-level joint invariant prototype for C11 (both sessions alive fragment).
import z3, time, sys, itertools
I = z3.IntSort(); Bo = z3.BoolSort()
AIB = z3.ArraySort(I, Bo); AII = z3.ArraySort(I, I)
BO,BI,OP,CL = 0,1,2,3
BIND,SEARCH,EXT,UNBIND = 0,1,2,3
FINAL,SASL,ENTRY,DONE,EXTRESP,NOTICE = 10,11,12,13,14,15
FIELDS = dict(stC=I, stS=I, outC=AIB, srchC=AIB, outS=AIB, srchS=AIB, ctr=I, kindC=AII, kindOf=AII,
              qk=AII, qi=AII, h=I, t=I,            # client->server queue: kinds, ids, head, tail
              rk=AII, ri=AII, rh=I, rt=I,          # server->client queue
              rq=AIB, fin=AIB, posC=AII, posF=AII, bid=I)
class St:
    def __init__(self, suffix="", **kw):
        for f,s in FIELDS.items():
            setattr(self, f, kw[f] if f in kw else z3.Const(f+suffix, s))
    def upd(self, **kw):
        d = {f:getattr(self,f) for f in FIELDS}; d.update(kw); return St(**d)
def isfinal(k): return z3.Or(k==FINAL, k==SASL, k==DONE, k==EXTRESP)
def respkind_ok(k, reqk):
    return z3.Or(z3.And(reqk==BIND, z3.Or(k==FINAL,k==SASL)), z3.And(reqk==SEARCH, z3.Or(k==ENTRY,k==DONE)), z3.And(reqk==EXT, k==EXTRESP))
def J(s):
    i = z3.Int('i'); p = z3.Int('p'); a = z3.Int('a')
    c = {}
    c['A'] = z3.And(s.h<=s.t, s.rh<=s.rt, s.ctr>=1, z3.Or(s.stC==BO,s.stC==BI,s.stC==OP), z3.Or(s.stS==BO,s.stS==BI,s.stS==OP))
    c['B'] = z3.ForAll([p], z3.Implies(z3.And(s.h<=p, p<s.t),
              z3.And(z3.Or(s.qk[p]==BIND, s.qk[p]==SEARCH, s.qk[p]==EXT), s.rq[s.qi[p]], s.posC[s.qi[p]]==p, s.kindC[s.qi[p]]==s.qk[p])))
    c['C'] = z3.ForAll([i], z3.Implies(s.rq[i], z3.And(s.h<=s.posC[i], s.posC[i]<s.t, s.qi[s.posC[i]]==i)))
    c['D'] = z3.ForAll([i], z3.And(s.outC[i] == z3.Or(s.rq[i], s.outS[i], s.fin[i]),
              z3.Not(z3.And(s.rq[i], s.outS[i])), z3.Not(z3.And(s.rq[i], s.fin[i])), z3.Not(z3.And(s.outS[i], s.fin[i]))))
    c['E'] = z3.ForAll([i], z3.And(z3.Implies(s.outC[i], z3.And(1<=i, i<s.ctr)), z3.Implies(s.srchC[i], s.outC[i]),
              z3.Implies(s.outC[i], (s.kindC[i]==SEARCH) == s.srchC[i]),
              z3.Implies(s.outC[i], z3.Or(s.kindC[i]==BIND, s.kindC[i]==SEARCH, s.kindC[i]==EXT))))
    c['F'] = z3.ForAll([p], z3.Implies(z3.And(s.rh<=p, p<s.rt),
              z3.And(s.outC[s.ri[p]], respkind_ok(s.rk[p], s.kindC[s.ri[p]]),
                     z3.Implies(isfinal(s.rk[p]), z3.And(s.fin[s.ri[p]], s.posF[s.ri[p]]==p)),
                     z3.Implies(s.rk[p]==ENTRY, z3.Or(s.outS[s.ri[p]], z3.And(s.fin[s.ri[p]], s.posF[s.ri[p]]>p))))))
    c['G'] = z3.ForAll([i], z3.Implies(s.fin[i], z3.And(s.rh<=s.posF[i], s.posF[i]<s.rt, s.ri[s.posF[i]]==i, isfinal(s.rk[s.posF[i]]))))
    c['H'] = z3.ForAll([i], z3.And(s.srchS[i] == z3.And(s.outS[i], s.kindOf[i]==SEARCH), z3.Implies(s.outS[i], s.kindOf[i]==s.kindC[i])))
    c['I1'] = z3.Implies(s.stS==BI, s.stC==BI)
    c['I2'] = z3.Implies(s.stC==BI, z3.Or(
                z3.And(s.bid==0, z3.ForAll([i], z3.Not(s.outC[i])), s.stS==BI),
                z3.And(s.bid!=0, z3.ForAll([i], s.outC[i]==(i==s.bid)), s.kindC[s.bid]==BIND)))
    c['I3'] = z3.Implies(s.stC!=BI, z3.ForAll([i], z3.Implies(s.outC[i], s.kindC[i]!=BIND)))
    c['I4'] = z3.Implies(z3.And(s.stC==BI, s.bid!=0, s.outS[s.bid]), s.stS==BI)
    c['I5'] = z3.Implies(z3.And(s.stC==BI, s.bid!=0, s.fin[s.bid]),
                z3.And(z3.Implies(s.rk[s.posF[s.bid]]==SASL, s.stS==BI), z3.Implies(s.rk[s.posF[s.bid]]==FINAL, s.stS!=BI)))
    return c
s = St()
x = z3.Int('x')   # id parameter of server actions
def act_c_req(kind):
    guard = z3.And(s.stC!=BI) if kind!=BIND else z3.ForAll([z3.Int('i')], z3.Not(s.outC[z3.Int('i')]))
    nid = s.ctr
    post = s.upd(stC=z3.IntVal(BI) if kind==BIND else z3.IntVal(OP), ctr=s.ctr+1, outC=z3.Store(s.outC,nid,True),
                 srchC=z3.Store(s.srchC,nid,kind==SEARCH), kindC=z3.Store(s.kindC,nid,kind),
                 qk=z3.Store(s.qk,s.t,kind), qi=z3.Store(s.qi,s.t,nid), t=s.t+1,
                 rq=z3.Store(s.rq,nid,True), posC=z3.Store(s.posC,nid,s.t), bid=(nid if kind==BIND else s.bid))
    return guard, post, None
def act_s_recv():
    k = s.qk[s.h]; i = s.qi[s.h]
    guard = s.h < s.t
    bad = z3.And(k==BIND, z3.Exists([z3.Int('e')], s.outS[z3.Int('e')]))   # ProtocolError: bind with outstanding ops
    post = s.upd(h=s.h+1, rq=z3.Store(s.rq,i,False), outS=z3.Store(s.outS,i,True), kindOf=z3.Store(s.kindOf,i,k),
                 srchS=z3.Store(s.srchS,i,k==SEARCH), stS=z3.If(k==BIND, BI, z3.If(s.stS==BO, OP, s.stS)))
    return guard, post, bad
def act_s_resp(kind):
    final = kind in (FINAL,SASL,DONE,EXTRESP)
    reqk = {FINAL:BIND,SASL:BIND,ENTRY:SEARCH,DONE:SEARCH,EXTRESP:EXT}[kind]
    gate = z3.BoolVal(True) if reqk==BIND else (s.stS!=BI)
    guard = z3.And(s.outS[x], s.kindOf[x]==reqk, gate)
    post = s.upd(rk=z3.Store(s.rk,s.rt,kind), ri=z3.Store(s.ri,s.rt,x), rt=s.rt+1,
                 outS=(z3.Store(s.outS,x,False) if final else s.outS), srchS=(z3.Store(s.srchS,x,False) if final else s.srchS),
                 fin=(z3.Store(s.fin,x,True) if final else s.fin), posF=(z3.Store(s.posF,x,s.rt) if final else s.posF),
                 stS=(z3.IntVal(OP) if kind==FINAL else s.stS))
    return guard, post, None
def act_c_recv():
    k = s.rk[s.rh]; i = s.ri[s.rh]
    guard = s.rh < s.rt
    insrch = s.srchC[i]
    bad = z3.And(z3.Not(insrch), z3.Not(s.outC[i]))     # unexpected id -> ProtocolError
    remove = z3.Or(z3.Not(insrch), k==DONE)
    post = s.upd(rh=s.rh+1,
                 srchC=z3.If(z3.And(insrch, k==DONE), z3.Store(s.srchC,i,False), s.srchC),
                 outC=z3.If(remove, z3.Store(s.outC,i,False), s.outC),
                 fin=z3.If(isfinal(k), z3.Store(s.fin,i,False), s.fin),
                 stC=z3.If(k==FINAL, OP, s.stC),
                 bid=z3.If(z3.Or(k==FINAL,k==SASL), 0, s.bid))
    # the real client removes the id whenever (not in search set) or DONE; ghost `fin` cleared for finals
    return guard, post, bad
ACTIONS = {'c_bind':act_c_req(BIND), 'c_search':act_c_req(SEARCH), 'c_ext':act_c_req(EXT), 's_recv':act_s_recv(),
           's_bind_final':act_s_resp(FINAL), 's_bind_sasl':act_s_resp(SASL), 's_entry':act_s_resp(ENTRY), 's_done':act_s_resp(DONE),
           's_extresp':act_s_resp(EXTRESP), 'c_recv':act_c_recv()}
def check(hyps, goal, timeout):
    sv = z3.Solver(); sv.set("timeout", timeout)
    for hh in hyps: sv.add(hh)
    sv.add(z3.Not(goal)); t0=time.time(); r = sv.check(); return r, time.time()-t0, sv
only = sys.argv[1:] 
Jpre = J(s); allpre = list(Jpre.values())
tot=0; bad=0
for name,(guard,post,badc) in ACTIONS.items():
    if only and name not in only: continue
    if badc is not None:
        r,dt,_ = check(allpre+[guard], z3.Not(badc), 20000); tot+=1
        print(f"{name:14s} no-error     {'ok' if r==z3.unsat else str(r).upper()} {dt:.2f}s"); bad += r!=z3.unsat
    Jpost = J(post)
    for cn,cf in Jpost.items():
        r,dt,sv = check(allpre+[guard], cf, 20000); tot+=1
        if r!=z3.unsat:
            bad+=1; print(f"{name:14s} preserves {cn:3s} {str(r).upper()} {dt:.2f}s")
print("total", tot, "not proved", bad)
# quiescence consequences
e = z3.Int('e')
q = [s.h==s.t, s.rh==s.rt]
r,dt,_ = check(allpre+q, z3.ForAll([e], s.outC[e]==s.outS[e]), 20000); print("quiescence outC==outS", r, f"{dt:.2f}")
r,dt,_ = check(allpre+q, (s.stC==BI)==(s.stS==BI), 20000); print("quiescence state agreement", r, f"{dt:.2f}")
r,dt,_ = check(allpre+q, z3.ForAll([e], s.srchC[e]==s.srchS[e]), 20000); print("quiescence searches agree", r, f"{dt:.2f}")
sv = z3.Solver(); sv.add(allpre); sv.add(s.h+2==s.t, s.rh+1==s.rt); print("J satisfiable (non-vacuous):", sv.check())
