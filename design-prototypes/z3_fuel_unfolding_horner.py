import z3, time
I = z3.IntSort(); S = z3.SeqSort(I)
def prove(name, hyps, goal, timeout=30000):
    s = z3.Solver(); s.set("timeout", timeout)
    for h in hyps: s.add(h)
    s.add(z3.Not(goal))
    t=time.time(); r = s.check(); dt=time.time()-t
    print(f"{name}: {'PROVED' if r==z3.unsat else r} {dt:.2f}s")
pow256 = z3.Function('pow256', I, I)
ws = z3.Function('ws', S, I, I, I)
be1 = z3.Function('be1', S, I, I)
def unfold_pow(k): return pow256(k) == z3.If(k<=0, 1, 256*pow256(k-1))
def unfold_ws(d,hi,nn): return ws(d,hi,nn) == z3.If(hi<=1, 0, ws(d,hi-1,nn) + d[hi-1]*pow256(nn-1-(hi-1)))
def unfold_be1(d,k): return be1(d,k) == z3.If(k<=1, 0, 256*be1(d,k-1) + d[k-1])
view = z3.Const('view', S); n, idx = z3.Ints('n idx')
IH = ws(view,idx,n) == be1(view,idx)*pow256(n-idx)
hy = [IH, 1<=idx, idx<n, unfold_pow(n-idx), unfold_ws(view,idx+1,n), unfold_be1(view,idx+1)]
prove("horner step, fuel-1 unfoldings", hy, ws(view,idx+1,n) == be1(view,idx+1)*pow256(n-(idx+1)))
