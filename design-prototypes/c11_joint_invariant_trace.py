import z3, sys
sys.argv=[sys.argv[0],'__none__']
exec(open('c11_joint_invariant.py').read().split("ACTIONS = {")[0])
KF = z3.K(I, z3.BoolVal(False)); KZ = z3.K(I, z3.IntVal(0))
init = St(stC=z3.IntVal(BO), stS=z3.IntVal(BO), outC=KF, srchC=KF, outS=KF, srchS=KF, ctr=z3.IntVal(1), kindC=KZ, kindOf=KZ,
          qk=KZ, qi=KZ, h=z3.IntVal(0), t=z3.IntVal(0), rk=KZ, ri=KZ, rh=z3.IntVal(0), rt=z3.IntVal(0), rq=KF, fin=KF, posC=KZ, posF=KZ, bid=z3.IntVal(0))
def holds(st, label):
    ok=True
    for cn,cf in J(st).items():
        sv=z3.Solver(); sv.set("timeout",20000); sv.add(z3.Not(cf)); r=sv.check()
        if r!=z3.unsat: ok=False; print("  ", label, cn, r)
    print(label, "J holds" if ok else "J FAILS")
def step(st, actf, xval=None):
    global s, x
    s = st
    g,p,b = actf()
    sub = [(x, z3.IntVal(xval))] if xval is not None else []
    sv=z3.Solver(); sv.add(z3.substitute(g,*sub) if sub else g); assert sv.check()==z3.sat, "guard unsat"
    if b is not None:
        sv=z3.Solver(); sv.add(z3.substitute(b,*sub) if sub else b); assert sv.check()==z3.unsat, "bad reachable"
    d={f:z3.simplify(z3.substitute(getattr(p,f),*sub) if sub else getattr(p,f)) for f in FIELDS}
    return St(**d)
holds(init,"init")
st=init
trace=[("c_search",lambda:act_c_req(SEARCH),None),("c_ext",lambda:act_c_req(EXT),None),("s_recv",act_s_recv,None),("s_entry",lambda:act_s_resp(ENTRY),1),
       ("s_recv",act_s_recv,None),("s_extresp",lambda:act_s_resp(EXTRESP),2),("c_recv",act_c_recv,None),("s_done",lambda:act_s_resp(DONE),1),
       ("c_recv",act_c_recv,None),("c_recv",act_c_recv,None),("c_bind",lambda:act_c_req(BIND),None),("s_recv",act_s_recv,None),
       ("s_bind_sasl",lambda:act_s_resp(SASL),3),("c_recv",act_c_recv,None),("c_bind",lambda:act_c_req(BIND),None),("s_recv",act_s_recv,None),
       ("s_bind_final",lambda:act_s_resp(FINAL),4),("c_recv",act_c_recv,None),("c_ext",lambda:act_c_req(EXT),None)]
for name,f,xv in trace:
    st=step(st,f,xv); holds(st,name)
print("final", z3.simplify(st.stC), z3.simplify(st.stS), z3.simplify(st.ctr))
