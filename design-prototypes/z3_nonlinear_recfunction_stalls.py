import z3, time
I = z3.IntSort(); S = z3.SeqSort(I)
def prove(name, hyps, goal, timeout=30000):
    s = z3.Solver(); s.set("timeout", timeout)
    for h in hyps: s.add(h)
    s.add(z3.Not(goal))
    t=time.time(); r = s.check(); dt=time.time()-t
    print(f"{name}: {'PROVED' if r==z3.unsat else r} {dt:.2f}s")
    if r==z3.sat: print(s.model())
d,k = z3.Const('d',S), z3.Int('k')
pow256 = z3.RecFunction('pow256', I, I)
z3.RecAddDefinition(pow256, [k], z3.If(k<=0, 1, 256*pow256(k-1)))
# le_upto(d,k): little-endian value of first k digits: le(d,0)=0; le(d,k+1) = le(d,k) + d[k]*pow256(k)
le = z3.RecFunction('le', S, I, I)
z3.RecAddDefinition(le, [d,k], z3.If(k<=0, 0, le(d,k-1) + d[k-1]*pow256(k-1)))

# negative pack loop 1: invariant  V == value*P + P - 1 - le(b, j), j=len(b), P=pow256(j), 0<=le(b,j)<P, value>=0
b = z3.Const('b', S); V, value = z3.Ints('V value'); j = z3.Length(b)
P = pow256(j)
def inv(b, value):
    j = z3.Length(b); P = pow256(j)
    return z3.And(V == value*P + P - 1 - le(b,j), value >= 0, P >= 1)
m = value % 256; value2 = value / 256   # z3 Int div = floor for positive divisor
x = 255 - m
b2 = z3.Concat(b, z3.Unit(x))
# helper facts the engine would supply as lemma instances
frame = le(b2, j) == le(b, j)   # prefix-stability lemma (needs induction in general)
prove("neg loop1 inv step (with frame lemma)", [inv(b,value), value > 128, frame], inv(b2, value2))
prove("neg loop1 inv step (no frame lemma)", [inv(b,value), value > 128], inv(b2, value2), 10000)

# header length loop: length += octet << (8*(n-1-idx)); invariant length*? use weighted sum
view = z3.Const('view', S); n, idx, length = z3.Ints('n idx length')
ws = z3.RecFunction('ws', S, I, I, I)  # ws(view, hi, n) = sum_{q=1}^{hi-1} view[q]*pow256(n-1-q)
hi = z3.Int('hi'); nn = z3.Int('nn')
z3.RecAddDefinition(ws, [d,hi,nn], z3.If(hi<=1, 0, ws(d,hi-1,nn) + d[hi-1]*pow256(nn-1-(hi-1))))
prove("hdr len loop step", [length==ws(view,idx,n), 1<=idx, idx<n], length + view[idx]*pow256(n-1-idx) == ws(view,idx+1,n))
# Horner relation: ws(view, idx, n) == be1(view, idx) * pow256(n-idx) where be1(view,idx) = BE value of view[1:idx]
be1 = z3.RecFunction('be1', S, I, I)
z3.RecAddDefinition(be1, [d,k], z3.If(k<=1, 0, 256*be1(d,k-1) + d[k-1]))
IH = ws(view,idx,n) == be1(view,idx)*pow256(n-idx)
prove("horner step", [IH, 1<=idx, idx<n], ws(view,idx+1,n) == be1(view,idx+1)*pow256(n-(idx+1)))
