import z3, time
I = z3.IntSort(); B = z3.SeqSort(I)
def prove(name, hyps, goal, timeout=30000):
    s = z3.Solver(); s.set("timeout", timeout)
    for h in hyps: s.add(h)
    s.add(z3.Not(goal))
    t=time.time(); r = s.check(); dt=time.time()-t
    print(f"{name}: {'PROVED' if r==z3.unsat else r} {dt:.2f}s")
Node = z3.Datatype('Node'); Node.declare('prim', ('tag', I), ('content', B)); Node.declare('cons', ('ctag', I), ('kids', I)); Node = Node.create()
NL = z3.SeqSort(Node); Str = z3.DeclareSort('Str'); SL = z3.SeqSort(Str)
utf8 = z3.Function('utf8', Str, B); unutf8 = z3.Function('unutf8', B, Str)
uris_g = z3.Const('uris_g', SL); enc_from = z3.Function('enc_from', SL, I, NL)
def unfold_enc(xs,k): return enc_from(xs,k) == z3.If(k>=z3.Length(xs), z3.Empty(NL), z3.Concat(z3.Unit(Node.prim(4, utf8(xs[k]))), enc_from(xs,k+1)))
k = z3.Int('k'); nodes = z3.Const('nodes', NL); uris = z3.Const('uris', SL)
inv = lambda nodes,uris,k: z3.And(0<=k, k<=z3.Length(uris_g), nodes==enc_from(uris_g,k), uris==z3.SubSeq(uris_g,0,k))
codec_inst = unutf8(utf8(uris_g[k]))==uris_g[k]          # instantiated codec axiom
head = nodes[0]; tail = z3.SubSeq(nodes,1,z3.Length(nodes)-1)
uris2 = z3.Concat(uris, z3.Unit(unutf8(Node.content(head))))
h1 = z3.Concat(z3.SubSeq(uris_g,0,k), z3.Unit(uris_g[k])) == z3.SubSeq(uris_g,0,k+1)
prove("hint prefix-extend (pure)", [0<=k, k<z3.Length(uris_g)], h1)
X = z3.Const('X', NL); hd = z3.Const('hd', Node)
prove("hint tail-of-cons (pure)", [nodes==z3.Concat(z3.Unit(hd), X)], z3.And(nodes[0]==hd, tail==X))
h2 = z3.And(nodes[0]==Node.prim(4, utf8(uris_g[k])), tail==enc_from(uris_g,k+1))
hy = [inv(nodes,uris,k), z3.Length(nodes)>0, unfold_enc(uris_g,k), codec_inst]
prove("derive h2", hy, h2)
prove("list loop: inv preserved (+hints)", hy+[h1,h2, k<z3.Length(uris_g)], inv(tail, uris2, k+1))
prove("k<len from nonempty", hy, k<z3.Length(uris_g))
