import z3, time
I = z3.IntSort(); B = z3.SeqSort(I)
def prove(name, hyps, goal, timeout=30000):
    s = z3.Solver(); s.set("timeout", timeout)
    for h in hyps: s.add(h)
    s.add(z3.Not(goal))
    t=time.time(); r = s.check(); dt=time.time()-t
    print(f"{name}: {'PROVED' if r==z3.unsat else r} {dt:.2f}s")
fk = z3.Function('fkind', B, I); fs = z3.Function('fsize', B, I); rest = z3.Function('rest', B, B)
def unfold_rest(S): return rest(S) == z3.If(z3.And(z3.Length(S)>0, fk(S)==1), rest(z3.SubSeq(S, fs(S), z3.Length(S)-fs(S))), S)
def frame_ax(S): return z3.Implies(fk(S)==1, z3.And(2<=fs(S), fs(S)<=z3.Length(S)))
def prefix_stable(S,T): return z3.Implies(fk(S)==1, z3.And(fk(z3.Concat(S,T))==1, fs(z3.Concat(S,T))==fs(S)))
A, Bv = z3.Const('A',B), z3.Const('Bv',B)
n = z3.Int('n'); AB = z3.Concat(A,Bv)
A2 = z3.SubSeq(A, n, z3.Length(A)-n)
seqhint = z3.SubSeq(AB, n, z3.Length(AB)-n) == z3.Concat(A2, Bv)
prove("seq hint (pure)", [0<=n, n<=z3.Length(A)], seqhint)
IH = rest(z3.Concat(rest(A2),Bv)) == rest(z3.Concat(A2,Bv))
hy = [n==fs(A), frame_ax(A), prefix_stable(A,Bv), unfold_rest(A), unfold_rest(AB), IH, seqhint, z3.Length(A)>0, fk(A)==1]
prove("chunk lemma, complete case + hint", hy, rest(z3.Concat(rest(A),Bv)) == rest(AB))
# abstract away: name subterms with fresh consts to stop seq solver from grinding
A2c, ABc, AB2c = z3.Consts('A2c ABc AB2c', B)
hy2 = [n==fs(A), 2<=n, n<=z3.Length(A), fk(ABc)==1, fs(ABc)==n,
       rest(A)==rest(A2c), rest(ABc)==rest(AB2c), AB2c==z3.Concat(A2c,Bv),
       rest(z3.Concat(rest(A2c),Bv)) == rest(z3.Concat(A2c,Bv))]
prove("chunk lemma, abstracted", hy2, rest(z3.Concat(rest(A),Bv)) == rest(ABc))
