from spike_symexec_mini import *
import spike_symexec_mini as mini
fn = FUNCS["_read_asn1_integer"]
# spike limitation: skip docstring + the `if not tag:` default-tag statement (needs Optional/NamedTuple support)
fn.body = fn.body[2:]
content = z3.Const('content', S); consumed0 = z3.Int('consumed0')
def c_validate_tag(ex, e, p):           # callee contract (abstract): returns (view over content, consumed)
    return (Seq(content), consumed0)
k = z3.Int('k')
def inv0(env):
    b=env["b_int"].t; i=env["_i0"]; n=z3.Length(content)
    return z3.And(0<=i, i<=n, z3.Length(b)==n, is_bytes(b),
        z3.ForAll([k], z3.Implies(z3.And(0<=k,k<i), b[k]==255-content[k])),
        z3.ForAll([k], z3.Implies(z3.And(i<=k,k<n), b[k]==content[k])))
def inv2(env):
    b=env["b_int"].t; i=env["_i2"]
    return z3.And(0<=i, i<=z3.Length(b), env["int_value"]==be(b,i), env["int_value"]>=0)
loops = {0: dict(vars=["b_int"], idx="_i0", inv=inv0), 1: "once", 2: dict(vars=["int_value"], idx="_i2", inv=inv2)}
params = dict(data=Seq(z3.Const('data',S)), tag=None, header=None, hint=None)
ex = run("_read_asn1_integer", params, {"_validate_tag": c_validate_tag}, loops, [is_bytes(content)])
print("paths:", [(r[0], r[1]) for r in ex.results], "side obligations:", len(ex.obl))
viol=[]
for kind, where, p, val in ex.results:
    if kind=="raise":
        s=z3.Solver(); s.add(*p.pc); s.add(*UNF); r=s.check()
        print(f"  raises-clause: {where}: reachable={r}")
        if r==z3.sat: viol.append((where, seqval(s.model(), content)))
    else:
        # hint: is_bytes(final b_int) is needed to discharge; postcondition result == tc(content)
        r,dt,m = discharge("ensures", p.pc, val[0]==tc(content))
        print(f"  ensures result==tc(content) on return path: {'PROVED' if r==z3.unsat else r} {dt:.2f}s")
        if r==z3.sat: viol.append(("ensures", seqval(m, content)))
for name, pc, goal in ex.obl:
    r,dt,m = discharge(name, pc, goal); print(f"  {name}: {'PROVED' if r==z3.unsat else r} {dt:.2f}s")
# ---- native replay of refutations on the real code
for where, c in viol:
    data = bytes([2, len(c)] + c)
    code = f"import sansldap.asn1 as a\ntry:\n    print('returned', a._read_asn1_integer({data!r}))\nexcept BaseException as e:\n    print('raised', type(e).__name__, e)\nprint('oracle', int.from_bytes({bytes(c)!r}, 'big', signed=True) if {len(c)} else None)"
    out = subprocess.run(["/venv/bin/python","-c",code],capture_output=True,text=True).stdout.strip().replace("\n"," | ")
    print(f"REPLAY {where}: content={bytes(c).hex() or '<empty>'} -> {out}")
