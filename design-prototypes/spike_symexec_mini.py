"""Spike: symbolic execution of REAL sansldap.asn1 functions from their AST -> z3 obligations -> native replay.
Throw-away feasibility code (not the framework)."""
import ast, z3, sys, time, json, subprocess, textwrap
SRC = "/repo/src/sansldap/asn1.py"
tree = ast.parse(open(SRC).read())
FUNCS = {n.name: n for n in ast.walk(tree) if isinstance(n, ast.FunctionDef)}
I = z3.IntSort(); S = z3.SeqSort(I)

# ---------- spec functions: uninterpreted + fuel-1 unfolding collected on use
be_f = z3.Function('be', S, I, I); pow_f = z3.Function('pow256', I, I); b128_f = z3.Function('b128', S, I, I)
UNF = []
def be(s,k):   UNF.append(be_f(s,k) == z3.If(k<=0, 0, 256*be_f(s,k-1) + s[k-1])); return be_f(s,k)
def pow256(k): UNF.append(pow_f(k) == z3.If(k<=0, 1, 256*pow_f(k-1))); return pow_f(k)
def b128(s,k): UNF.append(b128_f(s,k) == z3.If(k<=0, 0, 128*b128_f(s,k-1) + s[k-1] % 128)); return b128_f(s,k)
def tc(s):     n = z3.Length(s); return be(s,n) - z3.If(s[0]>=128, pow256(n), 0)
def is_bytes(s):
    q = z3.FreshInt('q'); return z3.ForAll([q], z3.Implies(z3.And(0<=q, q<z3.Length(s)), z3.And(0<=s[q], s[q]<=255)))

class Raise(Exception):
    def __init__(self, cls, where): self.cls=cls; self.where=where
class Seq:                      # python-side wrapper: mutable flag only matters for element-range checks
    def __init__(self, t, mutable=False): self.t=t; self.mutable=mutable
class Path:
    def __init__(self, env, pc): self.env=dict(env); self.pc=list(pc)
    def fork(self): return Path(self.env, self.pc)

class Exec:
    def __init__(self, fn, contracts, loopspec):
        self.fn=fn; self.contracts=contracts; self.loopspec=loopspec; self.results=[]; self.obl=[]
        self.loopord={id(n):i for i,n in enumerate(sorted([n for n in ast.walk(fn) if isinstance(n,(ast.For,ast.While))], key=lambda n:(n.lineno,n.col_offset)))}
    # ---- helpers
    def feasible(self, pc):
        s=z3.Solver(); s.set("timeout",5000); s.add(*pc); return s.check()!=z3.unsat
    def truth(self, v):
        if isinstance(v, Seq): return z3.Length(v.t) > 0
        if z3.is_bool(v): return v
        if z3.is_int(v): return v != 0
        if isinstance(v,bool): return z3.BoolVal(v)
        if isinstance(v,int): return z3.BoolVal(v!=0)
        if v is None: return z3.BoolVal(False)
        raise NotImplementedError(("truth",v))
    def toint(self, v):
        if isinstance(v,bool): return z3.IntVal(int(v))
        if isinstance(v,int): return z3.IntVal(v)
        if z3.is_bool(v): return z3.If(v,1,0)
        return v
    # ---- expressions: return list of (value, path) because of implicit raises
    def ev(self, e, p):
        if isinstance(e, ast.Constant): return e.value
        if isinstance(e, ast.Name): return p.env[e.id]
        if isinstance(e, ast.UnaryOp) and isinstance(e.op, ast.Not): return z3.Not(self.truth(self.ev(e.operand,p)))
        if isinstance(e, ast.UnaryOp) and isinstance(e.op, ast.USub): return -self.toint(self.ev(e.operand,p))
        if isinstance(e, ast.BoolOp):
            vs=[self.truth(self.ev(v,p)) for v in e.values]; return z3.And(*vs) if isinstance(e.op,ast.And) else z3.Or(*vs)
        if isinstance(e, ast.Compare):
            assert len(e.ops)==1; a=self.ev(e.left,p); b=self.ev(e.comparators[0],p); op=e.ops[0]
            a,b=self.toint(a),self.toint(b)
            return {ast.Lt:lambda:a<b, ast.LtE:lambda:a<=b, ast.Gt:lambda:a>b, ast.GtE:lambda:a>=b, ast.Eq:lambda:a==b, ast.NotEq:lambda:a!=b}[type(op)]()
        if isinstance(e, ast.BinOp):
            a=self.toint(self.ev(e.left,p)); b=self.toint(self.ev(e.right,p)); op=type(e.op)
            if op is ast.Add: return a+b
            if op is ast.Sub: return a-b
            if op is ast.Mult: return a*b
            if op is ast.LShift:
                k=z3.simplify(b); assert z3.is_int_value(k), "only literal shifts in spike"; return a*(2**k.as_long())
            if op is ast.RShift:
                k=z3.simplify(b); assert z3.is_int_value(k); return a/(2**k.as_long())
            if op is ast.BitAnd:
                m=z3.simplify(b); assert z3.is_int_value(m); m=m.as_long()
                if m & (m+1) == 0: return a % (m+1)                       # low mask
                if m & (m-1) == 0: return ((a / m) % 2) * m               # single bit
                raise NotImplementedError("mask")
            if op is ast.BitOr:
                # a|b -> a+b needs side condition: a % 256 == 0 and 0<=b<256 (obligation)
                self.obl.append(("bitor-disjoint@%d"%e.lineno, list(p.pc), z3.And(a % 256 == 0, 0<=b, b<256)))
                return a+b
            raise NotImplementedError(op)
        if isinstance(e, ast.Subscript):
            base=self.ev(e.value,p)
            if isinstance(e.slice, ast.Slice):
                raise NotImplementedError("slice in spike")
            idx=self.toint(self.ev(e.slice,p)); n=z3.Length(base.t)
            real=z3.If(idx<0, idx+n, idx)
            oob=z3.Or(real<0, real>=n)
            if self.feasible(p.pc+[oob]):
                q=p.fork(); q.pc.append(oob); self.results.append(("raise","IndexError@%d"%e.lineno,q,None))
            p.pc.append(z3.Not(oob)); return base.t[real]
        if isinstance(e, ast.Call):
            f=e.func
            if isinstance(f, ast.Name) and f.id=="len": return z3.Length(self.ev(e.args[0],p).t)
            if isinstance(f, ast.Name) and f.id=="bytearray":
                return Seq(self.ev(e.args[0],p).t, True) if e.args else Seq(z3.Empty(S), True)
            if isinstance(f, ast.Name) and f.id in self.contracts: return self.contracts[f.id](self, e, p)
            raise NotImplementedError(ast.dump(f))
        if isinstance(e, ast.Tuple): return tuple(self.ev(x,p) for x in e.elts)
        if isinstance(e, ast.IfExp):
            return z3.If(self.truth(self.ev(e.test,p)), self.toint(self.ev(e.body,p)), self.toint(self.ev(e.orelse,p)))
        if isinstance(e, ast.Attribute) and isinstance(e.value, ast.Name) and e.value.id=="header": return p.env["header."+e.attr]
        raise NotImplementedError(ast.dump(e))
    def store_elem(self, p, name, idx, val, lineno):
        base=p.env[name]; n=z3.Length(base.t); real=z3.If(idx<0, idx+n, idx)
        oob=z3.Or(real<0, real>=n); bad=z3.Or(val<0, val>255)
        for cond,cls in ((oob,"IndexError"),(z3.And(z3.Not(oob),bad),"ValueError(byte range)")):
            if self.feasible(p.pc+[cond]):
                q=p.fork(); q.pc.append(cond); self.results.append(("raise",f"{cls}@{lineno}",q,None))
        p.pc += [z3.Not(oob), z3.Not(bad)]
        new=z3.FreshConst(S, name)
        k=z3.FreshInt('k')
        p.pc += [z3.Length(new)==n, new[real]==val, z3.ForAll([k], z3.Implies(z3.And(0<=k,k<n,k!=real), new[k]==base.t[k]))]
        p.env[name]=Seq(new, True)
    # ---- statements: returns list of (status, path) with status in normal/break/continue
    def block(self, stmts, p):
        live=[("normal",p)]
        for st in stmts:
            nxt=[]
            for status,q in live:
                if status!="normal": nxt.append((status,q)); continue
                nxt += self.stmt(st,q)
            live=nxt
        return live
    def stmt(self, st, p):
        if isinstance(st, ast.Expr): 
            if isinstance(st.value, ast.Constant): return [("normal",p)]
            self.ev(st.value,p); return [("normal",p)]
        if isinstance(st, ast.Assign):
            v=self.ev(st.value,p); tg=st.targets[0]
            if isinstance(tg, ast.Name): p.env[tg.id]=v
            elif isinstance(tg, ast.Tuple):
                for t_,x in zip(tg.elts, v): p.env[t_.id]=x
            elif isinstance(tg, ast.Subscript):
                self.store_elem(p, tg.value.id, self.toint(self.ev(tg.slice,p)), self.toint(v), st.lineno)
            return [("normal",p)]
        if isinstance(st, ast.AugAssign):
            cur=self.ev(st.target if not isinstance(st.target,ast.Subscript) else ast.Subscript(value=st.target.value, slice=st.target.slice, ctx=ast.Load(), lineno=st.lineno), p)
            val=self.ev(ast.BinOp(left=ast.Constant(0), op=st.op, right=st.value, lineno=st.lineno), p) if False else None
            rhs=self.toint(self.ev(st.value,p)); cur=self.toint(cur)
            op=type(st.op)
            if op is ast.Add: new=cur+rhs
            elif op is ast.Sub: new=cur-rhs
            elif op is ast.Mult: new=cur*rhs
            elif op is ast.RShift: new=cur/(2**z3.simplify(rhs).as_long())
            else: raise NotImplementedError(op)
            if isinstance(st.target, ast.Name): p.env[st.target.id]=new
            else: self.store_elem(p, st.target.value.id, self.toint(self.ev(st.target.slice,p)), new, st.lineno)
            return [("normal",p)]
        if isinstance(st, ast.If):
            c=self.truth(self.ev(st.test,p)); out=[]
            for cond,body in ((c,st.body),(z3.Not(c),st.orelse)):
                q=p.fork(); q.pc.append(cond)
                if self.feasible(q.pc): out += self.block(body,q)
            return out
        if isinstance(st, ast.Return):
            self.results.append(("return",None,p,self.ev(st.value,p))); return []
        if isinstance(st, ast.Raise):
            self.results.append(("raise",st.exc.func.id+"@%d"%st.lineno,p,None)); return []
        if isinstance(st, ast.Break): return [("break",p)]
        if isinstance(st, ast.Continue): return [("continue",p)]
        if isinstance(st, (ast.While, ast.For)): return self.loop(st,p)
        raise NotImplementedError(ast.dump(st)[:80])
    def loop(self, st, p):
        no=self.loopord[id(st)]; spec=self.loopspec.get(no)
        is_for=isinstance(st, ast.For)
        if spec=="once":       # every path through the body leaves the loop: execute body at most once
            out=[]
            if is_for:
                it=st.iter; assert it.func.id=="range"; a=[self.toint(self.ev(x,p)) for x in it.args]   # range(start, stop, -1)
                start,stop,step=a; assert z3.simplify(step).as_long()==-1
                q=p.fork(); q.pc.append(start>stop); q.env[st.target.id]=start
                if self.feasible(q.pc):
                    for status,r in self.block(st.body,q):
                        assert status=="break", "body must always break for 'once'"
                        out.append(("normal",r))
                z=p.fork(); z.pc.append(z3.Not(start>stop)); 
                if self.feasible(z.pc): out.append(("normal",z))
            return out
        # invariant-based: spec = dict(vars=[mutated names], inv=lambda env: z3 formula, idx=name for For-range/enumeration)
        # 1. establish
        pre_env=dict(p.env)
        if is_for:
            ivar=spec["idx"]; p.env[ivar]=z3.IntVal(0)
            if isinstance(st.iter, ast.Call): hi=self.toint(self.ev(st.iter.args[0],p)); elem=None
            else: seq=self.ev(st.iter,p); hi=z3.Length(seq.t); elem=seq
        self.obl.append((f"loop[{no}]/init", list(p.pc), spec["inv"](p.env)))
        # 2. havoc + assume inv
        h=p.fork()
        for v in spec["vars"]+([spec["idx"]] if is_for else []):
            old=h.env[v]
            if isinstance(old, Seq): h.env[v]=Seq(z3.FreshConst(S,v), old.mutable)
            else: h.env[v]=z3.FreshInt(v)
        h.pc.append(spec["inv"](h.env))
        if is_for: guard = h.env[spec["idx"]] < hi
        else: guard = self.truth(self.ev(st.test,h))
        body=h.fork(); body.pc.append(guard)
        out=[]
        if self.feasible(body.pc):
            if is_for:
                i=body.env[spec["idx"]]
                body.env[st.target.id] = (elem.t[i] if elem is not None else i)
            for status,r in self.block(st.body, body):
                if status in ("normal","continue"):
                    if is_for: r.env[spec["idx"]] = r.env[spec["idx"]]+1
                    self.obl.append((f"loop[{no}]/preserve", list(r.pc), spec["inv"](r.env)))
                elif status=="break": out.append(("normal",r))
        ex=h.fork(); ex.pc.append(z3.Not(guard))
        if self.feasible(ex.pc): out.append(("normal",ex))
        return out

def run(fname, params, contracts, loopspec, requires):
    fn=FUNCS[fname]; ex=Exec(fn, contracts, loopspec)
    p=Path(params, requires)
    leftover=ex.block(fn.body, p)
    assert not leftover, "fell off the end"
    return ex

def discharge(name, pc, goal, timeout=20000):
    s=z3.Solver(); s.set("timeout",timeout); s.add(*pc); s.add(*UNF); s.add(z3.Not(goal))
    t=time.time(); r=s.check(); return r, time.time()-t, (s.model() if r==z3.sat else None)

def seqval(m, s):
    n=m.eval(z3.Length(s), model_completion=True).as_long()
    return [m.eval(s[i], model_completion=True).as_long() for i in range(n)]
