import z3, time
I = z3.IntSort(); B = z3.SeqSort(I)
def prove(name, hyps, goal, timeout=60000):
    s = z3.Solver(); s.set("timeout", timeout)
    for h in hyps: s.add(h)
    s.add(z3.Not(goal))
    t=time.time(); r = s.check(); dt=time.time()-t
    print(f"{name}: {'PROVED' if r==z3.unsat else r} {dt:.2f}s")
    if r==z3.sat: print(s.model())
Tag = z3.Datatype('Tag'); Tag.declare('mk', ('cls', I), ('num', I), ('cons', z3.BoolSort())); Tag = Tag.create()
Node = z3.Datatype('Node'); Node.declare('mk', ('tag', Tag), ('content', B)); Node = Node.create()
NL = z3.SeqSort(Node)
Opt = z3.Datatype('OptB'); Opt.declare('none'); Opt.declare('some', ('val', B)); Opt = Opt.create()
CTX = 2
ns0 = z3.Const('ns0', NL); junk = z3.Const('junk', NL); namec = z3.Const('namec', B)
mval = z3.Const('mval', Opt); t1 = z3.Const('t1', Tag)
q = z3.Int('q')
is1 = lambda n: z3.And(Tag.cls(Node.tag(n))==CTX, Tag.num(Node.tag(n))==1)
optval = z3.If(Opt.is_some(mval), z3.Unit(Node.mk(t1, Opt.val(mval))), z3.Empty(NL))
pre = z3.And(ns0 == z3.Concat(z3.Unit(Node.mk(Tag.mk(CTX,0,False), namec)), optval, junk),
             Tag.cls(t1)==CTX, Tag.num(t1)==1,
             z3.ForAll([q], z3.Implies(z3.And(0<=q, q<z3.Length(junk)), z3.Not(is1(junk[q])))))
ov = z3.If(Opt.is_some(mval), 1, 0)
k = z3.Int('k'); nodes = z3.Const('nodes', NL); value = z3.Const('value', Opt)
def inv(nodes, value, k):
    return z3.And(1<=k, k<=z3.Length(ns0), nodes == z3.SubSeq(ns0, k, z3.Length(ns0)-k),
                  z3.Implies(k >= 1+ov, value == mval), z3.Implies(k < 1+ov, value == Opt.none))
# init: after reading name: nodes = ns0[1:], value=None, k=1 ; also check first read has right tag
prove("first read tag ok", [pre], z3.And(z3.Length(ns0)>=1, Node.tag(ns0[0])==Tag.mk(CTX,0,False), Node.content(ns0[0])==namec))
prove("inv init", [pre], inv(z3.SubSeq(ns0,1,z3.Length(ns0)-1), Opt.none, 1))
# preserve: loop guard len(nodes)>0; head = nodes[0]
head = nodes[0]; tail = z3.SubSeq(nodes,1,z3.Length(nodes)-1)
hint1 = z3.And(head == ns0[k], tail == z3.SubSeq(ns0,k+1,z3.Length(ns0)-(k+1)), k < z3.Length(ns0))
prove("hint1", [inv(nodes,value,k), z3.Length(nodes)>0], hint1)
hy = [pre, inv(nodes,value,k), z3.Length(nodes)>0, hint1]
# hint2: identify ns0[k]
hint2 = z3.And(z3.Implies(z3.And(k==1, ov==1), ns0[k]==Node.mk(t1, Opt.val(mval))),
               z3.Implies(k>=1+ov, ns0[k]==junk[k-1-ov]))
prove("hint2", [pre, 1<=k, k<z3.Length(ns0)], hint2)
hy.append(hint2)
prove("preserve (branch tag==1)", hy+[is1(head)], inv(tail, Opt.some(Node.content(head)), k+1))
prove("preserve (branch skip)",  hy+[z3.Not(is1(head))], inv(tail, value, k+1))
prove("exit", [pre, inv(nodes,value,k), z3.Length(nodes)==0], value==mval)
