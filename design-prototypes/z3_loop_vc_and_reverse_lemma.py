# Feasibility: loop VC for _unpack_asn1_octet_number and BE/LE reverse lemma in z3
import z3, time
I = z3.IntSort()
S = z3.SeqSort(I)

def prove(name, hyps, goal, timeout=20000):
    s = z3.Solver(); s.set("timeout", timeout)
    for h in hyps: s.add(h)
    s.add(z3.Not(goal))
    t=time.time(); r = s.check(); dt=time.time()-t
    print(f"{name}: {'PROVED' if r==z3.unsat else r} {dt:.2f}s")
    if r==z3.sat: print(s.model())

# spec: b128_upto(data,k) = value of first k octets base128 (low 7 bits)
b128 = z3.RecFunction('b128', S, I, I)
d,k = z3.Const('d',S), z3.Int('k')
z3.RecAddDefinition(b128, [d,k], z3.If(k<=0, 0, 128*b128(d,k-1) + (d[k-1] % 128)))

data = z3.Const('data', S); i,idx = z3.Ints('i idx')
bytes_ok = lambda s: z3.ForAll([k], z3.Implies(z3.And(0<=k, k<z3.Length(s)), z3.And(0<=s[k], s[k]<256)))
inv = lambda i,idx: z3.And(0<=idx, idx<=z3.Length(data), i==b128(data,idx),
        z3.ForAll([k], z3.Implies(z3.And(0<=k,k<idx), data[k]>=128)))
# loop body: if len(data) < idx+1: raise; element=data[idx]; idx+=1; i=(i<<7)+(element&127); if not element&128: break
elem = data[idx]
i2 = i*128 + elem % 128
idx2 = idx+1
cont = (elem / 128) % 2 == 1   # element & 0x80 nonzero
hy = [bytes_ok(data), inv(i,idx), z3.Not(z3.Length(data) < idx+1)]
prove("inv preserved (continue)", hy+[cont], inv(i2,idx2))
post = z3.And(i2==b128(data,idx2), data[idx2-1]<128, idx2<=z3.Length(data))
prove("post at break", hy+[z3.Not(cont)], post)

# BE/LE lemma: r = reverse(d) (as index relation) => be_upto(r,j) == le_from(d,n-j)
be = z3.RecFunction('be', S, I, I)
z3.RecAddDefinition(be, [d,k], z3.If(k<=0, 0, 256*be(d,k-1)+d[k-1]))
le = z3.RecFunction('le', S, I, I)   # le_from(d,k) value of d[k:]
z3.RecAddDefinition(le, [d,k], z3.If(k>=z3.Length(d), 0, d[k] + 256*le(d,k+1)))
r = z3.Const('r', S); dd = z3.Const('dd', S); j = z3.Int('j'); n = z3.Length(dd)
isrev = z3.And(z3.Length(r)==n, z3.ForAll([k], z3.Implies(z3.And(0<=k,k<n), r[k]==dd[n-1-k])))
IH = be(r,j)==le(dd,n-j)
prove("rev lemma base", [isrev], be(r,0)==le(dd,n))
prove("rev lemma step", [isrev, 0<=j, j<n, IH], be(r,j+1)==le(dd,n-j-1))

# LE append lemma: LEV(d ++ [x], t) == LEV(d, x + 256 t)
lev = z3.RecFunction('lev', S, I, I, I)  # lev(d,k,top): value of d[k:] with top
t_ = z3.Int('t')
z3.RecAddDefinition(lev, [d,k,t_], z3.If(k>=z3.Length(d), t_, d[k] + 256*lev(d,k+1,t_)))
x = z3.Int('x'); top = z3.Int('top')
d2 = z3.Concat(dd, z3.Unit(x))
# induct on m = n - k (downwards on k): claim P(k): lev(d2,k,top) == lev(dd,k,x+256*top) for 0<=k<=n
prove("append lemma base k=n", [], lev(d2,n,top)==lev(dd,n,x+256*top))
prove("append lemma step", [0<=j, j<n, lev(d2,j+1,top)==lev(dd,j+1,x+256*top)], lev(d2,j,top)==lev(dd,j,x+256*top))
