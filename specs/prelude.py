"""Native meaning of the primitive specification functions (the engine has built-in symbolic counterparts)."""


def cat(*parts):
    return b"".join(bytes(p) for p in parts)


def seq1(x):
    return bytes([x])


def empty():
    return b""


def take(s, k):
    """The first k octets (all of s when k > len(s), empty when k < 0)."""
    return bytes(s[:k]) if k >= 0 else b""


def drop(s, k):
    """s without its first k octets (empty when k < 0 or k > len(s))."""
    return bytes(s[k:]) if 0 <= k <= len(s) else b""


def is_bytes(s):
    return all(0 <= b <= 255 for b in s)


def implies(a, b):
    return (not a) or b


def ite(c, a, b):
    return a if c else b


def uninterpreted(f):
    return f


def empty_set():
    return frozenset()


def set_add(s, x):
    return frozenset(s) | {x}


def set_del(s, x):
    return frozenset(s) - {x}


def subset(a, b):
    return frozenset(a) <= frozenset(b)


def ids_below(s, n):
    return all(1 <= x < n for x in s)


# sort names used in annotations of uninterpreted specification functions
obj = object
seqobj = list
seqstr = list
seqbytes = list
intset = frozenset


def nil_obj():
    return []


def cons_obj(x, rest):
    return [x] + list(rest)


def cat_obj(a, b):
    return list(a) + list(b)


def utf8(text):
    """The octets str.encode produces (library default encoding)."""
    return text.encode("utf-8")


def unutf8(octets):
    return bytes(octets).decode("utf-8")


def or_empty(x):
    return b"" if x is None else (x.encode("utf-8") if isinstance(x, str) else bytes(x))


def nil_bytes():
    return []


def snoc_bytes(xs, b):
    return list(xs) + [bytes(b)]


def cat_list(xs, ys):
    return list(xs) + list(ys)


def slice_list(xs, i, n):
    return list(xs)[i:n]
