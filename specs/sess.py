"""Abstract vocabulary of the session layer (L3).

`enc` is the message encoder seen as a mathematical function of the message value and the packing options: at this
layer `LDAPMessage.pack` is abstract (its contract says `result == enc(self, options)`); layer L2 (contracts/messages.py)
is where `pack` is related to RFC 4511.  Natively these functions are computed with the real code, so run-time contract
checking compares real bytes.
"""
from specs.prelude import *  # noqa: F401,F403


@uninterpreted
def enc(m: obj, o: obj) -> bytes:
    f = type(m).pack
    return bytes(getattr(f, "__wrapped__", f)(m, o))      # the real encoder (not the contract-checking wrapper)


@uninterpreted
def upd_message_id(m: obj, i: int) -> obj:
    import dataclasses
    return dataclasses.replace(m, message_id=i)


@uninterpreted
def msgs_of(s: bytes, o: obj) -> seqobj:
    """The messages denoted by the complete top-level TLVs at the front of s (decoded with options o)."""
    raise NotImplementedError


# session states (sansldap._session.SessionState uses enum.auto(): 1..4)
def st_before_open() -> int:
    return 1


def st_binding() -> int:
    return 2


def st_opened() -> int:
    return 3


def st_closed() -> int:
    return 4
