"""Abstract vocabulary of the session layer (L3).

`enc` is the message encoder seen as a mathematical function of the message value and the packing options: at this
layer `LDAPMessage.pack` is abstract (its contract says `result == enc(self, options)`); layer L2 (contracts/messages.py)
is where `pack` is related to RFC 4511.  Natively these functions are computed with the real code, so run-time contract
checking compares real bytes.
"""
from specs.prelude import *  # noqa: F401,F403
from specs.ber import *  # noqa: F401,F403


@uninterpreted
def enc(m: obj, o: obj) -> bytes:
    f = type(m).pack
    return bytes(getattr(f, "__wrapped__", f)(m, o))      # the real encoder (not the contract-checking wrapper)


@uninterpreted
def upd_message_id(m: obj, i: int) -> obj:
    import dataclasses
    return dataclasses.replace(m, message_id=i)


@uninterpreted
def msgs_of(s: bytes, o: obj) -> seqobj:
    """The messages denoted by the complete top-level TLVs at the front of s (decoded with options o)."""
    raise NotImplementedError


# session states (sansldap._session.SessionState uses enum.auto(): 1..4)
def st_before_open() -> int:
    return 1


def st_binding() -> int:
    return 2


def st_opened() -> int:
    return 3


def st_closed() -> int:
    return 4


# ---- framing of the incoming byte stream (C02, C06): top-level TLVs, by the X.690 header semantics of specs/ber.py
@uninterpreted
def dec_content(content: bytes, o: obj) -> obj:
    """The message denoted by the content octets of one LDAPMessage envelope under the options o (decoding is a
    function of those octets and the options only: see C19)."""
    raise NotImplementedError


def tlv_len(s: bytes) -> int:
    return hdr_len(s) + val_len(s)


def residue(s: bytes) -> bytes:
    """What is left after the complete top-level TLVs at the front of s: empty or the beginning of an incomplete one."""
    return s if not tlv_complete(s) else residue(drop(s, tlv_len(s)))


def nframes(s: bytes) -> int:
    return 0 if not tlv_complete(s) else 1 + nframes(drop(s, tlv_len(s)))


def msgs(s: bytes, o: obj) -> seqobj:
    """The messages denoted by the complete top-level TLVs at the front of s, in order."""
    return nil_obj() if not tlv_complete(s) else cons_obj(dec_content(content_of(s), o), msgs(drop(s, tlv_len(s)), o))


# ---- chunking lemmas (C02): delivering A and then B is the same as delivering A ++ B
def lemma_tlv_prefix(a: bytes, b: bytes) -> None:
    """A complete TLV stays the same TLV when more octets follow."""
    assert len(a) >= 1
    if id_low(a) >= 31:
        lemma_b128end_bounds(drop(a, 1), 0)
        lemma_b128end_prefix(drop(a, 1), b, 0)
        lemma_b128_prefix(drop(a, 1), b, 0, id_len(a) - 1)
        assert drop(cat(a, b), 1) == cat(drop(a, 1), b)
    assert id_len(a) >= 1
    assert id_len(a) < len(a)
    assert cat(a, b)[0] == a[0]
    assert id_len(cat(a, b)) == id_len(a)
    assert cat(a, b)[id_len(a)] == a[id_len(a)]
    if len_first(a) >= 128:
        lemma_be_bound(drop(a, id_len(a) + 1), 0, len_first(a) - 128)
        lemma_be_prefix(drop(a, id_len(a) + 1), b, 0, len_first(a) - 128)
        assert drop(cat(a, b), id_len(a) + 1) == cat(drop(a, id_len(a) + 1), b)
    assert hdr_len(cat(a, b)) == hdr_len(a)
    assert val_len(cat(a, b)) == val_len(a)
    assert val_len(a) >= 0


def lemma_chunk(a: bytes, b: bytes, o: obj) -> None:
    """msgs(a ++ b) == msgs(a) ++ msgs(residue(a) ++ b)   and   residue(a ++ b) == residue(residue(a) ++ b)."""
    if tlv_complete(a):
        lemma_tlv_prefix(a, b)
        assert drop(cat(a, b), tlv_len(a)) == cat(drop(a, tlv_len(a)), b)
        assert content_of(cat(a, b)) == content_of(a)
        lemma_chunk(drop(a, tlv_len(a)), b, o)


def lemma_residue_incomplete(s: bytes) -> None:
    """The residue never starts with a complete TLV (so holding it back is justified), and it is a suffix of s."""
    if tlv_complete(s):
        lemma_tlv_prefix(s, empty())
        lemma_residue_incomplete(drop(s, tlv_len(s)))


# ---- any partition into chunks (C02): delivering chunks[i:] one call after the other, starting from the held-back bytes r.
# By the proved contract of receive, one call with held-back bytes r and data d returns msgs(r ++ d) and holds back
# residue(r ++ d); deliver_msgs / deliver_residue fold that over the list of chunks.
def joined(chunks: seqbytes, i: int) -> bytes:
    return empty() if i >= len(chunks) else cat(chunks[i], joined(chunks, i + 1))


def deliver_msgs(r: bytes, chunks: seqbytes, i: int, o: obj) -> seqobj:
    return nil_obj() if i >= len(chunks) else cat_obj(msgs(cat(r, chunks[i]), o), deliver_msgs(residue(cat(r, chunks[i])), chunks, i + 1, o))


def deliver_residue(r: bytes, chunks: seqbytes, i: int) -> bytes:
    return r if i >= len(chunks) else deliver_residue(residue(cat(r, chunks[i])), chunks, i + 1)


def lemma_any_chunking(r: bytes, chunks: seqbytes, i: int, o: obj) -> None:
    """Delivering the chunks one by one returns the same messages in the same order, and holds back the same bytes, as delivering
    their concatenation in one call - for every partition (induction over the chunks, lemma_chunk at each step).  r is what a
    previous call held back, so it does not start with a complete TLV (lemma_residue_incomplete); initially it is empty."""
    if i < len(chunks):
        lemma_chunk(cat(r, chunks[i]), joined(chunks, i + 1), o)
        assert cat(cat(r, chunks[i]), joined(chunks, i + 1)) == cat(r, joined(chunks, i))
        lemma_residue_incomplete(cat(r, chunks[i]))
        lemma_any_chunking(residue(cat(r, chunks[i])), chunks, i + 1, o)
    else:
        assert cat(r, empty()) == r
