"""X.690 (BER) oracles, written from the standard - not from the code under verification.

Every function is a single `return <expression>` inside the engine's subset, so one definition is used twice:
translated to SMT (uninterpreted function + instantiated unfolding axioms) for proofs, executed natively for replay
and bounded evaluation.  Octet strings are `bytes`; all arithmetic is over unbounded integers.

 8.1.2  identifier octets: bits 8-7 class, bit 6 P/C, bits 5-1 tag number; 31 = "high tag number form": the number
        follows base-128, big-endian, bit 8 set on all but the last octet, first octet not 0x80 (minimal).
 8.1.3  length octets, definite form: short (bit 8 clear, 0..127) or long (first octet 0x80|k, 1<=k<=126, then k octets
        big-endian).  0x80 alone is the indefinite form (not allowed in LDAP, RFC 4511 5.1).
 8.2    BOOLEAN: one octet, FALSE = 0, TRUE = any non-zero octet (DER / RFC 4511 5.1: 0xFF).
 8.3    INTEGER: two's complement, one or more octets, minimal: the first nine bits are not all equal.
"""
from specs.prelude import *  # noqa: F401,F403


def pow2(k: int) -> int:
    return 1 if k <= 0 else 2 * pow2(k - 1)


def pow256(k: int) -> int:
    return 1 if k <= 0 else 256 * pow256(k - 1)


def pow128(k: int) -> int:
    return 1 if k <= 0 else 128 * pow128(k - 1)


def be(s: bytes, lo: int, hi: int) -> int:
    """Unsigned big-endian value of the octets s[lo:hi]."""
    return 0 if hi <= lo else 256 * be(s, lo, hi - 1) + s[hi - 1]


def le(s: bytes, k: int) -> int:
    """Unsigned little-endian value of the first k octets."""
    return 0 if k <= 0 else le(s, k - 1) + s[k - 1] * pow256(k - 1)


def b128(s: bytes, lo: int, hi: int) -> int:
    """Base-128 big-endian value of the low seven bits of the octets s[lo:hi]."""
    return 0 if hi <= lo else 128 * b128(s, lo, hi - 1) + s[hi - 1] % 128


def b128end(s: bytes, i: int) -> int:
    """Index of the first octet at or after i whose bit 8 is clear (len(s) if there is none)."""
    return i if (i >= len(s) or s[i] < 128) else b128end(s, i + 1)


def tc(s: bytes) -> int:
    """Two's-complement value of a non-empty octet string (X.690 8.3.3)."""
    return be(s, 0, len(s)) - (pow256(len(s)) if s[0] >= 128 else 0)


def bool_den(s: bytes) -> bool:
    """Value of BOOLEAN content octets.  X.690 8.2: one octet, FALSE = 00, TRUE = any other octet.  Contents of another length are
    malformed and the standard gives them no meaning; the total extension chosen here reads everything that is not the single octet 00
    as TRUE (it has to be *some* function of the content for the folds over optional BOOLEAN components)."""
    return not (len(s) == 1 and s[0] == 0)


def minimal_tc(s: bytes) -> bool:
    """X.690 8.3.2: the bits of the first octet and bit 8 of the second are not all ones and not all zero."""
    return len(s) == 1 or (len(s) >= 2 and not (s[0] == 0 and s[1] < 128) and not (s[0] == 255 and s[1] >= 128))


# ---- identifier octets (decode direction: what given octets denote)
def id_class(s: bytes) -> int:
    return s[0] // 64


def id_constructed(s: bytes) -> bool:
    return (s[0] // 32) % 2 == 1


def id_low(s: bytes) -> int:
    return s[0] % 32


def id_len(s: bytes) -> int:
    """Number of identifier octets (high tag number form: 1 + the base-128 octets that follow)."""
    return 1 if id_low(s) < 31 else 2 + b128end(drop(s, 1), 0)


def id_number(s: bytes) -> int:
    return id_low(s) if id_low(s) < 31 else b128(drop(s, 1), 0, id_len(s) - 1)


def id_complete(s: bytes) -> bool:
    return len(s) >= 1 and (id_low(s) < 31 or b128end(drop(s, 1), 0) < len(s) - 1)


# ---- length octets: they start right after the identifier octets
def len_first(s: bytes) -> int:
    return s[id_len(s)]


def len_len(s: bytes) -> int:
    """Number of length octets."""
    return 1 if len_first(s) < 128 else 1 + (len_first(s) - 128)


def val_len(s: bytes) -> int:
    """The content length the length octets denote (definite forms only)."""
    return len_first(s) if len_first(s) < 128 else be(drop(s, id_len(s) + 1), 0, len_first(s) - 128)


def hdr_len(s: bytes) -> int:
    return id_len(s) + len_len(s)


def hdr_complete(s: bytes) -> bool:
    return id_complete(s) and len(s) > id_len(s) and len(s) >= hdr_len(s)


def indefinite(s: bytes) -> bool:
    return len_first(s) == 128


def tlv_complete(s: bytes) -> bool:
    return hdr_complete(s) and not indefinite(s) and len(s) >= hdr_len(s) + val_len(s)


def universal_number_known(n: int) -> bool:
    """Tag numbers of sansldap.asn1.TypeTagNumber (0..36): the reader maps UNIVERSAL numbers into that enum."""
    return 0 <= n and n <= 36


# ---- minimality (encode direction: X.690 'fewest octets' / DER 10.1 as RFC 4511 5.1 requires for lengths)
def id_minimal(s: bytes) -> bool:
    """High tag number form only for numbers >= 31, and without a leading 0x80 octet."""
    return id_low(s) < 31 or (id_number(s) >= 31 and s[1] != 128)


def len_minimal(s: bytes) -> bool:
    """Short form below 128, otherwise long form whose first length octet is non-zero."""
    return (len_first(s) < 128) if val_len(s) < 128 else (len_first(s) > 128 and s[id_len(s) + 1] != 0)


def tlv_of(s: bytes, tag_class: int, constructed: bool, number: int, content: bytes) -> bool:
    """s is exactly one TLV with this tag, minimal identifier and length octets, and this content."""
    return (tlv_complete(s) and id_class(s) == tag_class and id_constructed(s) == constructed and id_number(s) == number
            and val_len(s) == len(content) and len(s) == hdr_len(s) + len(content) and drop(s, hdr_len(s)) == content
            and id_minimal(s) and len_minimal(s))


def content_of(s: bytes) -> bytes:
    """Content octets of the first TLV in s."""
    return take(drop(s, hdr_len(s)), val_len(s))


def rest_of(s: bytes) -> bytes:
    return drop(s, hdr_len(s) + val_len(s))


# ---- lemmas (ghost functions; contracts in /verif/contracts/asn1.py, proved like any other function)
def lemma_be_prefix(s: bytes, r: bytes, lo: int, hi: int) -> None:
    """be over a prefix is unaffected by what follows."""
    if hi > lo:
        lemma_be_prefix(s, r, lo, hi - 1)


def lemma_b128_prefix(s: bytes, r: bytes, lo: int, hi: int) -> None:
    if hi > lo:
        lemma_b128_prefix(s, r, lo, hi - 1)


def lemma_b128end_prefix(s: bytes, r: bytes, i: int) -> None:
    if i < len(s) and s[i] >= 128:
        lemma_b128end_prefix(s, r, i + 1)


def lemma_pow256_pos(k: int) -> None:
    if k > 0:
        lemma_pow256_pos(k - 1)


def lemma_pow128_pos(k: int) -> None:
    if k > 0:
        lemma_pow128_pos(k - 1)


def lemma_be_bound(s: bytes, lo: int, hi: int) -> None:
    """0 <= be(s, lo, hi) < 256^(hi-lo) for octet strings."""
    if hi > lo:
        lemma_be_bound(s, lo, hi - 1)


def lemma_le_bound(s: bytes, k: int) -> None:
    if k > 0:
        lemma_le_bound(s, k - 1)


def lemma_le_frame(a: bytes, b: bytes, k: int) -> None:
    """le depends only on the first k octets."""
    if k > 0:
        lemma_le_frame(a, b, k - 1)


def lemma_be_frame(a: bytes, b: bytes, lo: int, hi: int) -> None:
    if hi > lo:
        lemma_be_frame(a, b, lo, hi - 1)


def lemma_b128_frame(a: bytes, b: bytes, lo: int, hi: int) -> None:
    if hi > lo:
        lemma_b128_frame(a, b, lo, hi - 1)


def lemma_be_le_reverse(d: bytes, r: bytes, j: int) -> None:
    """r is the reversal of d: the big-endian value of r's first j octets is the little-endian value of d's last j."""
    if j > 0:
        lemma_be_le_reverse(d, r, j - 1)


def lemma_le_split(d: bytes, k: int, n: int) -> None:
    """le(d, n) == le(d, k) + 256^k * (little-endian value of d[k:n])   (stated with le_from)."""
    if n > k:
        lemma_le_split(d, k, n - 1)


def le_from(s: bytes, k: int, n: int) -> int:
    """Little-endian value of s[k:n]."""
    return 0 if n <= k else s[k] + 256 * le_from(s, k + 1, n)


def lemma_be_shift(s: bytes, lo: int, hi: int) -> None:
    """be(s, lo, hi) == s[lo] * 256^(hi-lo-1) + be(s, lo+1, hi)."""
    if hi > lo + 1:
        lemma_be_shift(s, lo, hi - 1)


def le128(s: bytes, k: int) -> int:
    """Little-endian base-128 value of the low seven bits of the first k octets."""
    return 0 if k <= 0 else le128(s, k - 1) + (s[k - 1] % 128) * pow128(k - 1)


def lemma_b128_le128_reverse(d: bytes, r: bytes, j: int) -> None:
    if j > 0:
        lemma_b128_le128_reverse(d, r, j - 1)


def lemma_b128end_find(s: bytes, i: int, j: int) -> None:
    """If s[i..j) all have bit 8 set and s[j] does not, the number that starts at i ends at j."""
    if i < j:
        lemma_b128end_find(s, i + 1, j)


def lemma_pow2_8(k: int) -> None:
    """2^(8k) == 256^k"""
    if k > 0:
        lemma_pow2_8(k - 1)


def lemma_be_complement(c: bytes, m: bytes, j: int) -> None:
    """m is the octet-wise complement of c: be(m) + be(c) == 256^j - 1 over the first j octets."""
    if j > 0:
        lemma_be_complement(c, m, j - 1)


def lemma_be_increment(a: bytes, b: bytes, i: int, n: int) -> None:
    """b is a with octet i incremented and the octets after it wrapped from 0xFF to 0: be(b) == be(a) + 1."""
    if n > i + 1:
        lemma_be_increment(a, b, i, n - 1)
    else:
        lemma_be_frame(a, b, 0, i)


def lemma_le128_frame(a: bytes, b: bytes, k: int) -> None:
    if k > 0:
        lemma_le128_frame(a, b, k - 1)


def lemma_div_step(v: int, b: int, p: int, l: int) -> None:
    """(v div b) * (b * p) + l + (v mod b) * p == v * p + l   - the digit-extraction step of a positional encoding."""
    pass


# ---- composition lemmas: what the spec parser sees in identifier ++ length ++ content built from parts
def lemma_id_low(f: int, rest: bytes) -> None:
    pass


def lemma_id_high(f: int, t: bytes, rest: bytes) -> None:
    lemma_b128end_find(t, 0, len(t) - 1)
    lemma_b128end_prefix(t, rest, 0)
    lemma_b128_prefix(t, rest, 0, len(t))


def lemma_len_short(i: bytes, n: int, content: bytes) -> None:
    assert cat(i, seq1(n), content)[len(i)] == n
    assert drop(cat(i, seq1(n), content), len(i) + 1) == content


def lemma_len_long(i: bytes, r: bytes, content: bytes) -> None:
    lemma_be_prefix(r, content, 0, len(r))
    assert cat(i, seq1(128 + len(r)), r, content)[len(i)] == 128 + len(r)
    assert cat(i, seq1(128 + len(r)), r, content)[len(i) + 1] == r[0]
    assert drop(cat(i, seq1(128 + len(r)), r, content), len(i) + 1 + len(r)) == content


def lemma_le_increment(a: bytes, b: bytes, i: int, n: int) -> None:
    """b is a with octet i incremented and the octets before it wrapped from 0xFF to 0 (little-endian carry):
    le(b, n) == le(a, n) + 1."""
    if n > i + 1:
        lemma_le_increment(a, b, i, n - 1)
    else:
        lemma_le_wrap(a, b, i)


def lemma_le_wrap(a: bytes, b: bytes, i: int) -> None:
    """The first i octets of a are 0xFF and those of b are 0: le(a, i) == 256^i - 1 and le(b, i) == 0."""
    if i > 0:
        lemma_le_wrap(a, b, i - 1)


def lemma_le_all255(a: bytes, n: int) -> None:
    if n > 0:
        lemma_le_all255(a, n - 1)


def lemma_le_prefix(s: bytes, r: bytes, k: int) -> None:
    """le over a prefix is unaffected by what follows."""
    if k > 0:
        lemma_le_prefix(s, r, k - 1)


# ---- property-level lemmas of C07: what a writer emitted is what a reader sees, whatever follows it
def lemma_tlv_roundtrip(s: bytes, tag_class: int, constructed: bool, number: int, content: bytes, rest: bytes) -> None:
    """Unique readability: a TLV written with minimal header octets is parsed back to the same tag, length, content
    and remainder, independently of the octets that follow."""
    if id_low(s) >= 31:
        lemma_b128end_prefix(drop(s, 1), rest, 0)
        lemma_b128_prefix(drop(s, 1), rest, 0, id_len(s) - 1)
        assert drop(cat(s, rest), 1) == cat(drop(s, 1), rest)
    assert cat(s, rest)[0] == s[0]
    assert id_len(cat(s, rest)) == id_len(s)
    assert cat(s, rest)[id_len(s)] == s[id_len(s)]
    if len_first(s) >= 128:
        lemma_be_prefix(drop(s, id_len(s) + 1), rest, 0, len_first(s) - 128)
        assert drop(cat(s, rest), id_len(s) + 1) == cat(drop(s, id_len(s) + 1), rest)
    assert hdr_len(cat(s, rest)) == hdr_len(s)
    assert val_len(cat(s, rest)) == val_len(s)
    assert drop(cat(s, rest), hdr_len(s)) == cat(content, rest)


def lemma_integer_roundtrip(w: bytes, tag_class: int, constructed: bool, number: int, c: bytes, value: int, rest: bytes) -> None:
    lemma_tlv_roundtrip(w, tag_class, constructed, number, c, rest)


def lemma_boolean_roundtrip(w: bytes, tag_class: int, constructed: bool, number: int, value: bool, rest: bytes) -> None:
    lemma_tlv_roundtrip(w, tag_class, constructed, number, seq1(255 if value else 0), rest)


def lemma_b128end_bounds(s: bytes, i: int) -> None:
    if i < len(s) and s[i] >= 128:
        lemma_b128end_bounds(s, i + 1)
