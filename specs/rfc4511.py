"""An independent RFC 4511 / X.690 codec written from the ASN.1 of RFC 4511 Appendix B (and RFC 2696 for the paged
results control value) - it shares no code with sansldap.  Abstract values are plain Python data:

  message   = {"id": int, "op": (kind, fields...), "controls": [control, ...]}
  control   = {"type": str, "critical": bool, "value": bytes | None}
  result    = {"code": int, "matched": str, "diag": str, "referral": [str] | None}
  filter    = ("and", [f..]) | ("or", [f..]) | ("not", f) | ("eq"|"ge"|"le"|"approx", attr, value) | ("present", attr)
            | ("substrings", attr, initial|None, [any..], final|None) | ("ext", rule|None, attr|None, value, dnattrs)

decode(data, strict=True) is the "independent decoder written from the RFC": every tag is checked for class, number and
primitive/constructed form; with strict=True it additionally demands the DER-like restrictions RFC 4511 5.1 puts on
LDAP (definite minimal lengths, TRUE = 0xFF, minimal INTEGERs, DEFAULT values and absent OPTIONALs omitted).
encode(msg) produces that canonical form.  `variants` re-encodes with the freedoms a conforming peer may use (C04).
"""

UNIV, APPL, CTX = 0, 1, 2


class DecodeError(Exception):
    pass


# ------------------------------------------------------------------------------------------------ BER primitives
def enc_len(n, extra=0):
    if n < 128 and not extra:
        return bytes([n])
    k = max(1, (n.bit_length() + 7) // 8) + extra
    return bytes([0x80 | k]) + n.to_bytes(k, "big")


def enc_tag(cls, cons, num):
    first = (cls << 6) | (0x20 if cons else 0)
    if num < 31:
        return bytes([first | num])
    out = [num & 0x7F]
    num >>= 7
    while num:
        out.append(0x80 | (num & 0x7F))
        num >>= 7
    return bytes([first | 31]) + bytes(reversed(out))


def tlv(cls, cons, num, content, extra=0):
    return enc_tag(cls, cons, num) + enc_len(len(content), extra) + content


def enc_int(v):
    n = 1
    while True:
        try:
            return v.to_bytes(n, "big", signed=True)
        except OverflowError:
            n += 1


def read_tlv(data, pos, end, strict):
    """-> (cls, cons, num, content_start, content_end)"""
    if pos >= end:
        raise DecodeError("missing element")
    first = data[pos]
    pos += 1
    cls, cons, num = first >> 6, bool(first & 0x20), first & 0x1F
    if num == 31:
        num = 0
        first_oct = True
        while True:
            if pos >= end:
                raise DecodeError("truncated tag")
            b = data[pos]
            pos += 1
            if strict and first_oct and b == 0x80:
                raise DecodeError("non-minimal high tag number")
            first_oct = False
            num = (num << 7) | (b & 0x7F)
            if not b & 0x80:
                break
        if strict and num < 31:
            raise DecodeError("high tag form for a small number")
    if pos >= end:
        raise DecodeError("missing length")
    l0 = data[pos]
    pos += 1
    if l0 == 0x80:
        raise DecodeError("indefinite length")
    if l0 < 0x80:
        ln = l0
    else:
        k = l0 & 0x7F
        if pos + k > end:
            raise DecodeError("truncated length")
        ln = int.from_bytes(data[pos:pos + k], "big")
        if strict and (ln < 128 or data[pos] == 0):
            raise DecodeError("non-minimal length")
        pos += k
    if pos + ln > end:
        raise DecodeError("value overruns its container")
    return cls, cons, num, pos, pos + ln


class Rd:
    def __init__(self, data, lo, hi, strict):
        self.d, self.pos, self.end, self.strict = data, lo, hi, strict

    def more(self):
        return self.pos < self.end

    def peek(self):
        cls, cons, num, a, b = read_tlv(self.d, self.pos, self.end, self.strict)
        return cls, cons, num

    def take(self, cls, cons, num, what):
        c, k, n, a, b = read_tlv(self.d, self.pos, self.end, self.strict)
        if (c, k, n) != (cls, cons, num):
            raise DecodeError(f"{what}: expected tag ({cls},{'cons' if cons else 'prim'},{num}) got ({c},{'cons' if k else 'prim'},{n})")
        self.pos = b
        return a, b

    def octets(self, cls=UNIV, num=4, what="OCTET STRING"):
        a, b = self.take(cls, False, num, what)
        return bytes(self.d[a:b])

    def string(self, cls=UNIV, num=4, what="LDAPString"):
        try:
            return self.octets(cls, num, what).decode("utf-8")
        except UnicodeDecodeError:
            raise DecodeError(f"{what}: not UTF-8")

    def integer(self, cls=UNIV, num=2, what="INTEGER"):
        a, b = self.take(cls, False, num, what)
        c = self.d[a:b]
        if len(c) == 0:
            raise DecodeError(f"{what}: empty")
        if self.strict and len(c) > 1 and ((c[0] == 0 and c[1] < 128) or (c[0] == 0xFF and c[1] >= 128)):
            raise DecodeError(f"{what}: non-minimal")
        return int.from_bytes(c, "big", signed=True)

    def boolean(self, cls=UNIV, num=1, what="BOOLEAN"):
        a, b = self.take(cls, False, num, what)
        if b - a != 1:
            raise DecodeError(f"{what}: length")
        if self.strict and self.d[a] not in (0, 0xFF):
            raise DecodeError(f"{what}: TRUE must be 0xFF")
        return self.d[a] != 0

    def sub(self, cls, num, what):
        a, b = self.take(cls, True, num, what)
        return Rd(self.d, a, b, self.strict)

    def skip_unknown(self):
        c, k, n, a, b = read_tlv(self.d, self.pos, self.end, self.strict)
        self.pos = b

    def done(self, what, extensible=False):
        if self.more():
            if extensible and not self.strict:
                while self.more():
                    self.skip_unknown()
            else:
                raise DecodeError(f"{what}: trailing data")


# ------------------------------------------------------------------------------------------------ decoder
def dec_result(r):
    code = r.integer(UNIV, 10, "resultCode")
    matched = r.string(what="matchedDN")
    diag = r.string(what="diagnosticMessage")
    referral = None
    if r.more() and r.peek() == (CTX, True, 3):
        rr = r.sub(CTX, 3, "referral")
        referral = []
        while rr.more():
            referral.append(rr.string(what="URI"))
    return {"code": code, "matched": matched, "diag": diag, "referral": referral}


def dec_filter(r):
    cls, cons, num = r.peek()
    if cls != CTX:
        raise DecodeError("filter: not context specific")
    if num in (0, 1):
        s = r.sub(CTX, num, "and/or")
        fs = []
        while s.more():
            fs.append(dec_filter(s))
        return ("and" if num == 0 else "or", fs)
    if num == 2:
        s = r.sub(CTX, 2, "not")
        f = dec_filter(s)
        s.done("not")
        return ("not", f)
    if num in (3, 5, 6, 8):
        s = r.sub(CTX, num, "AttributeValueAssertion")
        a = s.string(what="attributeDesc")
        v = s.octets(what="assertionValue")
        s.done("ava")
        return ({3: "eq", 5: "ge", 6: "le", 8: "approx"}[num], a, v)
    if num == 4:
        s = r.sub(CTX, 4, "substrings")
        a = s.string(what="type")
        ss = s.sub(UNIV, 16, "substrings list")
        ini, anys, fin = None, [], None
        while ss.more():
            c, k, n = ss.peek()
            if (c, k) != (CTX, False) or n not in (0, 1, 2):
                raise DecodeError("substring choice")
            v = ss.octets(CTX, n, "substring")
            if n == 0:
                ini = v
            elif n == 1:
                anys.append(v)
            else:
                fin = v
        s.done("substrings")
        return ("substrings", a, ini, anys, fin)
    if num == 7:
        return ("present", r.string(CTX, 7, "present"))
    if num == 9:
        s = r.sub(CTX, 9, "extensibleMatch")
        rule = attr = None
        dn = False
        if s.more() and s.peek() == (CTX, False, 1):
            rule = s.string(CTX, 1, "matchingRule")
        if s.more() and s.peek() == (CTX, False, 2):
            attr = s.string(CTX, 2, "type")
        val = s.octets(CTX, 3, "matchValue")
        if s.more() and s.peek() == (CTX, False, 4):
            dn = s.boolean(CTX, 4, "dnAttributes")
            if s.strict and dn is False:
                raise DecodeError("dnAttributes DEFAULT FALSE must be omitted")
        s.done("extensibleMatch", extensible=True)
        return ("ext", rule, attr, val, dn)
    raise DecodeError(f"unknown filter choice {num}")


def dec_control(r):
    s = r.sub(UNIV, 16, "Control")
    ctype = s.string(what="controlType")
    crit = False
    if s.more() and s.peek() == (UNIV, False, 1):
        crit = s.boolean(what="criticality")
        if s.strict and crit is False:
            raise DecodeError("criticality DEFAULT FALSE must be omitted")
    val = None
    if s.more() and s.peek() == (UNIV, False, 4):
        val = s.octets(what="controlValue")
    s.done("Control")
    return {"type": ctype, "critical": crit, "value": val}


def decode(data, strict=True):
    data = bytes(data)
    top = Rd(data, 0, len(data), strict)
    m = top.sub(UNIV, 16, "LDAPMessage")
    top.done("after LDAPMessage")
    mid = m.integer(what="messageID")
    cls, cons, num = m.peek()
    if cls != APPL:
        raise DecodeError("protocolOp: not APPLICATION")
    if num == 2:           # UnbindRequest ::= [APPLICATION 2] NULL  - a primitive type
        a, b = m.take(APPL, False, 2, "UnbindRequest")
        if a != b:
            raise DecodeError("UnbindRequest: NULL has content")
        op = ("unbind",)
    elif num == 0:
        o = m.sub(APPL, 0, "BindRequest")
        version = o.integer(what="version")
        name = o.string(what="name")
        c, k, n = o.peek()
        if (c, k, n) == (CTX, False, 0):
            auth = ("simple", o.octets(CTX, 0, "simple"))
        elif (c, k, n) == (CTX, True, 3):
            s = o.sub(CTX, 3, "sasl")
            mech = s.string(what="mechanism")
            cred = s.octets(what="credentials") if s.more() and s.peek() == (UNIV, False, 4) else None
            s.done("SaslCredentials", extensible=True)
            auth = ("sasl", mech, cred)
        else:
            raise DecodeError("AuthenticationChoice")
        o.done("BindRequest")
        op = ("bindRequest", version, name, auth)
    elif num == 1:
        o = m.sub(APPL, 1, "BindResponse")
        res = dec_result(o)
        creds = o.octets(CTX, 7, "serverSaslCreds") if o.more() and o.peek() == (CTX, False, 7) else None
        o.done("BindResponse", extensible=True)
        op = ("bindResponse", res, creds)
    elif num == 3:
        o = m.sub(APPL, 3, "SearchRequest")
        base = o.string(what="baseObject")
        scope = o.integer(UNIV, 10, "scope")
        deref = o.integer(UNIV, 10, "derefAliases")
        size = o.integer(what="sizeLimit")
        tlim = o.integer(what="timeLimit")
        types_only = o.boolean(what="typesOnly")
        flt = dec_filter(o)
        al = o.sub(UNIV, 16, "attributes")
        attrs = []
        while al.more():
            attrs.append(al.string(what="selector"))
        o.done("SearchRequest")
        op = ("searchRequest", base, scope, deref, size, tlim, types_only, flt, attrs)
    elif num == 4:
        o = m.sub(APPL, 4, "SearchResultEntry")
        name = o.string(what="objectName")
        al = o.sub(UNIV, 16, "attributes")
        attrs = []
        while al.more():
            pa = al.sub(UNIV, 16, "PartialAttribute")
            t = pa.string(what="type")
            vs = pa.sub(UNIV, 17, "vals")
            vals = []
            while vs.more():
                vals.append(vs.octets(what="value"))
            pa.done("PartialAttribute")
            attrs.append((t, vals))
        o.done("SearchResultEntry")
        op = ("searchResEntry", name, attrs)
    elif num == 5:
        o = m.sub(APPL, 5, "SearchResultDone")
        res = dec_result(o)
        o.done("SearchResultDone", extensible=True)
        op = ("searchResDone", res)
    elif num == 19:
        o = m.sub(APPL, 19, "SearchResultReference")
        uris = []
        while o.more():
            uris.append(o.string(what="URI"))
        op = ("searchResRef", uris)
    elif num == 23:
        o = m.sub(APPL, 23, "ExtendedRequest")
        name = o.string(CTX, 0, "requestName")
        val = o.octets(CTX, 1, "requestValue") if o.more() and o.peek() == (CTX, False, 1) else None
        o.done("ExtendedRequest", extensible=True)
        op = ("extendedReq", name, val)
    elif num == 24:
        o = m.sub(APPL, 24, "ExtendedResponse")
        res = dec_result(o)
        name = o.string(CTX, 10, "responseName") if o.more() and o.peek() == (CTX, False, 10) else None
        val = o.octets(CTX, 11, "responseValue") if o.more() and o.peek() == (CTX, False, 11) else None
        o.done("ExtendedResponse", extensible=True)
        op = ("extendedResp", res, name, val)
    else:
        raise DecodeError(f"unsupported protocolOp {num}")
    controls = []
    if m.more() and m.peek() == (CTX, True, 0):
        cs = m.sub(CTX, 0, "controls")
        while cs.more():
            controls.append(dec_control(cs))
    m.done("LDAPMessage", extensible=True)
    return {"id": mid, "op": op, "controls": controls}


# ------------------------------------------------------------------------------------------------ encoder (canonical; `fr` = encoding freedoms)
class Freedom:
    """Encoding freedoms of BER that a conforming peer may use (C04)."""
    def __init__(self, extra_len=0, true_octet=0xFF, explicit_defaults=False, trailing=False):
        self.extra_len, self.true_octet, self.explicit_defaults, self.trailing = extra_len, true_octet, explicit_defaults, trailing


CANON = Freedom()


def T(fr, cls, cons, num, content):
    return tlv(cls, cons, num, content, fr.extra_len)


def e_str(fr, s, cls=UNIV, num=4):
    return T(fr, cls, False, num, s.encode("utf-8") if isinstance(s, str) else bytes(s))


def e_bool(fr, b, cls=UNIV, num=1):
    return T(fr, cls, False, num, bytes([fr.true_octet if b else 0]))


def e_int(fr, v, cls=UNIV, num=2):
    return T(fr, cls, False, num, enc_int(v))


PRIV = 3


def trailing(fr):
    """Unrecognised trailing elements after the defined components of a SEQUENCE.  trailing=True / 1: two elements with
    context tags no LDAP structure uses; 2..4: elements whose tag *number* coincides with a component the decoder does
    know at some position (OCTET STRING 4, BOOLEAN 1, INTEGER 2, ENUMERATED 10, SEQUENCE 16) but in the APPLICATION /
    PRIVATE class, which no component inside a protocolOp uses - a decoder that compares tag numbers only mistakes them."""
    k = int(fr.trailing)
    if k == 0:
        return b""
    if k == 1:
        return T(fr, CTX, False, 99, b"future") + T(fr, CTX, True, 98, T(fr, UNIV, False, 4, b"x"))
    if k == 2:
        return T(fr, PRIV, False, 4, b"p4") + T(fr, APPL, True, 16, T(fr, UNIV, False, 4, b"x"))
    if k == 3:
        return T(fr, APPL, False, 4, b"a4") + T(fr, PRIV, False, 1, b"\xff")
    return T(fr, PRIV, False, 2, b"\x05") + T(fr, PRIV, False, 10, b"\x01") + T(fr, PRIV, True, 17, b"")


def e_result(fr, r):
    out = e_int(fr, r["code"], UNIV, 10) + e_str(fr, r["matched"]) + e_str(fr, r["diag"])
    if r["referral"] is not None:
        out += T(fr, CTX, True, 3, b"".join(e_str(fr, u) for u in r["referral"]))
    return out


def e_filter(fr, f):
    k = f[0]
    if k in ("and", "or"):
        return T(fr, CTX, True, 0 if k == "and" else 1, b"".join(e_filter(fr, x) for x in f[1]))
    if k == "not":
        return T(fr, CTX, True, 2, e_filter(fr, f[1]))
    if k in ("eq", "ge", "le", "approx"):
        return T(fr, CTX, True, {"eq": 3, "ge": 5, "le": 6, "approx": 8}[k], e_str(fr, f[1]) + e_str(fr, f[2]))
    if k == "present":
        return e_str(fr, f[1], CTX, 7)
    if k == "substrings":
        subs = b""
        if f[2] is not None:
            subs += e_str(fr, f[2], CTX, 0)
        for a in f[3]:
            subs += e_str(fr, a, CTX, 1)
        if f[4] is not None:
            subs += e_str(fr, f[4], CTX, 2)
        return T(fr, CTX, True, 4, e_str(fr, f[1]) + T(fr, UNIV, True, 16, subs))
    if k == "ext":
        c = b""
        if f[1] is not None:
            c += e_str(fr, f[1], CTX, 1)
        if f[2] is not None:
            c += e_str(fr, f[2], CTX, 2)
        c += e_str(fr, f[3], CTX, 3)
        if f[4] or fr.explicit_defaults:
            c += e_bool(fr, f[4], CTX, 4)
        return T(fr, CTX, True, 9, c + trailing(fr))
    raise ValueError(k)


def e_control(fr, c):
    out = e_str(fr, c["type"])
    if c["critical"] or fr.explicit_defaults:
        out += e_bool(fr, c["critical"])
    if c["value"] is not None:
        out += e_str(fr, c["value"])
    # unrecognised trailing elements inside the Control SEQUENCE as well (tag sets 2..4: never UNIVERSAL BOOLEAN / OCTET STRING)
    return T(fr, UNIV, True, 16, out + (trailing(fr) if int(fr.trailing) >= 2 else b""))


def encode(msg, fr=CANON):
    op = msg["op"]
    k = op[0]
    if k == "unbind":
        body = tlv(APPL, False, 2, b"", fr.extra_len)
    elif k == "bindRequest":
        _, version, name, auth = op
        if auth[0] == "simple":
            a = e_str(fr, auth[1], CTX, 0)
        else:
            a = T(fr, CTX, True, 3, e_str(fr, auth[1]) + (e_str(fr, auth[2]) if auth[2] is not None else b"") + trailing(fr))
        body = T(fr, APPL, True, 0, e_int(fr, version) + e_str(fr, name) + a)
    elif k == "bindResponse":
        body = T(fr, APPL, True, 1, e_result(fr, op[1]) + (e_str(fr, op[2], CTX, 7) if op[2] is not None else b"") + trailing(fr))
    elif k == "searchRequest":
        _, base, scope, deref, size, tlim, types_only, flt, attrs = op
        body = T(fr, APPL, True, 3, e_str(fr, base) + e_int(fr, scope, UNIV, 10) + e_int(fr, deref, UNIV, 10) + e_int(fr, size) + e_int(fr, tlim)
                 + e_bool(fr, types_only) + e_filter(fr, flt) + T(fr, UNIV, True, 16, b"".join(e_str(fr, a) for a in attrs)))
    elif k == "searchResEntry":
        attrs = b"".join(T(fr, UNIV, True, 16, e_str(fr, t) + T(fr, UNIV, True, 17, b"".join(e_str(fr, v) for v in vals))) for t, vals in op[2])
        body = T(fr, APPL, True, 4, e_str(fr, op[1]) + T(fr, UNIV, True, 16, attrs))
    elif k == "searchResDone":
        body = T(fr, APPL, True, 5, e_result(fr, op[1]) + trailing(fr))
    elif k == "searchResRef":
        body = T(fr, APPL, True, 19, b"".join(e_str(fr, u) for u in op[1]))
    elif k == "extendedReq":
        body = T(fr, APPL, True, 23, e_str(fr, op[1], CTX, 0) + (e_str(fr, op[2], CTX, 1) if op[2] is not None else b"") + trailing(fr))
    elif k == "extendedResp":
        body = T(fr, APPL, True, 24, e_result(fr, op[1]) + (e_str(fr, op[2], CTX, 10) if op[2] is not None else b"")
                 + (e_str(fr, op[3], CTX, 11) if op[3] is not None else b"") + trailing(fr))
    else:
        raise ValueError(k)
    ctrls = T(fr, CTX, True, 0, b"".join(e_control(fr, c) for c in msg["controls"])) if msg["controls"] else b""
    return T(fr, UNIV, True, 16, e_int(fr, msg["id"]) + body + ctrls + trailing(fr))


def paged_value(size, cookie, fr=CANON):
    """RFC 2696 realSearchControlValue ::= SEQUENCE { size INTEGER, cookie OCTET STRING }"""
    return T(fr, UNIV, True, 16, e_int(fr, size) + e_str(fr, cookie))
