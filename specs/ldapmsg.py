"""RFC 4511 encoding relation for repeated components (SEQUENCE OF / SET OF of strings and octet strings), L2.

strs_enc(s, xs, i, n, cls, num): s is exactly the concatenation, in order, of one primitive element per xs[i:n], each
with identifier [cls num], minimal identifier / length octets (tlv_of) and content utf8(xs[k]).  octs_enc is the same
for lists of octet strings.  Defined by reading s from the front, element by element; the snoc lemmas show that
appending one more element written by the TLV writer extends the relation by one list item - which is what the
`for x in xs: writer.write_octet_string(...)` loops of the encoder do.
"""
from specs.prelude import *  # noqa: F401,F403
from specs.ber import *  # noqa: F401,F403
from specs.sess import tlv_len, lemma_tlv_prefix  # noqa: F401


def strs_enc(s: bytes, xs: seqstr, i: int, n: int, cls: int, num: int) -> bool:
    return (len(s) == 0) if i >= n else (tlv_complete(s) and tlv_of(take(s, tlv_len(s)), cls, False, num, utf8(xs[i]))
                                         and strs_enc(drop(s, tlv_len(s)), xs, i + 1, n, cls, num))


def octs_enc(s: bytes, xs: seqbytes, i: int, n: int, cls: int, num: int) -> bool:
    return (len(s) == 0) if i >= n else (tlv_complete(s) and tlv_of(take(s, tlv_len(s)), cls, False, num, xs[i])
                                         and octs_enc(drop(s, tlv_len(s)), xs, i + 1, n, cls, num))


def lemma_strs_snoc(s: bytes, xs: seqstr, i: int, n: int, cls: int, num: int, w: bytes) -> None:
    if i >= n:
        assert cat(s, w) == w
        assert tlv_len(w) == len(w)
        assert take(w, tlv_len(w)) == w
        assert len(drop(w, tlv_len(w))) == 0
        assert strs_enc(drop(w, tlv_len(w)), xs, n + 1, n + 1, cls, num)
    else:
        lemma_tlv_prefix(s, w)
        assert drop(cat(s, w), tlv_len(s)) == cat(drop(s, tlv_len(s)), w)
        assert tlv_len(cat(s, w)) == tlv_len(s)
        assert take(cat(s, w), tlv_len(s)) == take(s, tlv_len(s))
        lemma_strs_snoc(drop(s, tlv_len(s)), xs, i + 1, n, cls, num, w)


def lemma_octs_snoc(s: bytes, xs: seqbytes, i: int, n: int, cls: int, num: int, w: bytes) -> None:
    if i >= n:
        assert cat(s, w) == w
        assert tlv_len(w) == len(w)
        assert take(w, tlv_len(w)) == w
        assert len(drop(w, tlv_len(w))) == 0
        assert octs_enc(drop(w, tlv_len(w)), xs, n + 1, n + 1, cls, num)
    else:
        lemma_tlv_prefix(s, w)
        assert drop(cat(s, w), tlv_len(s)) == cat(drop(s, tlv_len(s)), w)
        assert tlv_len(cat(s, w)) == tlv_len(s)
        assert take(cat(s, w), tlv_len(s)) == take(s, tlv_len(s))
        lemma_octs_snoc(drop(s, tlv_len(s)), xs, i + 1, n, cls, num, w)


# ---- decode direction: optional context-tagged components read by a `while reader:` loop that skips what it does not know.
# The loop keeps the content of the *last* element with the wanted tag; every other element is skipped.  Written as a fold
# from the front over the element stream: opt_none / opt_val give the final (is None, value) pair when the loop starts with
# the accumulator (acc_none, acc).
def ctx_is(s: bytes, num: int) -> bool:
    return id_class(s) == 2 and id_number(s) == num


def opt_none(s: bytes, num: int, acc_none: bool) -> bool:
    return acc_none if len(s) == 0 else opt_none(rest_of(s), num, False if ctx_is(s, num) else acc_none)


def opt_val(s: bytes, num: int, acc: bytes) -> bytes:
    return acc if len(s) == 0 else opt_val(rest_of(s), num, content_of(s) if ctx_is(s, num) else acc)


# ---- round trip (C01), message kind by message kind: feeding the decoder's postcondition with what the encoder's
# postcondition describes gives back the fields.
def lemma_rt_extended_request(e_name: bytes, name_b: bytes, e_value: bytes, value: bytes, has_value: bool) -> None:
    lemma_tlv_roundtrip(e_name, 2, False, 0, name_b, ite(has_value, e_value, empty()))
    if has_value:
        lemma_tlv_roundtrip(e_value, 2, False, 1, value, empty())
        lemma_tlv_prefix(e_value, empty())
        assert cat(e_value, empty()) == e_value
        assert len(e_value) >= 2
        assert ctx_is(e_value, 1)
        assert rest_of(e_value) == empty()
        assert opt_none(rest_of(e_value), 1, False) == False
        assert opt_val(rest_of(e_value), 1, value) == value
    else:
        assert opt_none(empty(), 1, True)


# ---- decode direction, lists: the k-th suffix of an element stream
def nth_rest(s: bytes, k: int) -> bytes:
    return s if k <= 0 else nth_rest(rest_of(s), k - 1)


def lemma_nth_rest_step(s: bytes, k: int) -> None:
    """nth_rest(s, k + 1) == rest_of(nth_rest(s, k))"""
    if k > 0:
        lemma_nth_rest_step(rest_of(s), k - 1)
