"""RFC 4511 encoding relation for repeated components (SEQUENCE OF / SET OF of strings and octet strings), L2.

strs_enc(s, xs, i, n, cls, num): s is exactly the concatenation, in order, of one primitive element per xs[i:n], each
with identifier [cls num], minimal identifier / length octets (tlv_of) and content utf8(xs[k]).  octs_enc is the same
for lists of octet strings.  Defined by reading s from the front, element by element; the snoc lemmas show that
appending one more element written by the TLV writer extends the relation by one list item - which is what the
`for x in xs: writer.write_octet_string(...)` loops of the encoder do.
"""
from specs.prelude import *  # noqa: F401,F403
from specs.ber import *  # noqa: F401,F403
from specs.sess import tlv_len, lemma_tlv_prefix  # noqa: F401


def strs_enc(s: bytes, xs: seqstr, i: int, n: int, cls: int, num: int) -> bool:
    return (len(s) == 0) if i >= n else (tlv_complete(s) and tlv_of(take(s, tlv_len(s)), cls, False, num, utf8(xs[i]))
                                         and strs_enc(drop(s, tlv_len(s)), xs, i + 1, n, cls, num))


def octs_enc(s: bytes, xs: seqbytes, i: int, n: int, cls: int, num: int) -> bool:
    return (len(s) == 0) if i >= n else (tlv_complete(s) and tlv_of(take(s, tlv_len(s)), cls, False, num, xs[i])
                                         and octs_enc(drop(s, tlv_len(s)), xs, i + 1, n, cls, num))


def lemma_strs_snoc(s: bytes, xs: seqstr, i: int, n: int, cls: int, num: int, w: bytes) -> None:
    if i >= n:
        assert cat(s, w) == w
        assert tlv_len(w) == len(w)
        assert take(w, tlv_len(w)) == w
        assert len(drop(w, tlv_len(w))) == 0
        assert strs_enc(drop(w, tlv_len(w)), xs, n + 1, n + 1, cls, num)
    else:
        lemma_tlv_prefix(s, w)
        assert drop(cat(s, w), tlv_len(s)) == cat(drop(s, tlv_len(s)), w)
        assert tlv_len(cat(s, w)) == tlv_len(s)
        assert take(cat(s, w), tlv_len(s)) == take(s, tlv_len(s))
        lemma_strs_snoc(drop(s, tlv_len(s)), xs, i + 1, n, cls, num, w)


def lemma_octs_snoc(s: bytes, xs: seqbytes, i: int, n: int, cls: int, num: int, w: bytes) -> None:
    if i >= n:
        assert cat(s, w) == w
        assert tlv_len(w) == len(w)
        assert take(w, tlv_len(w)) == w
        assert len(drop(w, tlv_len(w))) == 0
        assert octs_enc(drop(w, tlv_len(w)), xs, n + 1, n + 1, cls, num)
    else:
        lemma_tlv_prefix(s, w)
        assert drop(cat(s, w), tlv_len(s)) == cat(drop(s, tlv_len(s)), w)
        assert tlv_len(cat(s, w)) == tlv_len(s)
        assert take(cat(s, w), tlv_len(s)) == take(s, tlv_len(s))
        lemma_octs_snoc(drop(s, tlv_len(s)), xs, i + 1, n, cls, num, w)


# ---- decode direction: optional context-tagged components read by a `while reader:` loop that skips what it does not know.
# The loop keeps the content of the *last* element with the wanted tag; every other element is skipped.  Written as a fold
# from the front over the element stream: opt_none / opt_val give the final (is None, value) pair when the loop starts with
# the accumulator (acc_none, acc).
def ctx_is(s: bytes, num: int) -> bool:
    return id_class(s) == 2 and id_number(s) == num


def opt_none(s: bytes, num: int, acc_none: bool) -> bool:
    return acc_none if len(s) == 0 else opt_none(rest_of(s), num, False if ctx_is(s, num) else acc_none)


def opt_val(s: bytes, num: int, acc: bytes) -> bytes:
    return acc if len(s) == 0 else opt_val(rest_of(s), num, content_of(s) if ctx_is(s, num) else acc)


# ---- round trip (C01), message kind by message kind: feeding the decoder's postcondition with what the encoder's
# postcondition describes gives back the fields.
def lemma_rt_extended_request(e_name: bytes, name_b: bytes, e_value: bytes, value: bytes, has_value: bool) -> None:
    lemma_tlv_roundtrip(e_name, 2, False, 0, name_b, ite(has_value, e_value, empty()))
    if has_value:
        lemma_tlv_roundtrip(e_value, 2, False, 1, value, empty())
        lemma_tlv_prefix(e_value, empty())
        assert cat(e_value, empty()) == e_value
        assert len(e_value) >= 2
        assert ctx_is(e_value, 1)
        assert rest_of(e_value) == empty()
        assert opt_none(rest_of(e_value), 1, False) == False
        assert opt_val(rest_of(e_value), 1, value) == value
    else:
        assert opt_none(empty(), 1, True)


# ---- decode direction, lists: the k-th suffix of an element stream
def nth_rest(s: bytes, k: int) -> bytes:
    return s if k <= 0 else nth_rest(rest_of(s), k - 1)


def lemma_nth_rest_step(s: bytes, k: int) -> None:
    """nth_rest(s, k + 1) == rest_of(nth_rest(s, k))"""
    if k > 0:
        lemma_nth_rest_step(rest_of(s), k - 1)


# ---- what the encoder's list relation means element by element (used by the round-trip lemmas)
def lemma_strs_enc_nth(s: bytes, xs: seqstr, i: int, n: int, cls: int, num: int, q: int) -> None:
    """strs_enc(s, xs, i, n) and i <= q < n:  the (q - i)-th element of s has content utf8(xs[q])."""
    lemma_tlv_roundtrip(take(s, tlv_len(s)), cls, False, num, utf8(xs[i]), drop(s, tlv_len(s)))
    assert cat(take(s, tlv_len(s)), drop(s, tlv_len(s))) == s
    assert rest_of(s) == drop(s, tlv_len(s))
    if q > i:
        lemma_strs_enc_nth(drop(s, tlv_len(s)), xs, i + 1, n, cls, num, q)
        assert nth_rest(s, q - i) == nth_rest(rest_of(s), q - i - 1)
    else:
        assert nth_rest(s, 0) == s


def lemma_strs_enc_end(s: bytes, xs: seqstr, i: int, n: int, cls: int, num: int) -> None:
    """strs_enc(s, xs, i, n) and i <= n:  after n - i elements nothing is left."""
    if i < n:
        lemma_tlv_roundtrip(take(s, tlv_len(s)), cls, False, num, utf8(xs[i]), drop(s, tlv_len(s)))
        assert cat(take(s, tlv_len(s)), drop(s, tlv_len(s))) == s
        assert rest_of(s) == drop(s, tlv_len(s))
        lemma_strs_enc_end(drop(s, tlv_len(s)), xs, i + 1, n, cls, num)
        assert nth_rest(s, n - i) == nth_rest(rest_of(s), n - i - 1)
    else:
        assert nth_rest(s, 0) == s


def lemma_opt_single(e: bytes, num: int, value: bytes, has: bool, other: int) -> None:
    """One optional context-tagged element [num] (or nothing): the fold for [num] yields it, the fold for another tag yields nothing."""
    if has:
        lemma_tlv_roundtrip(e, 2, False, num, value, empty())
        lemma_tlv_prefix(e, empty())
        assert cat(e, empty()) == e
        assert len(e) >= 2
        assert ctx_is(e, num)
        assert not ctx_is(e, other)
        assert rest_of(e) == empty()
        assert opt_none(rest_of(e), num, False) == False
        assert opt_val(rest_of(e), num, value) == value
        assert opt_none(rest_of(e), other, True)
    else:
        assert opt_none(empty(), num, True)
        assert opt_none(empty(), other, True)


def lemma_opt_pair(ea: bytes, na: int, va: bytes, has_a: bool, eb: bytes, nb: int, vb: bytes, has_b: bool) -> None:
    """Two optional context-tagged elements with different numbers, in this order: each fold finds its own."""
    if has_a:
        lemma_tlv_roundtrip(ea, 2, False, na, va, ite(has_b, eb, empty()))
        lemma_tlv_prefix(ea, ite(has_b, eb, empty()))
        assert len(cat(ea, ite(has_b, eb, empty()))) >= 2
        assert ctx_is(cat(ea, ite(has_b, eb, empty())), na)
        assert not ctx_is(cat(ea, ite(has_b, eb, empty())), nb)
        assert rest_of(cat(ea, ite(has_b, eb, empty()))) == ite(has_b, eb, empty())
        lemma_opt_single(eb, nb, vb, has_b, na)
        if has_b:
            lemma_tlv_roundtrip(eb, 2, False, nb, vb, empty())
            lemma_tlv_prefix(eb, empty())
            assert cat(eb, empty()) == eb
            assert not ctx_is(eb, na)
            assert rest_of(eb) == empty()
            assert opt_none(eb, na, False) == False
            assert opt_val(eb, na, va) == va
        else:
            assert opt_none(empty(), na, False) == False
            assert opt_val(empty(), na, va) == va
    else:
        assert cat(empty(), ite(has_b, eb, empty())) == ite(has_b, eb, empty())
        lemma_opt_single(eb, nb, vb, has_b, na)


def lemma_rt_ldap_result(e_code: bytes, c_code: bytes, e_dn: bytes, dn_b: bytes, e_msg: bytes, msg_b: bytes,
                         e_ref: bytes, c_ref: bytes, has_ref: bool, tail: bytes) -> None:
    """Reading the three / four LDAPResult components back from what the encoder appended (whatever follows in `tail`)."""
    lemma_tlv_roundtrip(e_code, 0, False, 10, c_code, cat(e_dn, e_msg, ite(has_ref, e_ref, empty()), tail))
    lemma_tlv_roundtrip(e_dn, 0, False, 4, dn_b, cat(e_msg, ite(has_ref, e_ref, empty()), tail))
    lemma_tlv_roundtrip(e_msg, 0, False, 4, msg_b, cat(ite(has_ref, e_ref, empty()), tail))
    if has_ref:
        lemma_tlv_roundtrip(e_ref, 2, True, 3, c_ref, tail)
        lemma_tlv_prefix(e_ref, tail)
        assert len(cat(e_ref, tail)) >= 2
    else:
        assert cat(empty(), tail) == tail


# ---- round trip theorems (C01): the encoder's postcondition (C03) and the decoder's postcondition (C04), both as hypotheses over
# the same octets E, imply that every decoded field equals the encoded one.  Text fields need  unutf8(utf8(t)) == t  (text that has
# an encoding decodes back to itself): stated as a hypothesis, it is the A-UTF8 assumption of the model made explicit.
def thm_rt_bind_response(e_code: bytes, c_code: bytes, code: int, e_dn: bytes, dn_b: bytes, e_msg: bytes, msg_b: bytes,
                         e_ref: bytes, c_ref: bytes, has_ref: bool, e_creds: bytes, creds: bytes, has_creds: bool,
                         d_code: int, d_dn_b: bytes, d_msg_b: bytes, d_has_ref: bool, d_creds_none: bool, d_creds: bytes) -> None:
    lemma_rt_ldap_result(e_code, c_code, e_dn, dn_b, e_msg, msg_b, e_ref, c_ref, has_ref, ite(has_creds, e_creds, empty()))
    lemma_opt_single(e_creds, 7, creds, has_creds, 3)
    if has_creds:
        lemma_tlv_roundtrip(e_creds, 2, False, 7, creds, empty())
        assert cat(e_creds, empty()) == e_creds


def thm_rt_extended_response(e_code: bytes, c_code: bytes, code: int, e_dn: bytes, dn_b: bytes, e_msg: bytes, msg_b: bytes,
                             e_ref: bytes, c_ref: bytes, has_ref: bool, e_name: bytes, name_b: bytes, has_name: bool,
                             e_value: bytes, value: bytes, has_value: bool,
                             d_code: int, d_dn_b: bytes, d_msg_b: bytes, d_has_ref: bool,
                             d_name_none: bool, d_name_b: bytes, d_value_none: bool, d_value: bytes) -> None:
    # what follows the result starts with [10], with [11], or is empty: never with [3]
    if has_name:
        lemma_tlv_roundtrip(e_name, 2, False, 10, name_b, ite(has_value, e_value, empty()))
        assert id_number(cat(ite(has_name, e_name, empty()), ite(has_value, e_value, empty()))) == 10
    else:
        assert cat(empty(), ite(has_value, e_value, empty())) == ite(has_value, e_value, empty())
        if has_value:
            lemma_tlv_roundtrip(e_value, 2, False, 11, value, empty())
            assert cat(e_value, empty()) == e_value
            assert id_number(cat(ite(has_name, e_name, empty()), ite(has_value, e_value, empty()))) == 11
        else:
            assert len(cat(ite(has_name, e_name, empty()), ite(has_value, e_value, empty()))) == 0
    lemma_rt_ldap_result(e_code, c_code, e_dn, dn_b, e_msg, msg_b, e_ref, c_ref, has_ref,
                         cat(ite(has_name, e_name, empty()), ite(has_value, e_value, empty())))
    lemma_opt_pair(e_name, 10, name_b, has_name, e_value, 11, value, has_value)


def lemma_strs_enc_nonempty(s: bytes, xs: seqstr, i: int, n: int, cls: int, num: int, q: int) -> None:
    """strs_enc(s, xs, i, n) and i <= q < n:  the (q - i)-th suffix is not empty (it starts with a complete element)."""
    assert len(s) > 0
    if q > i:
        assert rest_of(s) == drop(s, tlv_len(s))
        lemma_strs_enc_nonempty(drop(s, tlv_len(s)), xs, i + 1, n, cls, num, q)
        assert nth_rest(s, q - i) == nth_rest(rest_of(s), q - i - 1)
    else:
        assert nth_rest(s, 0) == s


def thm_rt_referrals(c_ref: bytes, xs: seqstr, n: int, count: int, q: int) -> None:
    """Encoder: c_ref holds the n URIs xs[0:n].  Decoder: it stopped after `count` elements (the count-th suffix is empty, the earlier
    ones are not).  Then count == n, and the q-th decoded URI is unutf8 of utf8(xs[q])."""
    lemma_strs_enc_end(c_ref, xs, 0, n, 0, 4)
    if count < n:
        lemma_strs_enc_nonempty(c_ref, xs, 0, n, 0, 4, count)
    if 0 <= q and q < n:
        lemma_strs_enc_nth(c_ref, xs, 0, n, 0, 4, q)


# ---- the same for lists of octet strings (attribute values)
def lemma_octs_enc_nth(s: bytes, xs: seqbytes, i: int, n: int, cls: int, num: int, q: int) -> None:
    lemma_tlv_roundtrip(take(s, tlv_len(s)), cls, False, num, xs[i], drop(s, tlv_len(s)))
    assert cat(take(s, tlv_len(s)), drop(s, tlv_len(s))) == s
    assert rest_of(s) == drop(s, tlv_len(s))
    if q > i:
        lemma_octs_enc_nth(drop(s, tlv_len(s)), xs, i + 1, n, cls, num, q)
        assert nth_rest(s, q - i) == nth_rest(rest_of(s), q - i - 1)
    else:
        assert nth_rest(s, 0) == s


def lemma_octs_enc_end(s: bytes, xs: seqbytes, i: int, n: int, cls: int, num: int) -> None:
    if i < n:
        lemma_tlv_roundtrip(take(s, tlv_len(s)), cls, False, num, xs[i], drop(s, tlv_len(s)))
        assert cat(take(s, tlv_len(s)), drop(s, tlv_len(s))) == s
        assert rest_of(s) == drop(s, tlv_len(s))
        lemma_octs_enc_end(drop(s, tlv_len(s)), xs, i + 1, n, cls, num)
        assert nth_rest(s, n - i) == nth_rest(rest_of(s), n - i - 1)
    else:
        assert nth_rest(s, 0) == s


def lemma_octs_enc_nonempty(s: bytes, xs: seqbytes, i: int, n: int, cls: int, num: int, q: int) -> None:
    assert len(s) > 0
    if q > i:
        assert rest_of(s) == drop(s, tlv_len(s))
        lemma_octs_enc_nonempty(drop(s, tlv_len(s)), xs, i + 1, n, cls, num, q)
        assert nth_rest(s, q - i) == nth_rest(rest_of(s), q - i - 1)
    else:
        assert nth_rest(s, 0) == s


def thm_rt_octs(c: bytes, xs: seqbytes, n: int, count: int, q: int) -> None:
    """Encoder: c holds the n values xs[0:n] as OCTET STRINGs.  Decoder: it stopped after `count` elements.  Then count == n and the
    q-th decoded value is xs[q]."""
    lemma_octs_enc_end(c, xs, 0, n, 0, 4)
    if count < n:
        lemma_octs_enc_nonempty(c, xs, 0, n, 0, 4, count)
    if 0 <= q and q < n:
        lemma_octs_enc_nth(c, xs, 0, n, 0, 4, q)


def thm_rt_ava_filter(e: bytes, num: int, e_attr: bytes, attr_b: bytes, e_val: bytes, val: bytes, tail: bytes) -> None:
    """equalityMatch / greaterOrEqual / lessOrEqual / approxMatch [num] { attributeDesc, assertionValue }."""
    lemma_tlv_roundtrip(e, 2, True, num, cat(e_attr, e_val), tail)
    lemma_tlv_roundtrip(e_attr, 0, False, 4, attr_b, e_val)
    lemma_tlv_roundtrip(e_val, 0, False, 4, val, empty())
    assert cat(e_val, empty()) == e_val


def thm_rt_bind_request_simple(e_ver: bytes, c_ver: bytes, e_name: bytes, name_b: bytes, e_auth: bytes, pw_b: bytes) -> None:
    lemma_tlv_roundtrip(e_ver, 0, False, 2, c_ver, cat(e_name, e_auth))
    lemma_tlv_roundtrip(e_name, 0, False, 4, name_b, e_auth)
    lemma_tlv_roundtrip(e_auth, 2, False, 0, pw_b, empty())
    assert cat(e_auth, empty()) == e_auth


def thm_rt_bind_request_sasl(e_ver: bytes, c_ver: bytes, e_name: bytes, name_b: bytes, e_auth: bytes, e_mech: bytes, mech_b: bytes,
                             e_cred: bytes, cred: bytes, has_cred: bool) -> None:
    lemma_tlv_roundtrip(e_ver, 0, False, 2, c_ver, cat(e_name, e_auth))
    lemma_tlv_roundtrip(e_name, 0, False, 4, name_b, e_auth)
    lemma_tlv_roundtrip(e_auth, 2, True, 3, cat(e_mech, ite(has_cred, e_cred, empty())), empty())
    assert cat(e_auth, empty()) == e_auth
    lemma_tlv_roundtrip(e_mech, 0, False, 4, mech_b, ite(has_cred, e_cred, empty()))
    if has_cred:
        lemma_tlv_roundtrip(e_cred, 0, False, 4, cred, empty())
        assert cat(e_cred, empty()) == e_cred
        lemma_tlv_prefix(e_cred, empty())


def thm_rt_search_request_fixed(e_base: bytes, base_b: bytes, e_scope: bytes, c_scope: bytes, e_deref: bytes, c_deref: bytes,
                                e_size: bytes, c_size: bytes, e_time: bytes, c_time: bytes, e_types: bytes, types_only: bool, tail: bytes) -> None:
    """The six leading components of a SearchRequest, read back one after the other (v_k = what is left after k of them)."""
    lemma_tlv_roundtrip(e_base, 0, False, 4, base_b, cat(e_scope, e_deref, e_size, e_time, e_types, tail))
    lemma_tlv_roundtrip(e_scope, 0, False, 10, c_scope, cat(e_deref, e_size, e_time, e_types, tail))
    lemma_tlv_roundtrip(e_deref, 0, False, 10, c_deref, cat(e_size, e_time, e_types, tail))
    lemma_tlv_roundtrip(e_size, 0, False, 2, c_size, cat(e_time, e_types, tail))
    lemma_tlv_roundtrip(e_time, 0, False, 2, c_time, cat(e_types, tail))
    lemma_tlv_roundtrip(e_types, 0, False, 1, seq1(255 if types_only else 0), tail)


def thm_rt_control(e: bytes, e_type: bytes, type_b: bytes, e_crit: bytes, critical: bool, e_val: bytes, val: bytes, has_val: bool, tail: bytes) -> None:
    """Control: what LDAPControl.pack appends, read back by the decoder's postcondition (criticality DEFAULT FALSE omitted, TRUE = FF)."""
    lemma_tlv_roundtrip(e, 0, True, 16, cat(e_type, ite(critical, e_crit, empty()), ite(has_val, e_val, empty())), tail)
    lemma_tlv_roundtrip(e_type, 0, False, 4, type_b, cat(ite(critical, e_crit, empty()), ite(has_val, e_val, empty())))
    if critical:
        lemma_tlv_roundtrip(e_crit, 0, False, 1, seq1(255), ite(has_val, e_val, empty()))
        lemma_tlv_prefix(e_crit, ite(has_val, e_val, empty()))
        if has_val:
            lemma_tlv_roundtrip(e_val, 0, False, 4, val, empty())
            lemma_tlv_prefix(e_val, empty())
            assert cat(e_val, empty()) == e_val
    else:
        assert cat(empty(), ite(has_val, e_val, empty())) == ite(has_val, e_val, empty())
        if has_val:
            lemma_tlv_roundtrip(e_val, 0, False, 4, val, empty())
            lemma_tlv_prefix(e_val, empty())
            assert cat(e_val, empty()) == e_val


def thm_rt_partial_attribute(e: bytes, e_type: bytes, name_b: bytes, e_vals: bytes, c_vals: bytes, xs: seqbytes, count: int, q: int, tail: bytes) -> None:
    """PartialAttribute: SEQUENCE { type, SET OF values } as the encoder appends it, read back by the decoder's postcondition."""
    lemma_tlv_roundtrip(e, 0, True, 16, cat(e_type, e_vals), tail)
    lemma_tlv_roundtrip(e_type, 0, False, 4, name_b, e_vals)
    lemma_tlv_roundtrip(e_vals, 0, True, 17, c_vals, empty())
    assert cat(e_vals, empty()) == e_vals
    thm_rt_octs(c_vals, xs, len(xs), count, q)


def thm_rt_present(e: bytes, attr_b: bytes, tail: bytes) -> None:
    lemma_tlv_roundtrip(e, 2, False, 7, attr_b, tail)


def opt_bool(s: bytes, num: int, acc: bool) -> bool:
    """Fold for an optional context-tagged BOOLEAN [num] with a default: the last such element decides, otherwise the accumulator."""
    return acc if len(s) == 0 else opt_bool(rest_of(s), num, bool_den(content_of(s)) if ctx_is(s, num) else acc)


def sel_list(s: bytes, num: int, acc: seqbytes) -> seqbytes:
    """Fold for a repeated context-tagged component [num] collected by a skipping loop: the contents of all elements with that tag,
    in order, appended to the accumulator."""
    return acc if len(s) == 0 else sel_list(rest_of(s), num, snoc_bytes(acc, content_of(s)) if ctx_is(s, num) else acc)


# ---- generic steps of the folds over one leading element (used to compose round trips of SEQUENCEs of optional tagged components)
def lemma_fold_skip(e: bytes, num_e: int, content: bytes, tail: bytes, num: int, acc_none: bool, acc: bytes, acc_b: bool) -> None:
    """A leading primitive context element [num_e] with num_e != num is skipped by the folds for [num]."""
    lemma_tlv_roundtrip(e, 2, False, num_e, content, tail)
    lemma_tlv_prefix(e, tail)
    assert len(cat(e, tail)) >= 2
    assert not ctx_is(cat(e, tail), num)


def lemma_fold_hit(e: bytes, num: int, content: bytes, tail: bytes, acc_none: bool, acc: bytes, acc_b: bool) -> None:
    """A leading primitive context element [num] is taken by the folds for [num]."""
    lemma_tlv_roundtrip(e, 2, False, num, content, tail)
    lemma_tlv_prefix(e, tail)
    assert len(cat(e, tail)) >= 2
    assert ctx_is(cat(e, tail), num)


def thm_rt_ext_match(e_rule: bytes, rule_b: bytes, has_rule: bool, e_type: bytes, type_b: bytes, has_type: bool, e_val: bytes, val: bytes,
                     e_dn: bytes, dn: bool) -> None:
    """MatchingRuleAssertion content as the encoder lays it out - [1] rule?, [2] type?, [3] value, [4] TRUE only when dnAttributes - read
    back by the four folds of the decoder."""
    t3 = ite(dn, e_dn, empty())
    t2 = cat(e_val, t3)
    t1 = cat(ite(has_type, e_type, empty()), t2)
    # the last element: dnAttributes
    if dn:
        lemma_fold_hit(e_dn, 4, seq1(255), empty(), True, empty(), False)
        lemma_fold_skip(e_dn, 4, seq1(255), empty(), 1, True, rule_b, False)
        lemma_fold_skip(e_dn, 4, seq1(255), empty(), 1, False, rule_b, False)
        lemma_fold_skip(e_dn, 4, seq1(255), empty(), 2, True, type_b, False)
        lemma_fold_skip(e_dn, 4, seq1(255), empty(), 2, False, type_b, False)
        lemma_fold_skip(e_dn, 4, seq1(255), empty(), 3, True, val, False)
        assert cat(e_dn, empty()) == e_dn
    # the value
    lemma_fold_hit(e_val, 3, val, t3, True, empty(), False)
    lemma_fold_skip(e_val, 3, val, t3, 1, True, rule_b, False)
    lemma_fold_skip(e_val, 3, val, t3, 1, False, rule_b, False)
    lemma_fold_skip(e_val, 3, val, t3, 2, True, type_b, False)
    lemma_fold_skip(e_val, 3, val, t3, 2, False, type_b, False)
    lemma_fold_skip(e_val, 3, val, t3, 4, True, empty(), False)
    # the type
    if has_type:
        lemma_fold_hit(e_type, 2, type_b, t2, True, empty(), False)
        lemma_fold_skip(e_type, 2, type_b, t2, 1, True, rule_b, False)
        lemma_fold_skip(e_type, 2, type_b, t2, 1, False, rule_b, False)
        lemma_fold_skip(e_type, 2, type_b, t2, 3, True, empty(), False)
        lemma_fold_skip(e_type, 2, type_b, t2, 4, True, empty(), False)
    else:
        assert cat(empty(), t2) == t2
    # the rule
    if has_rule:
        lemma_fold_hit(e_rule, 1, rule_b, t1, True, empty(), False)
        lemma_fold_skip(e_rule, 1, rule_b, t1, 2, True, empty(), False)
        lemma_fold_skip(e_rule, 1, rule_b, t1, 3, True, empty(), False)
        lemma_fold_skip(e_rule, 1, rule_b, t1, 4, True, empty(), False)
    else:
        assert cat(empty(), t1) == t1


def lemma_sel_skip(e: bytes, num_e: int, content: bytes, tail: bytes, num: int, acc: seqbytes) -> None:
    lemma_tlv_roundtrip(e, 2, False, num_e, content, tail)
    lemma_tlv_prefix(e, tail)
    assert len(cat(e, tail)) >= 2
    assert not ctx_is(cat(e, tail), num)


def lemma_sel_run(s: bytes, xs: seqbytes, i: int, n: int, num: int, acc: seqbytes, tail: bytes) -> None:
    """A run of [num] elements holding xs[i:n], followed by tail: the fold collects exactly those contents, in order."""
    if i < n:
        lemma_tlv_roundtrip(take(s, tlv_len(s)), 2, False, num, xs[i], cat(drop(s, tlv_len(s)), tail))
        lemma_tlv_prefix(take(s, tlv_len(s)), cat(drop(s, tlv_len(s)), tail))
        assert cat(take(s, tlv_len(s)), drop(s, tlv_len(s))) == s
        assert cat(take(s, tlv_len(s)), cat(drop(s, tlv_len(s)), tail)) == cat(s, tail)
        assert len(cat(s, tail)) >= 2
        assert ctx_is(cat(s, tail), num)
        lemma_sel_run(drop(s, tlv_len(s)), xs, i + 1, n, num, snoc_bytes(acc, xs[i]), tail)
        assert cat_list(snoc_bytes(acc, xs[i]), slice_list(xs, i + 1, n)) == cat_list(acc, slice_list(xs, i, n))
    else:
        assert cat(s, tail) == tail
        assert cat_list(acc, slice_list(xs, i, n)) == acc


def lemma_fold_skip_run(s: bytes, xs: seqbytes, i: int, n: int, num_run: int, tail: bytes, num: int, acc_none: bool, acc: bytes) -> None:
    """A run of [num_run] elements is skipped by the folds for another tag."""
    if i < n:
        lemma_fold_skip(take(s, tlv_len(s)), num_run, xs[i], cat(drop(s, tlv_len(s)), tail), num, acc_none, acc, False)
        assert cat(take(s, tlv_len(s)), drop(s, tlv_len(s))) == s
        assert cat(take(s, tlv_len(s)), cat(drop(s, tlv_len(s)), tail)) == cat(s, tail)
        lemma_fold_skip_run(drop(s, tlv_len(s)), xs, i + 1, n, num_run, tail, num, acc_none, acc)
    else:
        assert cat(s, tail) == tail


def thm_rt_substrings(e_init: bytes, init: bytes, has_init: bool, c_any: bytes, xs: seqbytes, e_final: bytes, final: bytes, has_final: bool) -> None:
    """The element stream of `substrings` as the encoder lays it out - initial [0]?, the any [1] run, final [2]? - read back by the decoder's
    three folds."""
    tf = ite(has_final, e_final, empty())
    ta = cat(c_any, tf)
    # final
    if has_final:
        lemma_fold_hit(e_final, 2, final, empty(), True, empty(), False)
        lemma_fold_skip(e_final, 2, final, empty(), 0, True, init, False)
        lemma_fold_skip(e_final, 2, final, empty(), 0, False, init, False)
        lemma_sel_skip(e_final, 2, final, empty(), 1, cat_list(nil_bytes(), slice_list(xs, 0, len(xs))))
        assert cat(e_final, empty()) == e_final
    # the any run
    lemma_sel_run(c_any, xs, 0, len(xs), 1, nil_bytes(), tf)
    assert cat_list(nil_bytes(), slice_list(xs, 0, len(xs))) == xs
    lemma_fold_skip_run(c_any, xs, 0, len(xs), 1, tf, 0, True, init)
    lemma_fold_skip_run(c_any, xs, 0, len(xs), 1, tf, 0, False, init)
    lemma_fold_skip_run(c_any, xs, 0, len(xs), 1, tf, 2, True, empty())
    # initial
    if has_init:
        lemma_fold_hit(e_init, 0, init, ta, True, empty(), False)
        lemma_fold_skip(e_init, 0, init, ta, 2, True, empty(), False)
        lemma_sel_skip(e_init, 0, init, ta, 1, nil_bytes())
    else:
        assert cat(empty(), ta) == ta
