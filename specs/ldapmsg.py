"""RFC 4511 encoding relation for repeated components (SEQUENCE OF / SET OF of strings and octet strings), L2.

strs_enc(s, xs, i, n, cls, num): s is exactly the concatenation, in order, of one primitive element per xs[i:n], each
with identifier [cls num], minimal identifier / length octets (tlv_of) and content utf8(xs[k]).  octs_enc is the same
for lists of octet strings.  Defined by reading s from the front, element by element; the snoc lemmas show that
appending one more element written by the TLV writer extends the relation by one list item - which is what the
`for x in xs: writer.write_octet_string(...)` loops of the encoder do.
"""
from specs.prelude import *  # noqa: F401,F403
from specs.ber import *  # noqa: F401,F403
from specs.sess import tlv_len, lemma_tlv_prefix  # noqa: F401


def strs_enc(s: bytes, xs: seqstr, i: int, n: int, cls: int, num: int) -> bool:
    return (len(s) == 0) if i >= n else (tlv_complete(s) and tlv_of(take(s, tlv_len(s)), cls, False, num, utf8(xs[i]))
                                         and strs_enc(drop(s, tlv_len(s)), xs, i + 1, n, cls, num))


def octs_enc(s: bytes, xs: seqbytes, i: int, n: int, cls: int, num: int) -> bool:
    return (len(s) == 0) if i >= n else (tlv_complete(s) and tlv_of(take(s, tlv_len(s)), cls, False, num, xs[i])
                                         and octs_enc(drop(s, tlv_len(s)), xs, i + 1, n, cls, num))


def lemma_strs_snoc(s: bytes, xs: seqstr, i: int, n: int, cls: int, num: int, w: bytes) -> None:
    if i >= n:
        assert cat(s, w) == w
        assert tlv_len(w) == len(w)
        assert take(w, tlv_len(w)) == w
        assert len(drop(w, tlv_len(w))) == 0
        assert strs_enc(drop(w, tlv_len(w)), xs, n + 1, n + 1, cls, num)
    else:
        lemma_tlv_prefix(s, w)
        assert drop(cat(s, w), tlv_len(s)) == cat(drop(s, tlv_len(s)), w)
        assert tlv_len(cat(s, w)) == tlv_len(s)
        assert take(cat(s, w), tlv_len(s)) == take(s, tlv_len(s))
        lemma_strs_snoc(drop(s, tlv_len(s)), xs, i + 1, n, cls, num, w)


def lemma_octs_snoc(s: bytes, xs: seqbytes, i: int, n: int, cls: int, num: int, w: bytes) -> None:
    if i >= n:
        assert cat(s, w) == w
        assert tlv_len(w) == len(w)
        assert take(w, tlv_len(w)) == w
        assert len(drop(w, tlv_len(w))) == 0
        assert octs_enc(drop(w, tlv_len(w)), xs, n + 1, n + 1, cls, num)
    else:
        lemma_tlv_prefix(s, w)
        assert drop(cat(s, w), tlv_len(s)) == cat(drop(s, tlv_len(s)), w)
        assert tlv_len(cat(s, w)) == tlv_len(s)
        assert take(cat(s, w), tlv_len(s)) == take(s, tlv_len(s))
        lemma_octs_snoc(drop(s, tlv_len(s)), xs, i + 1, n, cls, num, w)
