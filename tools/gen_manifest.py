#!/usr/bin/env python3
"""Regenerates MANIFEST.json from props/manifest_entries.py (claimed checks) + properties.jsonl (not_applicable for the rest)."""
import json, os, sys
ROOT = os.path.dirname(os.path.dirname(os.path.abspath(__file__)))
sys.path.insert(0, ROOT)
from props.manifest_entries import ENTRIES, NOT_APPLICABLE
props = [json.loads(l) for l in open(os.path.join(ROOT, "properties.jsonl"))]
checks = []
for p in props:
    e = ENTRIES.get(p["id"])
    if not e:
        continue
    checks.append({
        "property_id": p["id"],
        "quick_cmd": f"./check {p['id']} --tier quick",
        "thorough_cmd": f"./check {p['id']} --tier thorough",
        "evidence_file": f"/verif/evidence/{p['id']}.json",
        "replay_cmd_template": "./check replay {path}",
        "engine": "pyvc",
        "level_claimed": {"category": e["category"], "text": e["text"], "design_ref": e.get("design_ref", "DESIGN.md section 5")},
        "level_note": e["note"],
        "technique": e["technique"],
    })
na = [{"property_id": p["id"], "reason": NOT_APPLICABLE.get(p["id"], "check not built yet (build in progress); see DESIGN.md")}
      for p in props if p["id"] not in ENTRIES]
m = {
    "version": 1,
    "setup_cmd": "python3-vt -m compileall -q pyvc specs contracts props >/dev/null 2>&1; python3-vt -c 'import z3; print(\"z3\", z3.get_version_string())' && /venv/bin/python -c 'import sansldap; print(\"sansldap from\", sansldap.__file__)'",
    "hooks": {"guard": "SANSLDAP_VERIF",
              "enable": "none needed: the checks read /repo/src/sansldap/*.py from the working tree (ast) and import it under /venv/bin/python (editable install); nothing is compiled into the repository and no source commit carries hooks",
              "baseline_off_cmd": "cd /repo && /venv/bin/python -m pytest -ra -q -p no:cacheprovider --timeout=900 --continue-on-collection-errors",
              "source_commits": [], "add_only": True},
    "engines": [{"name": "pyvc", "path": "/verif/pyvc", "serves_properties": sorted(ENTRIES),
                 "kind_free_text": "contract-based deductive verifier for the Python subset used by sansldap: re-reads /repo/src on every run, symbolic execution per function with callees by contract, loop invariants, lemmas as ghost functions, z3 back end; plus native run-time checking of the same contracts (bounded stand-in and replay)"}],
    "checks": checks,
    "notes": "Exit codes of ./check: 0 held, 1 violation (VIOLATION line), 2 undecided, 3 checker failure. See DESIGN.md.",
    "not_applicable": na,
}
json.dump(m, open(os.path.join(ROOT, "MANIFEST.json"), "w"), indent=1)
print(len(checks), "checks;", len(na), "not applicable")
