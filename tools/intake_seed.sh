#!/bin/bash
# usage: intake_seed.sh <prop> <agent-out-dir> <new-seed-name> <round>
# confirms a seeded change in a scratch worktree of /repo (tests green, demo fails with / passes without), stores it under seeded/
set -u
prop=$1; src=$2; name=$3; round=$4
W=$(mktemp -d /tmp/intake.XXXXXX); rmdir $W
git -C /repo worktree add --detach $W HEAD >/dev/null 2>&1 || { echo "worktree failed"; exit 9; }
cd $W
PYTHONPATH=$W/src /venv/bin/python $src/demo.py >/dev/null 2>&1; d0=$?
git apply $src/patch.diff || { echo "patch does not apply"; cd /; git -C /repo worktree remove --force $W; exit 9; }
t=$(PYTHONPATH=$W/src /venv/bin/python -m pytest -q -p no:cacheprovider --timeout=900 -x 2>&1 | tail -1)
PYTHONPATH=$W/src timeout 300 /venv/bin/python $src/demo.py >/dev/null 2>&1; d1=$?
cd /; git -C /repo worktree remove --force $W
echo "$name: tests: $t | demo without: exit $d0 | demo with: exit $d1"
case "$t" in *"413 passed"*) ;; *) echo "REJECT (tests)"; exit 1;; esac
[ $d0 -eq 0 ] && [ $d1 -ne 0 ] || { echo "REJECT (demo)"; exit 1; }
mkdir -p /verif/seeded/$name
cp $src/patch.diff $src/demo.py /verif/seeded/$name/
python3 - "$prop" "$src" "$name" "$round" "$t" "$d0" "$d1" <<'P'
import sys, json
prop, src, name, rnd, t, d0, d1 = sys.argv[1:]
notes = open(src + "/notes.txt").read().strip()
json.dump({"property": prop, "summary": notes, "needs": "see summary (the sub-agent's notes, verbatim)", "round": int(rnd),
           "source": "independent sub-agent given only the property text and a scratch worktree (round %s)" % rnd,
           "confirmed": {"tests": t.strip(), "demo_with_change": "exit " + d1, "demo_without": "exit " + d0},
           "detected_by": []}, open("/verif/seeded/%s/meta.json" % name, "w"), indent=1)
P
