#!/usr/bin/env python3
"""Regenerates seeded/INDEX.md from the meta.json files."""
import json, os, re
root = os.path.join(os.path.dirname(os.path.abspath(__file__)), "..", "seeded")
rows = []
for d in sorted(os.listdir(root)):
    p = os.path.join(root, d, "meta.json")
    if not os.path.exists(p):
        continue
    m = json.load(open(p))
    det = []
    for x in m.get("detected_by", []):
        mm = re.search(r"check (C\d\d)", x)
        if mm:
            det.append(mm.group(1) + (" (refuted obligation)" if "obligation" in x and "refuted" in x else ""))
    summ = " ".join(str(m.get("summary", "")).split())[:230].replace("|", "/")
    rows.append(f"| {d} | {m.get('round', 1)} | {summ} | {'; '.join(det)} |")
head = open(os.path.join(root, "INDEX.md")).read().split("| seed |")[0]
open(os.path.join(root, "INDEX.md"), "w").write(head + "| seed | round | change | detected by (exit 1 with replay) |\n|---|---|---|---|\n" + "\n".join(rows) + "\n")
print(len(rows), "seeds")
