#!/bin/bash
# usage: seedtest.sh <seed-dir-name> <prop> [<prop>...]  - run checks for the props against the seeded patch; print exit codes
sd=$1; shift
for p in "$@"; do
  out=$(tools/with_patch.sh seeded/$sd/patch.diff ./check $p 2>&1); rc=$?
  echo "$sd $p exit=$rc  $(echo "$out" | grep -c '^VIOLATION') violation lines; $(echo "$out" | grep -m1 '^VIOLATION' | cut -c1-200)"
done
