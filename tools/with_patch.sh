#!/bin/bash
# usage: with_patch.sh <patch.diff> <command...>   - runs the command against a scratch copy of /repo with the patch applied
# (SANSLDAP_SRC points at the copy; the copy lives under mktemp -d and is removed afterwards; /repo is not touched)
set -u
P=$(readlink -f "$1"); shift
D=$(mktemp -d /tmp/sansldap-scratch.XXXXXX)
cp -r /repo/src "$D/src"
( cd "$D" && patch -s -p1 < "$P" ) || { echo "patch failed"; rm -rf "$D"; exit 9; }
find "$D" -name __pycache__ -prune -exec rm -rf {} + 2>/dev/null
SANSLDAP_SRC="$D/src" "$@"
rc=$?
rm -rf "$D"
exit $rc
