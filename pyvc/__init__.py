"""pyvc - a small contract-based deductive verifier for the Python subset used by jborean93/sansldap.

The verified text is the repository's own source: every run parses /repo/src/sansldap/*.py with `ast`,
executes the function bodies symbolically (one function at a time, callees by contract), and discharges the
verification conditions with z3.  Contracts live in /verif/contracts (sidecar), spec functions and lemmas in
/verif/specs (plain Python: translated for proofs, executed natively for replay).
"""
