"""C11: contract-level joint invariant of (client session, server session, two FIFO message queues).

The transition relation of every action is *derived from the proved L3 method contracts* of contracts/session.py: the
session part of the post-state is whatever satisfies the contract's postconditions (fresh symbols constrained by the
`ensures` clauses, evaluated by the same engine that proves the contracts against the code).  Only the environment -
the two queues and the ghost bookkeeping about them - is written here.  Obligations per action:
  req   J(pre) /\\ guard                      ==> the contract's preconditions
  keep  J(pre) /\\ guard /\\ requires /\\ ensures  ==> each conjunct of J(post)
  noerr J(pre) /\\ (queue non-empty)           ==> delivering the head message raises no ProtocolError
and at quiescence (both queues empty) J implies agreement on BINDING / not BINDING and on the operations in progress.

Application assumptions of the statement: a call is part of the history only if its session accepts it (guard = the
contract's raise condition is false); the server answers a request it has received with a response of the matching
kind.  The invariant J covers the alive phase; the two designed terminations (client unbind, server notice of
disconnection) are added as terminal steps: the call is accepted and closes its side, the delivery of the termination
message must raise and leaves the receiver CLOSED.  The bounded exploration of props/native_joint.py covers the same
histories including terminations.  Byte-level chunked delivery reduces to message delivery by
C02 (lemma_chunk) and received values equal sent values by C01 - both used as lemmas here.
"""
from __future__ import annotations
import time, copy
import z3
from .values import *
from .symexec import Path, parse_expr, Unsupported
from .run import new_verifier

I, Bo = z3.IntSort(), z3.BoolSort()
AIB, AII = z3.ArraySort(I, Bo), z3.ArraySort(I, I)
BO, BI, OP, CL = 1, 2, 3, 4                      # sansldap._session.SessionState (enum.auto())
BIND, SEARCH, EXT = 0, 1, 2                      # request kinds
FINAL, SASL, ENTRY, DONE, EXTRESP = 10, 11, 12, 13, 14   # response kinds

FIELDS = dict(stC=I, stS=I, outC=AIB, srchC=AIB, outS=AIB, srchS=AIB, ctr=I, kindC=AII, kindOf=AII,
              qk=AII, qi=AII, h=I, t=I, rk=AII, ri=AII, rh=I, rt=I, rq=AIB, fin=AIB, posC=AII, posF=AII, bid=I)


class St:
    def __init__(self, suffix="", **kw):
        for f, s in FIELDS.items():
            setattr(self, f, kw[f] if f in kw else z3.Const(f + suffix, s))

    def upd(self, **kw):
        d = {f: getattr(self, f) for f in FIELDS}
        d.update(kw)
        return St(**d)


def isfinal(k):
    return z3.Or(k == FINAL, k == SASL, k == DONE, k == EXTRESP)


def respkind_ok(k, reqk):
    return z3.Or(z3.And(reqk == BIND, z3.Or(k == FINAL, k == SASL)), z3.And(reqk == SEARCH, z3.Or(k == ENTRY, k == DONE)), z3.And(reqk == EXT, k == EXTRESP))


def J(s):
    i, p = z3.Int("i"), z3.Int("p")
    c = {}
    c["A"] = z3.And(s.h <= s.t, s.rh <= s.rt, s.ctr >= 1, z3.Or(s.stC == BO, s.stC == BI, s.stC == OP), z3.Or(s.stS == BO, s.stS == BI, s.stS == OP))
    c["B"] = z3.ForAll([p], z3.Implies(z3.And(s.h <= p, p < s.t),
                                       z3.And(z3.Or(s.qk[p] == BIND, s.qk[p] == SEARCH, s.qk[p] == EXT), s.rq[s.qi[p]], s.posC[s.qi[p]] == p, s.kindC[s.qi[p]] == s.qk[p])))
    c["C"] = z3.ForAll([i], z3.Implies(s.rq[i], z3.And(s.h <= s.posC[i], s.posC[i] < s.t, s.qi[s.posC[i]] == i)))
    c["D"] = z3.ForAll([i], z3.And(s.outC[i] == z3.Or(s.rq[i], s.outS[i], s.fin[i]),
                                   z3.Not(z3.And(s.rq[i], s.outS[i])), z3.Not(z3.And(s.rq[i], s.fin[i])), z3.Not(z3.And(s.outS[i], s.fin[i]))))
    c["E"] = z3.ForAll([i], z3.And(z3.Implies(s.outC[i], z3.And(1 <= i, i < s.ctr)), z3.Implies(s.srchC[i], s.outC[i]),
                                   z3.Implies(s.srchC[i], z3.And(1 <= i, i < s.ctr)),
                                   z3.Implies(s.outC[i], (s.kindC[i] == SEARCH) == s.srchC[i]),
                                   z3.Implies(s.outC[i], z3.Or(s.kindC[i] == BIND, s.kindC[i] == SEARCH, s.kindC[i] == EXT))))
    c["F"] = z3.ForAll([p], z3.Implies(z3.And(s.rh <= p, p < s.rt),
                                       z3.And(s.outC[s.ri[p]], respkind_ok(s.rk[p], s.kindC[s.ri[p]]),
                                              z3.Implies(isfinal(s.rk[p]), z3.And(s.fin[s.ri[p]], s.posF[s.ri[p]] == p)),
                                              z3.Implies(s.rk[p] == ENTRY, z3.Or(s.outS[s.ri[p]], z3.And(s.fin[s.ri[p]], s.posF[s.ri[p]] > p))))))
    c["G"] = z3.ForAll([i], z3.Implies(s.fin[i], z3.And(s.rh <= s.posF[i], s.posF[i] < s.rt, s.ri[s.posF[i]] == i, isfinal(s.rk[s.posF[i]]))))
    c["H"] = z3.ForAll([i], z3.And(s.srchS[i] == z3.And(s.outS[i], s.kindOf[i] == SEARCH), z3.Implies(s.outS[i], s.kindOf[i] == s.kindC[i])))
    c["I1"] = z3.Implies(s.stS == BI, s.stC == BI)
    c["I2"] = z3.Implies(s.stC == BI, z3.Or(
        z3.And(s.bid == 0, z3.ForAll([i], z3.Not(s.outC[i])), s.stS == BI),
        z3.And(s.bid != 0, z3.ForAll([i], s.outC[i] == (i == s.bid)), s.kindC[s.bid] == BIND)))
    c["I3"] = z3.Implies(s.stC != BI, z3.ForAll([i], z3.Implies(s.outC[i], s.kindC[i] != BIND)))
    c["I4"] = z3.Implies(z3.And(s.stC == BI, s.bid != 0, s.outS[s.bid]), s.stS == BI)
    c["I5"] = z3.Implies(z3.And(s.stC == BI, s.bid != 0, s.fin[s.bid]),
                         z3.And(z3.Implies(s.rk[s.posF[s.bid]] == SASL, s.stS == BI), z3.Implies(s.rk[s.posF[s.bid]] == FINAL, s.stS != BI)))
    return c


class Bridge:
    """Evaluates the sidecar contract of a session method on symbolic pre/post objects."""

    def __init__(self, src_root=None):
        self.v = new_verifier(src_root)
        self.v.cur_fi_stack = []
        self.v.cur_contract_key_stack = []
        self.v.cur_name = "joint"

    def session_obj(self, cls_name, fields):
        ci = self.v.prog.classes[f"_session.{cls_name}"]
        p = Path()
        o = self.v.fresh_object(ci, p, cls_name.lower())
        for k, t in fields.items():
            o.fields[k] = VSet(t) if t.sort() == AIB else VInt(t)
        return o, p

    def transition(self, ckey, fi_key, recv, args):
        """-> dict(requires=[..], raises=z3, ensures=[..], post=VObj, result=VInt|None, facts=[..])"""
        v = self.v
        c = v.contracts[ckey]
        fi = v.prog.functions[fi_key]
        p = Path()
        bound = v.bind_args(fi, [recv] + list(args), {}, p)
        pre_env = copy.deepcopy(bound)
        q = v.spec_path(p, dict(bound), old=pre_env)
        requires = [v.eval_clause(r, q, fi.module) for r in c.requires]
        raise_conds = []
        for exc, cond in c.raises.items():
            raise_conds.append(z3.BoolVal(True) if cond is True else v.eval_clause(cond, q, fi.module))
        post = dict(bound)
        post["self"] = copy.deepcopy(recv)
        for m in c.modifies:
            parts = m.split(".")
            if parts[0] == "self" and len(parts) == 2:
                post["self"].fields[parts[1]] = v.havoc_like(post["self"].fields[parts[1]], p, parts[1] + "'")
        rty = c.result or v.ann_text(fi.node.returns)
        result = v.fresh_of_type(rty, p, fi.module, name="res") if rty != "None" else NONE
        env = dict(post)
        env["result"] = result
        for w in c.witness:
            env[w] = v.fresh_of_type(c.witness_sorts.get(w, "bytes"), p, fi.module, name=w)
        qpost = v.spec_path(p, env, old=pre_env)
        ensures = [v.eval_clause(cl, qpost, fi.module) for cl in c.ensures]
        # exceptional outcome (first listed exception class): post-state havocked separately, exceptional postconditions
        on_raise, post_x = [], None
        if c.raises:
            from .symexec import on_raise_clauses
            exc_cls = list(c.raises)[0]
            px = dict(bound)
            px["self"] = copy.deepcopy(recv)
            for m in c.modifies:
                parts = m.split(".")
                if parts[0] == "self" and len(parts) == 2:
                    px["self"].fields[parts[1]] = v.havoc_like(px["self"].fields[parts[1]], p, parts[1] + "x")
            exc = VExc(exc_cls, {})
            px["exc"] = exc
            for w in c.witness:
                px[w] = v.fresh_of_type(c.witness_sorts.get(w, "bytes"), p, fi.module, name=w + "x")
            qx = v.spec_path(p, px, old=pre_env)
            v.exc_fields_from_contract(exc, c, qx, fi.module, p)
            on_raise = []
            for cl in on_raise_clauses(c, exc_cls, v.prog):
                try:
                    on_raise.append(v.eval_clause(cl, qx, fi.module))
                except Unsupported:
                    pass        # a clause about a local of the function's raise site (the attached response): not needed here
            post_x = px["self"]
        return {"requires": requires, "raises": z3.Or(*raise_conds) if raise_conds else z3.BoolVal(False), "ensures": ensures,
                "post": post["self"], "result": result, "facts": list(p.pc), "env": env, "on_raise": on_raise, "post_x": post_x}


def run(src_root=None, timeout_ms=20000):
    """Returns a list of obligation records (name, status, time, backend, clause)."""
    from .smt import _check
    out = []
    br = Bridge(src_root)
    v = br.v
    s = St()
    Jpre = J(s)
    allpre = list(Jpre.values())

    def discharge(name, hyps, goal, clause):
        t0 = time.time()
        r, dt, _ = _check(hyps + v.global_axioms(), [], goal, timeout_ms)
        out.append({"name": name, "kind": "joint", "status": "proved" if r == z3.unsat else ("refuted" if r == z3.sat else "unknown"), "time": round(time.time() - t0, 3),
                    "backend": "z3", "lineno": 0, "clause": clause, "function": "joint", "model": None, "reason": ""})

    def cli_obj():
        o, p = br.session_obj("LDAPClient", {"state": s.stC, "_outstanding_requests": s.outC, "_search_requests": s.srchC, "_message_counter": s.ctr})
        return o

    def srv_obj():
        o, p = br.session_obj("LDAPServer", {"state": s.stS, "_outstanding_requests": s.outS, "_search_requests": s.srchS})
        return o

    def keep(name, guard_hyps, post_state, label):
        # vacuity canary: the hypotheses of this action must not be contradictory (False must NOT be provable from them)
        t0 = time.time()
        r, dt, _ = _check(allpre + guard_hyps + v.global_axioms(), [], z3.BoolVal(False), 4000)
        out.append({"name": f"joint/{name}/canary", "kind": "joint", "status": "refuted" if r == z3.unsat else "proved", "time": round(time.time() - t0, 3),
                    "backend": "z3 (canary: 'False' must not follow from J /\\ guard /\\ contract)", "lineno": 0,
                    "clause": f"{label}: hypotheses are not contradictory ({'CONTRADICTORY' if r == z3.unsat else str(r)})", "function": "joint", "model": None, "reason": ""})
        Jpost = J(post_state)
        for cn, cf in Jpost.items():
            discharge(f"joint/{name}/keep[{cn}]", allpre + guard_hyps, cf, f"{label}: J.{cn} is preserved")

    def term(val):
        return val.t

    # ---------------- client requests: bind / search / extended
    for name, ckey, kind in (("c_bind", "_session:LDAPClient.bind", BIND), ("c_search", "_session:LDAPClient.search_request", SEARCH),
                             ("c_ext", "_session:LDAPClient.extended_request", EXT)):
        fi_key = ckey
        c = cli_obj()
        fi = v.prog.functions[fi_key]
        p0 = Path()
        args = []
        for pn, ann, d in fi.params()[1:]:
            ty = v.contracts[ckey].params.get(pn) or v.ann_text(ann)
            if ty.startswith("t.Optional["):
                args.append(NONE)
            else:
                args.append(v.fresh_of_type(ty, p0, fi.module, pn))
        tr = br.transition(ckey, fi_key, c, args)
        guard = [z3.Not(tr["raises"])] + p0.pc + tr["facts"]
        if kind == SEARCH:
            # enum-typed arguments conform to their annotations (a precondition of the contract itself)
            guard += [r for r in tr["requires"][1:3]]
        for i_, rq in enumerate(tr["requires"]):
            discharge(f"joint/{name}/req[{i_}]", allpre + guard, rq, f"{name}: J and 'the call is accepted' imply the contract's precondition {v.contracts[ckey].requires[i_][:80]}")
        post = tr["post"]
        nid = term(tr["result"])
        S2 = s.upd(stC=post.fields["state"].t, ctr=post.fields["_message_counter"].t, outC=post.fields["_outstanding_requests"].t, srchC=post.fields["_search_requests"].t,
                   kindC=z3.Store(s.kindC, nid, kind), qk=z3.Store(s.qk, s.t, kind), qi=z3.Store(s.qi, s.t, nid), t=s.t + 1,
                   rq=z3.Store(s.rq, nid, True), posC=z3.Store(s.posC, nid, s.t), bid=(nid if kind == BIND else s.bid))
        keep(name, guard + tr["requires"] + tr["ensures"], S2, name)
    # ---------------- server responses (id x is outstanding at the server and the response kind matches the request kind)
    x = z3.Int("x")
    SASL_CODE = 14
    for name, ckey, kind, reqk in (("s_bind_final", "_session:LDAPServer.bind_response", FINAL, BIND), ("s_bind_sasl", "_session:LDAPServer.bind_response", SASL, BIND),
                                   ("s_entry", "_session:LDAPServer.search_result_entry", ENTRY, SEARCH), ("s_reference", "_session:LDAPServer.search_result_reference", ENTRY, SEARCH),
                                   ("s_done", "_session:LDAPServer.search_result_done", DONE, SEARCH), ("s_extresp", "_session:LDAPServer.extended_response", EXTRESP, EXT)):
        sv_ = srv_obj()
        fi = v.prog.functions[ckey]
        p0 = Path()
        args, extra = [], []
        for pn, ann, d in fi.params()[1:]:
            ty = v.contracts[ckey].params.get(pn) or v.ann_text(ann)
            if pn == "message_id":
                args.append(VInt(x))
            elif pn == "result_code":
                rc = z3.Int("rc")
                args.append(VInt(rc))
                extra.append(rc == SASL_CODE if kind == SASL else rc != SASL_CODE)
            elif pn == "name":
                args.append(NONE)          # an ordinary extended response (the notice of disconnection is a termination)
            elif ty.startswith("t.Optional["):
                args.append(NONE)
            else:
                args.append(v.fresh_of_type(ty, p0, fi.module, pn))
        tr = br.transition(ckey, ckey, sv_, args)
        final = kind in (FINAL, SASL, DONE, EXTRESP)
        guard = [z3.Not(tr["raises"]), s.kindOf[x] == reqk] + extra + p0.pc + tr["facts"]
        for i_, rq in enumerate(tr["requires"]):
            discharge(f"joint/{name}/req[{i_}]", allpre + guard, rq, f"{name}: precondition {v.contracts[ckey].requires[i_][:80]}")
        post = tr["post"]
        S2 = s.upd(stS=post.fields["state"].t, outS=post.fields["_outstanding_requests"].t, srchS=post.fields["_search_requests"].t,
                   rk=z3.Store(s.rk, s.rt, kind), ri=z3.Store(s.ri, s.rt, x), rt=s.rt + 1,
                   fin=(z3.Store(s.fin, x, True) if final else s.fin), posF=(z3.Store(s.posF, x, s.rt) if final else s.posF))
        keep(name, guard + tr["requires"] + tr["ensures"], S2, name)
    # ---------------- deliveries: the head message of a queue is processed by _process_incoming_message
    cls_of = v.func("class_of", Obj, I)
    mid_of = v.func("fld_message_id", Obj, I)

    def ids(*names):
        out_ = []
        for n in names:
            ci = v.prog.classes[f"_messages.{n}"]
            out_.append(v.class_id(ci))
        return out_

    # make sure every message class has an id before formulas are built
    for n in ("BindRequest", "BindResponse", "UnbindRequest", "SearchRequest", "SearchResultEntry", "SearchResultDone", "SearchResultReference", "ExtendedRequest", "ExtendedResponse"):
        ids(n)
    m = z3.Const("m", Obj)
    # server receives the head of qCS
    k, i_ = s.qk[s.h], s.qi[s.h]
    msg = VSym(m, v.prog.classes["_messages.LDAPMessage"])
    facts = [mid_of(m) == i_,
             z3.Implies(k == BIND, cls_of(m) == ids("BindRequest")[0]), z3.Implies(k == SEARCH, cls_of(m) == ids("SearchRequest")[0]), z3.Implies(k == EXT, cls_of(m) == ids("ExtendedRequest")[0])]
    tr = br.transition("_session:LDAPServer._process_incoming_message", "_session:LDAPServer._process_incoming_message", srv_obj(), [msg])
    guard = [s.h < s.t] + facts + tr["facts"]
    for j_, rq in enumerate(tr["requires"]):
        discharge(f"joint/s_recv/req[{j_}]", allpre + guard, rq, "server delivery: precondition of _process_incoming_message")
    discharge("joint/s_recv/noerr", allpre + guard + tr["requires"], z3.Not(tr["raises"]), "delivering the head request raises no ProtocolError (a bind request never meets outstanding operations)")
    post = tr["post"]
    S2 = s.upd(h=s.h + 1, rq=z3.Store(s.rq, i_, False), kindOf=z3.Store(s.kindOf, i_, k),
               stS=post.fields["state"].t, outS=post.fields["_outstanding_requests"].t, srchS=post.fields["_search_requests"].t)
    keep("s_recv", guard + tr["requires"] + tr["ensures"] + [z3.Not(tr["raises"])], S2, "server delivery")
    # client receives the head of qSC
    k, i_ = s.rk[s.rh], s.ri[s.rh]
    m2 = z3.Const("m2", Obj)
    msg2 = VSym(m2, v.prog.classes["_messages.LDAPMessage"])
    res_of = v.func("fld_result", Obj, Obj)
    code_of = v.func("fld_result_code", Obj, I)
    facts = [mid_of(m2) == i_,
             z3.Implies(z3.Or(k == FINAL, k == SASL), cls_of(m2) == ids("BindResponse")[0]),
             z3.Implies(k == FINAL, code_of(res_of(m2)) != SASL_CODE), z3.Implies(k == SASL, code_of(res_of(m2)) == SASL_CODE),
             z3.Implies(k == ENTRY, z3.Or(cls_of(m2) == ids("SearchResultEntry")[0], cls_of(m2) == ids("SearchResultReference")[0])),
             z3.Implies(k == DONE, cls_of(m2) == ids("SearchResultDone")[0]), z3.Implies(k == EXTRESP, cls_of(m2) == ids("ExtendedResponse")[0]),
             z3.Or(k == FINAL, k == SASL, k == ENTRY, k == DONE, k == EXTRESP)]
    tr = br.transition("_session:LDAPClient._process_incoming_message", "_session:LDAPClient._process_incoming_message", cli_obj(), [msg2])
    guard = [s.rh < s.rt] + facts + tr["facts"]
    for j_, rq in enumerate(tr["requires"]):
        discharge(f"joint/c_recv/req[{j_}]", allpre + guard, rq, "client delivery: precondition of _process_incoming_message")
    discharge("joint/c_recv/noerr", allpre + guard + tr["requires"], z3.Not(tr["raises"]), "delivering the head response raises no ProtocolError (its id is in progress at the client)")
    post = tr["post"]
    S2 = s.upd(rh=s.rh + 1, fin=z3.If(isfinal(k), z3.Store(s.fin, i_, False), s.fin), bid=z3.If(z3.Or(k == FINAL, k == SASL), 0, s.bid),
               stC=post.fields["state"].t, outC=post.fields["_outstanding_requests"].t, srchC=post.fields["_search_requests"].t, ctr=post.fields["_message_counter"].t)
    keep("c_recv", guard + tr["requires"] + tr["ensures"] + [z3.Not(tr["raises"])], S2, "client delivery")
    # ---------------- designed terminations: unbind (client) and notice of disconnection (server)
    # From an alive J-state one side ends the session.  Until the termination message is delivered the other side goes on
    # from the same J-state (J is then read over the frozen fields of the closed side: the keep obligations above quantify
    # over every J-state and none of the other side's actions touches those fields - paper step).  What is discharged here:
    # the terminating call is accepted and closes its side; the delivery of the termination message cannot return normally
    # (receive never returns a termination message), so it raises, and every raise of receive leaves the session CLOSED
    # with nothing in progress; hence both sides are CLOSED once the termination has been delivered.
    def empty_set_t():
        return z3.K(I, z3.BoolVal(False))

    UNB, XRESP = ids("UnbindRequest")[0], ids("ExtendedResponse")[0]
    name_of = v.func("fld_name", Obj, z3.DeclareSort("Str")) if False else None
    # (1) client.unbind()
    tr = br.transition("_session:LDAPClient/LDAPSession.unbind", "_session:LDAPSession.unbind", cli_obj(), [])
    guard = [z3.Not(tr["raises"])] + tr["facts"]
    for j_, rq in enumerate(tr["requires"]):
        discharge(f"joint/c_unbind/req[{j_}]", allpre + guard, rq, "client unbind: precondition of the contract follows from J")
    discharge("joint/c_unbind/accepted", allpre, z3.Not(tr["raises"]), "an alive client may always end the session (unbind is never refused)")
    discharge("joint/c_unbind/closed", allpre + guard + tr["requires"] + tr["ensures"],
              z3.And(tr["post"].fields["state"].t == CL, tr["post"].fields["_outstanding_requests"].t == empty_set_t()),
              "after unbind the client is CLOSED with nothing in progress")
    # (2) server.receive(bytes of exactly that unbind request)
    for side, ckey, mk, term_fact, label in (
            ("s", "_session:LDAPServer.receive", srv_obj, lambda mm: cls_of(mm) == UNB, "server receives the unbind request"),
            ("c", "_session:LDAPClient.receive", cli_obj, None, "client receives the notice of disconnection")):
        o_ = mk()
        p0 = Path()
        data = v.fresh_of_type("bytes", p0, "_session", "data")
        tr = br.transition(ckey, ckey, o_, [data])
        mm = z3.Const("tm_" + side, Obj)
        res_t = tr["result"].t
        if term_fact is None:
            q_ = Path(); q_.spec = True
            q_.env = {"m": VSym(mm, v.prog.classes["_messages.LDAPMessage"])}
            term = v.truth(v.ev(parse_expr("isinstance(m, ExtendedResponse) and m.name == ExtendedOperations.LDAP_NOTICE_OF_DISCONNECTION.value"), q_, "_session"), q_)
            extra = list(q_.pc)
        else:
            term, extra = term_fact(mm), []
        # C02 / C01 as lemmas: the delivered bytes are exactly the encoding of the termination message, so the decoded list is [m]
        delivered = [z3.Length(res_t) == 1, res_t[0] == mm, term] + extra
        alive = [o_.fields["state"].t != CL]
        # vacuity canary: without the fact that the delivered message is a termination, a normal return must remain possible
        t0c = time.time()
        rcan, _, _ = _check(allpre + alive + p0.pc + tr["facts"] + tr["requires"] + tr["ensures"] + delivered[:2] + v.global_axioms(), [], z3.BoolVal(False), 4000)
        out.append({"name": f"joint/{side}_recv_term/canary", "kind": "joint", "status": "refuted" if rcan == z3.unsat else "proved", "time": round(time.time() - t0c, 3),
                    "backend": "z3 (canary: 'False' must not follow when the delivered message is an ordinary one)", "lineno": 0,
                    "clause": f"{label}: hypotheses are not contradictory ({'CONTRADICTORY' if rcan == z3.unsat else str(rcan)})", "function": "joint", "model": None, "reason": ""})
        discharge(f"joint/{side}_recv_term/raises", allpre + alive + p0.pc + tr["facts"] + tr["requires"] + tr["ensures"] + delivered, z3.BoolVal(False),
                  f"{label}: a normal return is impossible (receive never returns a termination message), so the delivery raises ProtocolError")
        discharge(f"joint/{side}_recv_term/closed", allpre + alive + p0.pc + tr["facts"] + tr["requires"] + tr["on_raise"],
                  z3.And(tr["post_x"].fields["state"].t == CL, tr["post_x"].fields["_outstanding_requests"].t == empty_set_t()),
                  f"{label}: whatever it raises, the session is CLOSED afterwards with nothing in progress")
    # (3) server sends the notice of disconnection for an outstanding request x
    sv_ = srv_obj()
    ckey = "_session:LDAPServer.extended_response"
    fi = v.prog.functions[ckey]
    p0 = Path()
    qn = Path(); qn.spec = True
    notice_v = v.ev(parse_expr("ExtendedOperations.LDAP_NOTICE_OF_DISCONNECTION"), qn, "_session")
    args = []
    for pn, ann, d in fi.params()[1:]:
        ty = v.contracts[ckey].params.get(pn) or v.ann_text(ann)
        if pn == "message_id":
            args.append(VInt(x))
        elif pn == "name":
            args.append(notice_v)
        elif pn == "result_code":
            args.append(VInt(z3.Int("rc_n")))
        elif ty.startswith("t.Optional["):
            args.append(NONE)
        else:
            args.append(v.fresh_of_type(ty, p0, fi.module, pn))
    tr = br.transition(ckey, ckey, sv_, args)
    guard = [z3.Not(tr["raises"])] + p0.pc + tr["facts"]
    for j_, rq in enumerate(tr["requires"]):
        discharge(f"joint/s_notice/req[{j_}]", allpre + guard, rq, "server notice of disconnection: precondition of the contract follows from J")
    discharge("joint/s_notice/closed", allpre + guard + tr["requires"] + tr["ensures"], tr["post"].fields["state"].t == CL,
              "after sending the notice of disconnection the server is CLOSED")
    discharge("joint/s_notice/allowed-while-binding", allpre + [s.outS[x]], z3.Not(tr["raises"]),
              "the notice may answer any request in progress, also while a bind is in progress")
    # ---------------- initial state and quiescence
    e = z3.Int("e")
    init = St("0")
    empty = z3.K(I, z3.BoolVal(False))
    init_facts = [init.stC == BO, init.stS == BO, init.outC == empty, init.srchC == empty, init.outS == empty, init.srchS == empty, init.ctr == 1, init.h == init.t, init.rh == init.rt,
                  init.rq == empty, init.fin == empty, init.bid == 0]
    for cn, cf in J(init).items():
        discharge(f"joint/init[{cn}]", init_facts, cf, "J holds for two fresh sessions and empty pipes")
    quiet = [s.h == s.t, s.rh == s.rt]
    discharge("joint/quiescence/in-progress", allpre + quiet, z3.ForAll([e], s.outC[e] == s.outS[e]), "when everything is delivered both sides agree on the operations in progress")
    discharge("joint/quiescence/searches", allpre + quiet, z3.ForAll([e], s.srchC[e] == s.srchS[e]), "... and on which of them are searches")
    discharge("joint/quiescence/state", allpre + quiet, (s.stC == BI) == (s.stS == BI), "... and on BINDING / not BINDING (BEFORE_OPEN and OPENED alike)")
    # J itself is satisfiable: it holds in the initial state (init obligations above, whose hypotheses are a concrete state)
    return out


if __name__ == "__main__":
    import sys
    res = run()
    bad = [o for o in res if o["status"] != "proved"]
    print(len(res), "obligations,", len(bad), "not proved")
    for o in bad:
        print(o["status"], o["name"], o["clause"][:100])
