"""Native side (runs under /venv/bin/python with the real sansldap from the working tree).

* evaluates the *same* sidecar contract clauses on concrete values (spec functions are ordinary Python),
* wraps the real functions with those contracts (run-time assertion checking), which is the bounded stand-in and the
  replay mechanism for counter-models produced by the prover.

No z3 here.  Nothing in this file re-implements repository code.
"""
from __future__ import annotations
import ast, copy, os, sys, types, functools, importlib, json, traceback

VERIF_ROOT = os.path.dirname(os.path.dirname(os.path.abspath(__file__)))
if VERIF_ROOT not in sys.path:
    sys.path.insert(0, VERIF_ROOT)
SRC_ROOT = os.environ.get("SANSLDAP_SRC", "/repo/src")
if SRC_ROOT not in sys.path:
    sys.path.insert(0, SRC_ROOT)

CONTRACT_FILES = ["asn1", "session", "messages", "filter_text"]


class NContract:
    def __init__(self, key, **kw):
        self.key = key
        self.requires = kw.get("requires", [])
        self.ensures = kw.get("ensures", [])
        self.raises = kw.get("raises", {})
        self.on_raise = kw.get("on_raise", [])
        self.witness = kw.get("witness", {})
        self.kw = kw


def load_contracts():
    reg, objects, extras = {}, {}, {}

    def contract(key, **kw):
        reg[key] = NContract(key, **kw)

    for name in CONTRACT_FILES:
        path = os.path.join(VERIF_ROOT, "contracts", name + ".py")
        if os.path.exists(path):
            g = {"contract": contract, "OBJECT_FIELDS": objects, "EXTRAS": extras, "__name__": "contracts." + name}
            exec(compile(open(path).read(), path, "exec"), g)
    return reg, objects, extras


def spec_namespace():
    ns = {}
    for m in ("specs.prelude", "specs.ber", "specs.sess", "specs.ldapmsg"):
        try:
            mod = importlib.import_module(m)
        except ModuleNotFoundError:
            continue
        for k, v in vars(mod).items():
            if not k.startswith("__"):
                ns[k] = v
    return ns


class _Rewrite(ast.NodeTransformer):
    """forall / implies / ite / old  ->  plain Python."""

    def visit_Call(self, node):
        self.generic_visit(node)
        if isinstance(node.func, ast.Name):
            f = node.func.id
            if f in ("forall", "exists") and len(node.args) == 4:
                var, lo, hi, body = node.args
                gen = ast.GeneratorExp(elt=body, generators=[ast.comprehension(
                    target=ast.Name(id=var.id, ctx=ast.Store()),
                    iter=ast.Call(func=ast.Name(id="range", ctx=ast.Load()), args=[lo, hi], keywords=[]), ifs=[], is_async=0)])
                return ast.Call(func=ast.Name(id="all" if f == "forall" else "any", ctx=ast.Load()), args=[gen], keywords=[])
            if f == "implies" and len(node.args) == 2:
                return ast.BoolOp(op=ast.Or(), values=[ast.UnaryOp(op=ast.Not(), operand=node.args[0]), node.args[1]])
            if f == "ite" and len(node.args) == 3:
                return ast.IfExp(test=node.args[0], body=node.args[1], orelse=node.args[2])
            if f == "old" and len(node.args) == 1:
                return ast.Call(func=ast.Name(id="__old__", ctx=ast.Load()), args=[ast.Constant(ast.unparse(node.args[0]))], keywords=[])
        return node


_compiled = {}


def compile_clause(txt):
    if txt not in _compiled:
        tree = ast.parse(txt.strip(), mode="eval")
        tree = ast.fix_missing_locations(_Rewrite().visit(tree))
        _compiled[txt] = compile(tree, "<clause>", "eval")
    return _compiled[txt]


class Undefined(Exception):
    pass


def eval_clause(txt, env, old_env=None, glob=None):
    """Value of a clause; raises Undefined when the clause touches something outside its domain (index error etc.)."""
    ns = dict(glob) if glob else {}
    ns.update(SPEC_NS)
    ns.update(env)

    def __old__(src):
        return eval_clause(src, old_env if old_env is not None else env, old_env, glob)

    ns["__old__"] = __old__
    try:
        return eval(compile_clause(txt), ns)
    except (IndexError, RecursionError, ZeroDivisionError, AttributeError, TypeError, KeyError, NameError, NotImplementedError) as e:
        raise Undefined(f"{type(e).__name__}: {e}")


SPEC_NS = {}


def init():
    global SPEC_NS
    if not SPEC_NS:
        SPEC_NS = spec_namespace()


def snapshot(v, depth=0):
    """Value snapshot for old(): containers are copied, objects with __dict__ are copied field-wise (2 levels)."""
    if isinstance(v, (bytearray, set, list, dict)):
        return copy.copy(v)
    if isinstance(v, memoryview):
        return bytes(v)
    if hasattr(v, "__dict__") and not isinstance(v, type) and depth < 2 and type(v).__module__.startswith("sansldap"):
        try:
            c = copy.copy(v)
        except Exception:
            return v
        for k, x in list(vars(v).items()):
            try:
                setattr(c, k, snapshot(x, depth + 1))
            except Exception:
                object.__setattr__(c, k, snapshot(x, depth + 1))
        return c
    return v


class Violation(Exception):
    def __init__(self, key, clause, kind, inputs, detail=""):
        super().__init__(f"{key}: {kind} violated: {clause} {detail}")
        self.key, self.clause, self.kind, self.inputs, self.detail = key, clause, kind, inputs, detail


def exc_matches(e, name):
    return any(c.__name__ == name for c in type(e).__mro__)


def check_call(key, contract, fn, args, kwargs, violations, counts, param_names):
    """Run fn under its contract. Appends violation records; re-raises the function's own exception."""
    init()
    import inspect
    try:
        bound = inspect.signature(fn).bind(*args, **kwargs)
        bound.apply_defaults()
        env = dict(bound.arguments)
    except TypeError:
        return fn(*args, **kwargs)
    old_env = {k: snapshot(v) for k, v in env.items()}
    G = getattr(fn, "__globals__", None)
    # preconditions: when one is false (or undefined) the call is outside the contract: just run it
    try:
        for r in contract.requires:
            if not eval_clause(r, env, old_env, G):
                counts["pre_false"] = counts.get("pre_false", 0) + 1
                return fn(*args, **kwargs)
    except Undefined:
        return fn(*args, **kwargs)
    counts["evaluated"] = counts.get("evaluated", 0) + 1

    def describe():
        out = {}
        for k, v in old_env.items():
            try:
                out[k] = repr(bytes(v)) if isinstance(v, (bytes, bytearray, memoryview)) else repr(v)[:300]
            except Exception:
                out[k] = "?"
        return out

    try:
        result = fn(*args, **kwargs)
    except BaseException as e:
        if isinstance(e, (Violation, KeyboardInterrupt, SystemExit)):
            raise
        cls = None
        for rc in contract.raises:
            if exc_matches(e, rc):
                cls = rc
                break
        if cls is None:
            violations.append({"function": key, "kind": "raises-unexpected", "clause": f"no {type(e).__name__} may escape",
                               "inputs": describe(), "detail": f"{type(e).__name__}: {e}"})
        else:
            cond = contract.raises[cls]
            if cond is not True:
                try:
                    if not eval_clause(cond, old_env, old_env, G):
                        violations.append({"function": key, "kind": "raises", "clause": f"{cls}: {cond}", "inputs": describe(),
                                           "detail": f"{type(e).__name__}: {e}"})
                except Undefined:
                    pass
        env2 = dict(env)
        env2["exc"] = e
        orc = contract.on_raise
        if isinstance(orc, dict):
            orc = list(orc.get("*", [])) + [cl for k_, v_ in orc.items() if k_ != "*" and exc_matches(e, k_) for cl in v_]
        for cl in orc:
            try:
                if not eval_clause(cl, env2, old_env, G):
                    violations.append({"function": key, "kind": "on-raise", "clause": cl, "inputs": describe(), "detail": f"{type(e).__name__}: {e}"})
            except Undefined:
                pass
        raise
    env2 = dict(env)
    for k, v in old_env.items():
        if not (hasattr(v, "__dict__") and type(v).__module__.startswith("sansldap")):
            env2[k] = v           # parameter names denote argument values
    env2["result"] = result
    for cl in contract.ensures:
        if any(w in cl for w in contract.witness):
            continue              # clauses over ghost witnesses are only checked by the prover
        try:
            if not eval_clause(cl, env2, old_env, G):
                violations.append({"function": key, "kind": "ensures", "clause": cl, "inputs": describe(), "detail": f"returned {repr(result)[:200]}"})
        except Undefined:
            pass
    return result


def install(violations, counts, only=None, prefixes=None):
    """Wrap every contracted repository function with its contract (module functions and methods).
    A key  module:Concrete/Defining.method  is the contract of an inherited method for receivers of class Concrete."""
    init()
    reg, objects, extras = load_contracts()
    groups = {}
    for key, c in reg.items():
        if key.startswith("specs.") or (only is not None and key not in only):
            continue
        if prefixes is not None and not any(key.startswith(px) for px in prefixes):
            continue
        modname, qual = key.split(":")
        concrete = None
        if "/" in qual:
            concrete, qual = qual.split("/", 1)
        groups.setdefault((modname, qual), {})[concrete] = (key, c)
    wrapped = []
    for (modname, qual), variants in groups.items():
        try:
            mod = importlib.import_module("sansldap." + modname)
        except Exception:
            continue
        parts = qual.split(".")
        owner = mod
        try:
            for pth in parts[:-1]:
                owner = getattr(owner, pth)
            raw = owner.__dict__.get(parts[-1]) if isinstance(owner, type) else getattr(owner, parts[-1])
        except AttributeError:
            continue
        if raw is None:
            continue
        is_cm = isinstance(raw, classmethod)
        is_sm = isinstance(raw, staticmethod)
        fn = raw.__func__ if (is_cm or is_sm) else raw
        if getattr(fn, "__pyvc_wrapped__", False):
            continue

        def make(fn, variants):
            @functools.wraps(fn)
            def wrapper(*a, **k):
                ent = None
                if a and not isinstance(a[0], type):
                    ent = variants.get(type(a[0]).__name__)
                if ent is None:
                    ent = variants.get(None)
                if ent is None:
                    return fn(*a, **k)
                return check_call(ent[0], ent[1], fn, a, k, violations, counts, None)
            wrapper.__pyvc_wrapped__ = True
            return wrapper
        w = make(fn, variants)
        if is_cm:
            w = classmethod(w)
        elif is_sm:
            w = staticmethod(w)
        setattr(owner, parts[-1], w)
        if isinstance(owner, type):
            for aname, aval in list(vars(owner).items()):
                if aval is raw and aname != parts[-1]:
                    setattr(owner, aname, w)
        wrapped.extend(k for k, _ in variants.values())
    return wrapped
