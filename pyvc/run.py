"""Driver: load sidecar contracts, verify functions, discharge obligations (one worker process per function)."""
from __future__ import annotations
import importlib.util, os, sys, time, json, traceback, multiprocessing as mp
import z3
from .frontend import Program, VERIF_ROOT
from .symexec import Contract, Unsupported
from .stmts import Verifier
from . import smt

CONTRACT_FILES = ["asn1", "session", "messages", "decode", "encode", "filter_text"]


def load_contracts():
    reg = {}
    objects = {}
    extras = {}

    def contract(key, **kw):
        reg[key] = Contract(key, **kw)

    for name in CONTRACT_FILES:
        path = os.path.join(VERIF_ROOT, "contracts", name + ".py")
        if not os.path.exists(path):
            continue
        g = {"contract": contract, "OBJECT_FIELDS": objects, "EXTRAS": extras, "__name__": "contracts." + name}
        exec(compile(open(path).read(), path, "exec"), g)
    return reg, objects, extras


def new_verifier(src_root=None):
    prog = Program(src_root)
    reg, objects, extras = load_contracts()
    v = Verifier(prog, reg)
    v.object_fields = objects
    v.immutable_fields = extras.get("immutable_fields", {})
    v.sym_frames = extras.get("sym_frames", {})
    v.exc_field_specs = extras.get("exc_fields", {})
    v.int_field_bound = extras.get("int_field_bound")
    return v


def input_terms(env, prefix=""):
    """name -> z3 term for every scalar / sequence leaf of the initial environment (used to read models)."""
    from .values import VInt, VBool, VBytes, VObj, VOpt, VTuple, VSet, VStr, VNone, VSym
    out = {}
    for k, v in env.items():
        name = f"{prefix}{k}"
        if isinstance(v, (VInt, VBool, VBytes)):
            out[name] = v.t
        elif isinstance(v, VNone):
            out[name] = None
        elif isinstance(v, VObj):
            out.update(input_terms(v.fields, name + "."))
        elif isinstance(v, VOpt):
            out[name + "?none"] = v.isnone
            out.update(input_terms({"": v.val}, name))
        elif isinstance(v, VTuple):
            out.update(input_terms({str(i): x for i, x in enumerate(v.items)}, name + "."))
        elif isinstance(v, VSet):
            out[name] = v.t
    return out


def verify_one(job):
    """job = dict(key=function key, ckey=contract key, cls=concrete class key or None, timeout_ms, src_root)."""
    t0 = time.time()
    res = {"job": job, "obligations": [], "error": None, "stats": {}}
    try:
        v = new_verifier(job.get("src_root"))
        fi = v.prog.functions.get(job["key"])
        if fi is None:
            res["error"] = f"function {job['key']} not found in source"
            res["error_kind"] = "missing"
            return res
        res["source_hash"] = fi.source_hash(v.prog.sources[fi.module])
        ccls = v.prog.classes.get(job["cls"]) if job.get("cls") else None
        c = v.contracts[job["ckey"]]
        obls, stats, paths = v.verify_function(job["key"], ccls, job["ckey"])
        res["stats"] = {k: v_ for k, v_ in stats.items() if k != "inputs"}
        res["stats"]["symexec_s"] = round(time.time() - t0, 3)
        res["stats"]["feasibility_checks"] = v.feas_calls
        res["used_contracts"] = sorted(v.used_contracts)
        if v.skipped_hints:
            res["stats"]["skipped_hints"] = sorted(v.skipped_hints)
        axioms = v.global_axioms()
        timeout = int(os.environ.get("PYVC_TIMEOUT_MS", 0)) or c.timeout or job.get("timeout_ms", 20000)
        from .symexec import Obligation

        def conjuncts(g, depth=0):
            if z3.is_and(g):
                out = []
                for ch in g.children():
                    out.extend(conjuncts(ch, depth))
                return out
            # a defined predicate (spec function) whose definition is a conjunction: prove the conjuncts of its definition
            if depth < 3 and z3.is_app(g) and g.decl().kind() == z3.Z3_OP_UNINTERPRETED and g.num_args() > 0:
                ax = v.axioms.get(g.sexpr())
                if ax is not None and z3.is_eq(ax) and z3.is_and(ax.arg(1)):
                    return conjuncts(ax.arg(1), depth + 1)
            return [g]

        split = []
        for ob in obls:
            cs = conjuncts(ob.goal)
            if len(cs) <= 1:
                split.append(ob)
            else:
                # prove the conjuncts one at a time, each one available as a hypothesis for the next
                hyps = list(ob.hyps)
                for i, cj in enumerate(cs):
                    split.append(Obligation(f"{ob.name}.{i}", hyps, cj, ob.kind, ob.lineno, ob.func, dict(ob.extra, clause=f"{ob.extra.get('clause', '')} [conjunct {i}: {str(cj)[:60]}]")))
                    hyps = hyps + [cj]
        if job.get("part"):
            # a long function is verified by several workers: each one executes it symbolically and discharges its share
            k_, n_ = job["part"]
            split = [ob for idx_, ob in enumerate(split) if idx_ % n_ == k_]
        failed = 0
        for ob in split:
            if failed >= 2:
                # the function already fails several obligations (it is undecided / violated whatever the rest says): the remaining
                # ones are not attempted (reported as unknown)
                r = {"status": "unknown", "time": 0.0, "backend": "not attempted: two obligations of this function already failed", "model": None, "reason": "skipped"}
            else:
                r = smt.discharge(ob, axioms, timeout)
            if r["status"] != "proved" and ob.name not in job.get("known_obligations", ()):
                failed += 1
            rec = {"name": ob.name, "kind": ob.kind, "status": r["status"], "time": round(r["time"], 3), "backend": r["backend"],
                   "lineno": ob.lineno, "clause": ob.extra.get("clause", ""), "exc": ob.extra.get("exc"), "reason": r.get("reason", "")}
            if r["model"] is not None:
                # read the function's inputs out of the counter-model
                model = {}
                vi = ob.extra.get("variant")
                envs = [pth for pth in paths if vi is None or pth[0] == vi]
                if envs:
                    old_env = envs[0][2].old
                    for name, term in input_terms(old_env).items():
                        if term is None:
                            model[name] = None
                        else:
                            try:
                                model[name] = smt.model_value(r["model"], term)
                            except Exception:
                                model[name] = "?"
                # fields of symbolic input objects (self.message_id, ...) that the obligation mentions
                try:
                    for t in smt.constants_of(list(ob.hyps) + [ob.goal]):
                        if t.num_args() >= 1:
                            model[t.sexpr().replace("fld_", "").replace("!", "_")] = smt.model_value(r["model"], t)
                except Exception:
                    pass
                rec["model"] = model
            res["obligations"].append(rec)
        res["stats"]["total_s"] = round(time.time() - t0, 3)
    except Unsupported as e:
        res["error"] = f"unsupported: {e}"
        res["error_kind"] = "unsupported"
    except Exception as e:
        res["error"] = f"{type(e).__name__}: {e}\n{traceback.format_exc()[-1500:]}"
        res["error_kind"] = "crash"
    return res


def run_jobs(jobs, procs=None):
    procs = procs or min(16, max(1, len(jobs)))
    if len(jobs) == 1 or os.environ.get("PYVC_SERIAL"):
        return [verify_one(j) for j in jobs]
    ctx = mp.get_context("fork")
    with ctx.Pool(procs) as pool:
        return pool.map(verify_one, jobs, chunksize=1)


def main(argv):
    keys = argv[1:]
    reg, _, _ = load_contracts()
    jobs = []
    for k in keys:
        # key  or  key@concrete.class@contract-key
        parts = k.split("@")
        jobs.append({"key": parts[0], "ckey": parts[2] if len(parts) > 2 else parts[0], "cls": parts[1] if len(parts) > 1 and parts[1] else None,
                     "timeout_ms": 20000})
    for res in run_jobs(jobs):
        print("==", res["job"]["key"], res.get("stats"))
        if res["error"]:
            print("   ERROR", res["error"])
        for o in res["obligations"]:
            print(f"   {o['status']:8s} {o['time']:6.2f}s {o['name']}   {o['clause'][:70]}")
            if o["status"] != "proved" and o.get("model"):
                print("       model:", o["model"])


if __name__ == "__main__":
    main(sys.argv)
