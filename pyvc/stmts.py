"""Statements, loops (cut by invariants), try/except/with, and the per-function verification driver."""
from __future__ import annotations
import ast, copy, time
import z3
from .values import *
from .symexec import Engine, Unsupported, NeedFork, Raised, Obligation, Path, Contract, parse_expr, on_raise_clauses
from .exprs import ExprMixin, MUTATING_METHODS
from .calls import CallMixin, SPEC_PRIMS as _SP
SPEC_PRIM_NAMES = set(_SP)


PURE_VALUE_METHODS = {"decode", "encode", "lower", "upper", "tobytes", "hex", "startswith", "endswith", "strip", "lstrip", "rstrip", "split",
                      "join", "format", "partition", "isdigit", "to_bytes"}


class Verifier(ExprMixin, CallMixin, Engine):
    def __init__(self, prog, contracts):
        Engine.__init__(self, prog, contracts)
        self.cur_fi_stack = []
        self.cur_name = ""
        self.cur_decreases = None
        self.used_contracts = set()
        self.skipped_hints = set()
        self.call_counts = {}
        self.cur_path_tag = None
        self.sink = []
        self.paths_explored = 0
        self.spec_function_names = set()
        for mod in ("specs.ber", "specs.sess", "specs.ldapmsg"):
            for name, ent in prog.globals.get(mod, {}).items():
                if ent[0] == "func" and not name.startswith(("lemma_", "thm_")):
                    self.spec_function_names.add(name)
        from .calls import SPEC_PRIMS
        self.spec_function_names |= set(SPEC_PRIMS)

    # ------------------------------------------------------------------ blocks
    def exec_block(self, stmts, p, module):
        """Returns outcomes [(status, path, value)], status in normal|break|continue|return|raise."""
        live = [("normal", p, None)]
        for st in stmts:
            nxt = []
            for status, q, val in live:
                if status != "normal":
                    nxt.append((status, q, val))
                    continue
                nxt.extend(self.exec_stmt(st, q, module))
            live = nxt
            if not live:
                break
        return live

    def exec_stmt(self, st, p, module):
        """Driver: re-executes the statement once per fork script (forks happen inside expression evaluation)."""
        work = [[]]
        outcomes = []
        compound = isinstance(st, (ast.If, ast.While, ast.For, ast.Try, ast.With))
        while work:
            script = work.pop()
            q = p.fork()
            q.script = script
            q.pos = 0
            try:
                outcomes.extend(self.stmt1(st, q, module))
            except NeedFork as nf:
                for i in range(nf.n):
                    work.append(script + [i])
            except Raised as r:
                if r.exc.cls == "__infeasible__":
                    continue
                r.exc.fields.setdefault("lineno", getattr(st, "lineno", 0))
                outcomes.append(("raise", q, r.exc))
        return outcomes

    # ------------------------------------------------------------------ single statements
    def stmt1(self, st, p, module):
        m = getattr(self, "st_" + type(st).__name__, None)
        if m is None:
            raise Unsupported(f"statement {type(st).__name__} at line {st.lineno}")
        return m(st, p, module)

    def st_Expr(self, st, p, module):
        v = st.value
        if isinstance(v, ast.Constant):
            return [("normal", p, None)]
        if isinstance(v, ast.Call) and isinstance(v.func, ast.Attribute) and v.func.attr in MUTATING_METHODS:
            tgt = self.ev(v.func.value, p, module)
            if isinstance(tgt, (VBytes, VList, VSet)):
                self.mutate(v, tgt, p, module)
                return [("normal", p, None)]
        self.ev(v, p, module)
        return [("normal", p, None)]

    def mutate(self, call, tgt, p, module):
        """x.append(v) / x.extend(v) / x.reverse() / s.add(v) / s.remove(v) / s.discard(v): functional update + store back."""
        name = call.func.attr
        args = [self.ev(a, p, module) for a in call.args]
        ln = call.lineno
        if isinstance(tgt, VBytes):
            if tgt.kind != "bytearray":
                raise Raised(VExc("AttributeError", {"lineno": ln}))
            if name == "append":
                x = self.as_int(args[0])
                self.may_raise(p, z3.Or(x < 0, x > 255), "ValueError", ln)
                new = VBytes(self.flat_concat(tgt.t, z3.Unit(x)), "bytearray")
            elif name == "extend":
                if not isinstance(args[0], VBytes):
                    raise Unsupported("bytearray.extend(non-bytes)")
                new = VBytes(self.flat_concat(tgt.t, args[0].t), "bytearray")
            elif name == "reverse":
                # ghost: the value before the reversal stays addressable in hints as <name>__before_reverse
                if isinstance(call.func.value, ast.Name):
                    p.ghost[call.func.value.id + "__before_reverse"] = VBytes(tgt.t, "bytes")
                r = fresh(S, "rev")
                k = z3.Int("k!rev")
                n = z3.Length(tgt.t)
                p.pc.append(z3.Length(r) == n)
                p.pc.append(z3.ForAll([k], z3.Implies(z3.And(0 <= k, k < n), r[k] == tgt.t[n - 1 - k])))
                new = VBytes(r, "bytearray")
            else:
                raise Unsupported(f"bytearray.{name}")
        elif isinstance(tgt, VSet):
            x = self.as_int(args[0])
            if name == "add":
                new = VSet(z3.Store(tgt.t, x, z3.BoolVal(True)))
            elif name == "discard":
                new = VSet(z3.Store(tgt.t, x, z3.BoolVal(False)))
            elif name == "remove":
                self.may_raise(p, z3.Not(z3.Select(tgt.t, x)), "KeyError", ln)
                new = VSet(z3.Store(tgt.t, x, z3.BoolVal(False)))
            else:
                raise Unsupported(f"set.{name}")
        elif isinstance(tgt, VList):
            if name == "append":
                if tgt.items is not None:
                    new = VList(items=tgt.items + [args[0]])
                else:
                    new = VList(t=z3.Concat(tgt.t, z3.Unit(self.elem_term(args[0], tgt.elem, p))), elem=tgt.elem, elem_cls=tgt.elem_cls)
            elif name == "pop":
                if tgt.items is None:
                    k = self.const_int(self.as_int(args[0])) if args else -1
                    if k != 0:
                        raise Unsupported("pop on symbolic list (only pop(0))")
                    self.may_raise(p, z3.Length(tgt.t) == 0, "IndexError", ln)
                    new = VList(t=z3.Extract(tgt.t, z3.IntVal(1), z3.Length(tgt.t) - 1), elem=tgt.elem, elem_cls=tgt.elem_cls)
                    self.store(call.func.value, new, p, module)
                    return
                k = self.const_int(self.as_int(args[0])) if args else -1
                items = list(tgt.items)
                if not items:
                    raise Raised(VExc("IndexError", {"lineno": ln}))
                items.pop(k)
                new = VList(items=items)
            else:
                raise Unsupported(f"list.{name}")
        else:
            raise Unsupported("mutate")
        self.store(call.func.value, new, p, module)

    def elem_term(self, v, elem, p):
        if elem == "obj":
            if isinstance(v, VSym):
                return v.t
            if isinstance(v, VObj):
                return self.reify(v, p).t
        return self.term_of(v)

    def reify_cached(self, o, p):
        """One symbolic identity per (object, field values) on a path: immutable objects only."""
        cache = p.ghost.setdefault("__reified__", {})
        key = (o.oid, tuple(sorted((k, repr(v)) for k, v in o.fields.items())))
        if key not in cache:
            cache[key] = self.reify(o, p)
        return cache[key]

    def reify(self, o, p):
        """Give a concrete immutable object a symbolic identity (sort Obj) with its fields as facts."""
        ref = fresh(Obj, o.cls.name.lower())
        cls_of = self.func("class_of", Obj, I)
        p.pc.append(cls_of(ref) == self.class_id(o.cls))
        sym = VSym(ref, o.cls)
        for fname, fann, fdef in self.prog.all_fields(o.cls):
            if fname not in o.fields:
                continue
            try:
                fv = self.sym_field(ref, fname, self.ann_text(fann), o.cls.module)
                val = o.fields[fname]
                if isinstance(val, VObj):
                    val = self.reify(val, p)
                if isinstance(val, VList) and val.items is not None:
                    if isinstance(fv, VList) and not val.items:
                        p.pc.append(z3.Length(fv.t) == 0)
                    continue
                p.pc.append(self.eq(fv, val, p))
            except Unsupported:
                continue
        return sym

    def store(self, target, val, p, module):
        if isinstance(target, ast.Name):
            p.env[target.id] = val
            return
        if isinstance(target, ast.Attribute):
            base = self.ev(target.value, p, module)
            if isinstance(base, VOpt):
                self.may_raise(p, base.isnone, "AttributeError", getattr(target, "lineno", 0))
                base = base.val
            if isinstance(base, VObj):
                if base.cls.frozen:
                    raise Raised(VExc("FrozenInstanceError", {}))
                base.fields[target.attr] = val
                return
            if isinstance(base, VExc):
                base.fields[target.attr] = val
                return
            raise Unsupported(f"attribute store on {base!r}")
        if isinstance(target, ast.Tuple):
            items = self.unpack_iter(val, len(target.elts), p, target)
            for t_, x in zip(target.elts, items):
                self.store(t_, x, p, module)
            return
        if isinstance(target, ast.Subscript):
            base = self.ev(target.value, p, module)
            if isinstance(base, VBytes):
                if base.kind != "bytearray":
                    raise Raised(VExc("TypeError", {}))
                idx = self.as_int(self.ev(target.slice, p, module))
                x = self.as_int(val)
                n = z3.Length(base.t)
                real = z3.If(idx < 0, idx + n, idx)
                self.may_raise(p, z3.Or(real < 0, real >= n), "IndexError", target.lineno)
                self.may_raise(p, z3.Or(x < 0, x > 255), "ValueError", target.lineno)
                new = fresh(S, "upd")
                k = z3.Int("k!upd")
                p.pc.append(z3.Length(new) == n)
                p.pc.append(new[real] == x)
                p.pc.append(z3.ForAll([k], z3.Implies(z3.And(0 <= k, k < n, k != real), new[k] == base.t[k])))
                self.store(target.value, VBytes(new, "bytearray"), p, module)
                return
            raise Unsupported("subscript store")
        raise Unsupported(f"store to {type(target).__name__}")

    def unpack_iter(self, val, n, p, node):
        if isinstance(val, VTuple):
            items = val.items
        elif isinstance(val, VList) and val.items is not None:
            items = val.items
        elif isinstance(val, VObj) and val.cls.kind == "namedtuple":
            items = [val.fields[f[0]] for f in self.prog.all_fields(val.cls)]
        else:
            raise Unsupported(f"unpack of {val!r}")
        if len(items) != n:
            raise Raised(VExc("ValueError", {"lineno": getattr(node, "lineno", 0), "implicit": True}))
        return items

    def st_Assign(self, st, p, module):
        sv_ = st.value
        if isinstance(sv_, ast.Call) and isinstance(sv_.func, ast.Attribute) and sv_.func.attr == "pop" and isinstance(sv_.func.value, ast.Name) \
                and len(sv_.args) == 1 and isinstance(self.ev(sv_.func.value, p, module), VList):
            # x = lst.pop(0): the removed element is the value; the list is updated as by the statement form
            lst = self.ev(sv_.func.value, p, module)
            k = self.const_int(self.as_int(self.ev(sv_.args[0], p, module)))
            if k == 0:
                if lst.items is None:
                    self.may_raise(p, z3.Length(lst.t) == 0, "IndexError", st.lineno)
                v = self.index_value(lst, VInt(0), p, sv_)
                self.mutate(sv_, lst, p, module)
                for t_ in st.targets:
                    self.store(t_, v, p, module)
                return [("normal", p, None)]
        v = self.ev(st.value, p, module)
        if isinstance(v, VList) and v.items == [] and len(st.targets) == 1 and isinstance(st.targets[0], ast.Name):
            c = self.contracts.get(self.cur_contract_key_stack[-1]) if self.cur_contract_key_stack else None
            ann = c.local_types.get(st.targets[0].id) if c is not None and len(self.cur_fi_stack) == 1 else None
            if ann:
                sv = self.fresh_of_type(ann, p, module, name=st.targets[0].id)
                p.pc.append(z3.Length(sv.t) == 0)
                v = sv
        for t_ in st.targets:
            self.store(t_, v, p, module)
        return [("normal", p, None)]

    def st_AnnAssign(self, st, p, module):
        if st.value is not None:
            v = self.ev(st.value, p, module)
            # a list literal assigned to a List[...]-annotated local that is later grown in a loop needs a symbolic
            # spine: use the annotation
            if isinstance(v, VList) and v.items == [] and st.annotation is not None:
                ann = self.ann_text(st.annotation)
                if ann.startswith("t.List["):
                    sv = self.fresh_of_type(ann, p, module, name=getattr(st.target, "id", "lst"))
                    p.pc.append(z3.Length(sv.t) == 0)
                    v = sv
            self.store(st.target, v, p, module)
        return [("normal", p, None)]

    def st_AugAssign(self, st, p, module):
        load = copy.copy(st.target)
        load.ctx = ast.Load()
        cur = self.ev(load, p, module)
        rhs = self.ev(st.value, p, module)
        if isinstance(cur, VBytes) and isinstance(st.op, ast.Add):
            new = VBytes(self.flat_concat(cur.t, rhs.t), cur.kind)
        else:
            new = self.binop(type(st.op), cur, rhs, p, st)
        self.store(st.target, new, p, module)
        return [("normal", p, None)]

    def st_Pass(self, st, p, module):
        return [("normal", p, None)]

    def st_Return(self, st, p, module):
        v = self.ev(st.value, p, module) if st.value is not None else NONE
        return [("return", p, v)]

    def st_Break(self, st, p, module):
        return [("break", p, None)]

    def st_Continue(self, st, p, module):
        return [("continue", p, None)]

    def st_Raise(self, st, p, module):
        if st.exc is None:
            exc = p.env.get("__active_exc__")
            if exc is None:
                raise Unsupported("bare raise outside handler")
            return [("raise", p, exc)]
        v = self.ev(st.exc, p, module)
        if isinstance(v, VClass):
            v = VExc(v.cls.name)
        if isinstance(v, VFunc) and v.kind == "builtin":
            v = VExc(v.target)
        if not isinstance(v, VExc):
            raise Unsupported(f"raise of {v!r}")
        v.fields["lineno"] = st.lineno
        v.fields.pop("implicit", None)
        return [("raise", p, v)]

    def st_Assert(self, st, p, module):
        c = self.truth(self.ev(st.test, p, module), p)
        self.may_raise(p, z3.Not(c), "AssertionError", st.lineno)
        return [("normal", p, None)]

    def st_Import(self, st, p, module):
        return [("normal", p, None)]

    st_ImportFrom = st_Import

    def st_FunctionDef(self, st, p, module):
        p.env[st.name] = VOpaque(("localfunc", st))
        return [("normal", p, None)]

    def st_Global(self, st, p, module):
        raise Unsupported("global statement")

    def st_Delete(self, st, p, module):
        raise Unsupported("del statement")

    # ------------------------------------------------------------------ compound statements
    def st_If(self, st, p, module):
        c = self.truth(self.ev(st.test, p, module), p)
        out = []
        for cond, body in ((c, st.body), (z3.Not(c), st.orelse)):
            if not self.feasible(p.pc, cond):
                continue
            q = p.fork()
            q.script = []
            q.pos = 0
            q.pc.append(cond)
            out.extend(self.exec_block(body, q, module) if body else [("normal", q, None)])
        return out

    def st_With(self, st, p, module):
        if len(st.items) != 1:
            raise Unsupported("with: multiple items")
        item = st.items[0]
        mgr = self.ev(item.context_expr, p, module)
        if not isinstance(mgr, VObj):
            raise Unsupported("with on non-object")
        enter = self.prog.find_method(mgr.cls, "__enter__")
        exit_ = self.prog.find_method(mgr.cls, "__exit__")
        val = self.call_user(enter, [mgr], {}, p, st)
        if item.optional_vars is not None:
            self.store(item.optional_vars, val, p, module)
        p.env["__with_%d" % st.lineno] = mgr
        outs = self.exec_block(st.body, p, module)
        final = []
        for status, q, v in outs:
            m2 = q.env["__with_%d" % st.lineno]
            # __exit__ runs on every outcome; the repository's only context manager never swallows (returns None)
            sub = self.exec_stmt(ast.Expr(value=ast.Call(func=ast.Attribute(value=ast.Name(id="__with_%d" % st.lineno, ctx=ast.Load()), attr="__exit__", ctx=ast.Load()), args=[], keywords=[], lineno=st.lineno, col_offset=st.col_offset), lineno=st.lineno, col_offset=0), q, module)
            for s2, q2, v2 in sub:
                if s2 == "normal":
                    final.append((status, q2, v))
                else:
                    final.append((s2, q2, v2))
        return final

    def st_Try(self, st, p, module):
        outs = self.exec_block(st.body, p, module)
        result = []
        for status, q, v in outs:
            if status == "raise":
                handled = False
                for h in st.handlers:
                    names = self.handler_names(h, module)
                    if any(self.prog.exc_is(v.cls, n) for n in names):
                        handled = True
                        q.script = []
                        q.pos = 0
                        saved = q.env.get("__active_exc__")
                        q.env["__active_exc__"] = v
                        if h.name:
                            q.env[h.name] = v
                        for s2, q2, v2 in self.exec_block(h.body, q, module):
                            if saved is None:
                                q2.env.pop("__active_exc__", None)
                            else:
                                q2.env["__active_exc__"] = saved
                            result.append((s2, q2, v2))
                        break
                if not handled:
                    result.append((status, q, v))
            elif status == "normal" and st.orelse:
                result.extend(self.exec_block(st.orelse, q, module))
            else:
                result.append((status, q, v))
        if st.finalbody:
            final = []
            for status, q, v in result:
                for s2, q2, v2 in self.exec_block(st.finalbody, q, module):
                    if s2 == "normal":
                        final.append((status, q2, v))
                    else:
                        final.append((s2, q2, v2))
            result = final
        return result

    def handler_names(self, h, module):
        if h.type is None:
            return ["BaseException"]
        if isinstance(h.type, ast.Tuple):
            return [ast.unparse(x).split(".")[-1] if not ast.unparse(x).startswith("struct") else ast.unparse(x) for x in h.type.elts]
        return [ast.unparse(h.type).split(".")[-1]]

    # ------------------------------------------------------------------ loops
    def local_annotation(self, name):
        fi = self.cur_fi_stack[-1]
        for n in ast.walk(fi.node):
            if isinstance(n, ast.AnnAssign) and isinstance(n.target, ast.Name) and n.target.id == name:
                return self.ann_text(n.annotation)
        c = self.contracts.get(self.cur_contract_key_stack[-1]) if self.cur_contract_key_stack else None
        if c is not None and name in c.local_types:
            return c.local_types[name]
        return None

    def loop_ordinal(self, st):
        fi = self.cur_fi_stack[-1]
        loops = sorted([n for n in ast.walk(fi.node) if isinstance(n, (ast.For, ast.While))], key=lambda n: (n.lineno, n.col_offset))
        return loops.index(st)

    def loop_spec(self, st):
        fi = self.cur_fi_stack[-1]
        c = self.contracts.get(self.cur_contract_key_stack[-1]) if self.cur_contract_key_stack else None
        if c is None:
            c = self.contracts.get(fi.key)
        if c is None:
            return None
        spec = c.loops.get(self.loop_ordinal(st))
        if spec is None and c.reader_loops and isinstance(st, ast.While) and isinstance(st.test, ast.Name):
            # `while reader:` - the default loop contract of the decode tree: nothing is claimed about the locals (they are
            # havocked with their sorts), the measure is the number of octets left in that reader
            spec = {"invariant": [], "decreases": f"len({st.test.id}._view)"}
        if spec is None and c.simple_loops and isinstance(st, ast.For):
            spec = {"invariant": []}
        return spec

    def assigned_names(self, body):
        names = set()
        for st in body:
            for n in ast.walk(st):
                if isinstance(n, ast.Name) and isinstance(n.ctx, ast.Store):
                    names.add(n.id)
                elif isinstance(n, ast.AugAssign) and isinstance(n.target, ast.Name):
                    names.add(n.target.id)
                elif isinstance(n, (ast.Assign, ast.AugAssign)):
                    tgts = n.targets if isinstance(n, ast.Assign) else [n.target]
                    for t_ in tgts:
                        if isinstance(t_, ast.Subscript) and isinstance(t_.value, ast.Name):
                            names.add(t_.value.id)
                elif isinstance(n, ast.Call) and isinstance(n.func, ast.Attribute) and n.func.attr in MUTATING_METHODS and isinstance(n.func.value, ast.Name):
                    names.add(n.func.value.id)
        return names

    def mentioned_names(self, nodes):
        out = set()
        for st in nodes:
            for n in ast.walk(st):
                if isinstance(n, ast.Name):
                    out.add(n.id)
        return out

    def loop_write_set(self, nodes, p, module):
        """Sound over-approximation of what a loop body can modify: local names, (object name, field) pairs, and objects
        that must be havocked entirely (passed to / receiving calls whose effect is not described by a contract)."""
        names, fields, full = set(), set(), set()

        def obj_of(name):
            v = p.env.get(name)
            if isinstance(v, VOpt):
                v = v.val
            return v if isinstance(v, VObj) else None

        def target(t_):
            if isinstance(t_, ast.Name):
                names.add(t_.id)
            elif isinstance(t_, (ast.Tuple, ast.List)):
                for e in t_.elts:
                    target(e)
            elif isinstance(t_, ast.Attribute):
                if isinstance(t_.value, ast.Name):
                    fields.add((t_.value.id, t_.attr))
                else:
                    for n in ast.walk(t_.value):
                        if isinstance(n, ast.Name) and obj_of(n.id) is not None:
                            full.add(n.id)
            elif isinstance(t_, ast.Subscript):
                target(t_.value)
            elif isinstance(t_, ast.Starred):
                target(t_.value)

        def conservative(call):
            for n in ast.walk(call):
                if isinstance(n, ast.Name) and obj_of(n.id) is not None:
                    full.add(n.id)

        for st in nodes:
            for node in ast.walk(st):
                if isinstance(node, ast.Assign):
                    for t_ in node.targets:
                        target(t_)
                elif isinstance(node, (ast.AugAssign, ast.AnnAssign)):
                    target(node.target)
                elif isinstance(node, (ast.For,)):
                    target(node.target)
                elif isinstance(node, ast.ExceptHandler) and node.name:
                    names.add(node.name)
                elif isinstance(node, ast.withitem) and node.optional_vars is not None:
                    target(node.optional_vars)
                elif isinstance(node, ast.Call):
                    f = node.func
                    if isinstance(f, ast.Attribute) and f.attr in MUTATING_METHODS:
                        target(f.value)
                        continue
                    if isinstance(f, ast.Attribute) and f.attr in PURE_VALUE_METHODS and not (isinstance(f.value, ast.Name) and obj_of(f.value.id) is not None):
                        continue        # str / bytes methods: no effect on any object (inner calls are visited on their own)
                    fi, recv_name, c = None, None, None
                    if isinstance(f, ast.Attribute) and isinstance(f.value, ast.Name) and obj_of(f.value.id) is not None:
                        o = obj_of(f.value.id)
                        fi = self.prog.find_method(o.cls, f.attr)
                        recv_name = f.value.id
                        if fi is not None:
                            c = self.contract_for(fi, o)
                    elif isinstance(f, ast.Attribute) and isinstance(f.value, ast.Name) and f.value.id not in p.env and \
                            (self.prog.resolve(module, f.value.id) or (None,))[0] == "class":
                        # Class.method(...): classmethod / static use, effect described by the method's contract
                        ci_ = self.prog.resolve(module, f.value.id)[1]
                        fi = self.prog.find_method(ci_, f.attr)
                        if fi is not None:
                            c = self.contracts.get(fi.key)
                            if fi.is_classmethod:
                                recv_name = "__cls__"
                    elif isinstance(f, ast.Name) and f.id not in p.env:
                        r = self.prog.resolve(module, f.id)
                        if r is not None and r[0] == "func":
                            fi = r[1]
                            c = self.contracts.get(fi.key)
                        elif r is None or r[0] in ("class", "extern", "module") or f.id in ("len", "bytes", "bytearray", "isinstance", "bool", "int", "chr", "type", "memoryview", "str", "repr", "next"):
                            if r is not None and r[0] == "class" and r[1].kind == "plain":
                                conservative(node)       # __init__ of a plain class runs inlined
                            continue
                    if fi is None and isinstance(f, ast.Attribute) and isinstance(f.value, (ast.Name, ast.Attribute)) and \
                            not (isinstance(f.value, ast.Name) and obj_of(f.value.id) is not None):
                        # method call on a value that is not a heap object of this frame (a symbolic immutable object such
                        # as a loop variable or a field): every method of that name in the program is a candidate; if
                        # all of them have contracts, the union of their frames describes the effect
                        cands = [ci_.methods[f.attr] for ci_ in self.prog.classes.values() if f.attr in ci_.methods]
                        ccs = [self.contracts.get(m.key) for m in cands]
                        if cands and all(cc is not None and not cc.inline for cc in ccs):
                            for m, cc in zip(cands, ccs):
                                pn = [x for x, _, _ in m.params()][1:]
                                actual = dict(zip(pn, node.args))
                                actual.update({kw.arg: kw.value for kw in node.keywords if kw.arg})
                                for mm in cc.modifies:
                                    parts = mm.split(".")
                                    a = actual.get(parts[0])
                                    if isinstance(a, ast.Name) and len(parts) == 2:
                                        fields.add((a.id, parts[1]))
                                    elif a is not None:
                                        conservative(a)
                            continue
                    if fi is None or c is None or c.inline:
                        conservative(node)
                        continue
                    pnames = [pn for pn, _, _ in fi.params()]
                    actual = {}
                    args = list(node.args)
                    if recv_name is not None and pnames:
                        if recv_name != "__cls__":
                            actual[pnames[0]] = ast.Name(id=recv_name, ctx=ast.Load())
                        pn_rest = pnames[1:]
                    else:
                        pn_rest = pnames
                    for pn, a in zip(pn_rest, args):
                        actual[pn] = a
                    for kw in node.keywords:
                        if kw.arg:
                            actual[kw.arg] = kw.value
                    for m in c.modifies:
                        parts = m.split(".")
                        a = actual.get(parts[0])
                        if isinstance(a, ast.Name) and len(parts) == 2:
                            fields.add((a.id, parts[1]))
                        elif a is not None:
                            conservative(a)
        return names, fields, full

    def always_exits(self, body):
        """True when every path through `body` leaves the loop (break / return / raise): the loop runs at most once."""
        if not body:
            return False
        last = body[-1]
        if isinstance(last, (ast.Break, ast.Return, ast.Raise)):
            return True
        if isinstance(last, ast.If):
            return self.always_exits(last.body) and bool(last.orelse) and self.always_exits(last.orelse)
        return False

    def st_While(self, st, p, module):
        return self.run_loop(st, p, module)

    def st_For(self, st, p, module):
        return self.run_loop(st, p, module)

    def for_header(self, st, p, module):
        """Returns (kind, data): iteration described as index-based: element(i) for 0 <= i < count (or descending range)."""
        it = st.iter
        if isinstance(it, ast.Call) and isinstance(it.func, ast.Name) and it.func.id == "range":
            a = [self.as_int(self.ev(x, p, module)) for x in it.args]
            if len(a) == 1:
                start, stop, step = z3.IntVal(0), a[0], 1
            elif len(a) == 2:
                start, stop, step = a[0], a[1], 1
            else:
                start, stop = a[0], a[1]
                step = self.const_int(a[2])
                if step not in (1, -1):
                    raise Unsupported("range step")
            if step == 1:
                count = z3.If(stop > start, stop - start, z3.IntVal(0))
                return count, (lambda i: VInt(start + i))
            count = z3.If(start > stop, start - stop, z3.IntVal(0))
            return count, (lambda i: VInt(start - i))
        if isinstance(it, ast.Call) and isinstance(it.func, ast.Name) and it.func.id == "enumerate":
            seq = self.ev(it.args[0], p, module)
            count, elem = self.iter_of(seq, p)
            return count, (lambda i: VTuple([VInt(i), elem(i)]))
        seq = self.ev(it, p, module)
        return self.iter_of(seq, p)

    def iter_of(self, seq, p):
        if isinstance(seq, VOpt):
            if not self.implied(p, z3.Not(seq.isnone)):
                self.may_raise(p, seq.isnone, "TypeError", 0)      # 'NoneType' object is not iterable
            seq = seq.val
        if isinstance(seq, VBytes):
            t = seq.t
            return z3.Length(t), (lambda i: VInt(t[i]))
        if isinstance(seq, VList) and seq.t is not None:
            t = seq.t
            return z3.Length(t), (lambda i: self.wrap_elem(t[i], seq.elem, seq.elem_cls))
        if isinstance(seq, (VList, VTuple)) and seq.items is not None:
            return ("concrete", list(seq.items))
        raise Unsupported(f"iteration over {seq!r}")

    def run_loop(self, st, p, module):
        is_for = isinstance(st, ast.For)
        spec = self.loop_spec(st)
        if st.orelse:
            raise Unsupported("loop else")
        hdr = self.for_header(st, p, module) if is_for else None
        # ---- concrete iteration: unroll
        if is_for and isinstance(hdr[0], str):
            live = [("normal", p, None)]
            out = []
            for item in hdr[1]:
                nxt = []
                for status, q, v in live:
                    self.store(st.target, item, q, module)
                    for s2, q2, v2 in self.exec_block(st.body, q, module):
                        if s2 in ("normal", "continue"):
                            nxt.append(("normal", q2, None))
                        elif s2 == "break":
                            out.append(("normal", q2, None))
                        else:
                            out.append((s2, q2, v2))
                live = nxt
            return out + live
        # ---- loops whose body always leaves: executed at most once, no invariant needed
        if spec is None and self.always_exits(st.body):
            out = []
            if is_for:
                count, elem = hdr
                c = count > 0
            else:
                c = self.truth(self.ev(st.test, p, module), p)
            if self.feasible(p.pc, c):
                q = p.fork(); q.script = []; q.pos = 0
                q.pc.append(c)
                if is_for:
                    ev_ = elem(z3.IntVal(0))
                    self.store(st.target, ev_, q, module)
                    self.elem_range(ev_, q)
                for s2, q2, v2 in self.exec_block(st.body, q, module):
                    if s2 == "break":
                        out.append(("normal", q2, None))
                    elif s2 in ("normal", "continue"):
                        raise Unsupported("loop classified as single-pass continued")
                    else:
                        out.append((s2, q2, v2))
            if self.feasible(p.pc, z3.Not(c)):
                q = p.fork(); q.script = []; q.pos = 0
                q.pc.append(z3.Not(c))
                out.append(("normal", q, None))
            return out
        if spec is None:
            raise Unsupported(f"loop at line {st.lineno} of {self.cur_name} has no invariant")
        no = self.loop_ordinal(st)
        lname = f"{self.cur_name}/loop[{no}]"
        invs = spec.get("invariant", [])
        ivar = spec.get("index", f"_i{no}")
        # ---- establish
        if is_for:
            count, elem = hdr
            p.ghost[ivar] = VInt(0)
            p.ghost[f"_n{no}"] = VInt(count)
        for g, expr in spec.get("ghost_init", {}).items():
            p.ghost[g] = self.ev(parse_expr(expr), self.spec_path(p, p.env, old=p.old), module)
        for g, expr in spec.get("snapshot", {}).items():
            p.ghost[g] = self.ev(parse_expr(expr), self.spec_path(p, p.env, old=p.old), module)
        for h in spec.get("entry_hints", []):
            self.apply_hint(h, p, module, lname + "/entry_hint")
        q0 = self.spec_path(p, p.env, old=p.old)
        for i, inv in enumerate(invs):
            goal = self.eval_clause(inv, q0, module)
            p.obls.append(Obligation(f"{lname}/establish[{i}]", p.pc, goal, "loop-establish", st.lineno, self.cur_name, {"clause": inv}))
        # ---- havoc
        h = p.fork(); h.script = []; h.pos = 0
        wnames, wfields, wfull = self.loop_write_set(st.body + ([ast.Expr(value=st.test)] if not is_for else []), h, module)
        targets = wnames | set(spec.get("modifies_names", []))
        if is_for:
            for n in ast.walk(st.target):
                if isinstance(n, ast.Name):
                    targets.add(n.id)
        for name in sorted(targets):
            if name in h.env and isinstance(h.env[name], VNone):
                # None at loop entry but assigned in the loop: the shape of the value comes from the local's annotation
                # (x: t.Optional[T] = None); without one the loop cannot be summarised
                ann = self.local_annotation(name)
                if ann is None:
                    raise Unsupported(f"loop at line {st.lineno} assigns {name}, which is None at loop entry and has no annotation")
                h.env[name] = self.fresh_of_type(ann, h, module, name)
                continue
            if name in h.env and not isinstance(h.env[name], VObj) and not (isinstance(h.env[name], VOpt) and isinstance(h.env[name].val, VObj)):
                h.env[name] = self.havoc_like(h.env[name], h, name)
            elif name in h.env:
                # an object-valued local that is re-bound in the loop: the engine keeps concrete references, so treat the
                # re-binding as an arbitrary change of the object it currently denotes
                wfull.add(name)
        seen = set()
        for name in sorted(wfull):
            self.havoc_object(h.env.get(name), h, seen, name)
        for oname, fld in sorted(wfields):
            o = h.env.get(oname)
            if isinstance(o, VOpt):
                o = o.val
            if isinstance(o, VObj) and id(o) not in seen and fld in o.fields:
                cur = o.fields[fld]
                if isinstance(cur, VObj) or (isinstance(cur, VOpt) and isinstance(cur.val, VObj)):
                    self.havoc_object(cur, h, seen, f"{oname}.{fld}")
                else:
                    o.fields[fld] = self.havoc_like(cur, h, f"{oname}.{fld}")
        for g in spec.get("ghost_update", {}):
            h.ghost[g] = self.havoc_like(h.ghost[g], h, g)
        if is_for:
            h.ghost[ivar] = VInt(fresh(I, ivar))
            h.pc.append(z3.And(h.ghost[ivar].t >= 0, h.ghost[ivar].t <= count))
        qh = self.spec_path(h, h.env, old=h.old)
        for inv in invs:
            h.pc.append(self.eval_clause(inv, qh, module))
        variant0 = None
        if spec.get("decreases"):
            variant0 = self.as_int(self.ev(parse_expr(spec["decreases"]), qh, module))
        out = []
        # ---- guard (evaluated with forks allowed: it may raise)
        if is_for:
            guard_paths = [(h, h.ghost[ivar].t < count)]
        else:
            guard_paths = []
            for status, g, v in self.exec_stmt(ast.Assign(targets=[ast.Name(id="__guard", ctx=ast.Store())], value=st.test, lineno=st.lineno, col_offset=0), h, module):
                if status == "normal":
                    guard_paths.append((g, self.truth(g.env.pop("__guard"), g)))
                else:
                    out.append((status, g, v))
        for g, gc in guard_paths:
            # body
            if self.feasible(g.pc, gc):
                b = g.fork(); b.script = []; b.pos = 0
                b.pc.append(gc)
                for gname, expr in spec.get("snapshot_each", {}).items():
                    b.ghost[gname] = copy.deepcopy(self.ev(parse_expr(expr), self.spec_path(b, b.env, old=b.old), module))
                if is_for:
                    ev_ = elem(b.ghost[ivar].t)
                    self.store(st.target, ev_, b, module)
                    self.elem_range(ev_, b)
                for s2, q2, v2 in self.exec_block(st.body, b, module):
                    if s2 in ("normal", "continue"):
                        if is_for:
                            q2.ghost[ivar] = VInt(q2.ghost[ivar].t + 1)
                        for gname, expr in spec.get("ghost_update", {}).items():
                            q2.ghost[gname] = self.ev(parse_expr(expr), self.spec_path(q2, q2.env, old=q2.old), module)
                        for hint in spec.get("body_hints", []):
                            self.apply_hint(hint, q2, module, lname + "/body_hint")
                        qq = self.spec_path(q2, q2.env, old=q2.old)
                        for i, inv in enumerate(invs):
                            goal = self.eval_clause(inv, qq, module)
                            q2.obls.append(Obligation(f"{lname}/preserve[{i}]", q2.pc, goal, "loop-preserve", st.lineno, self.cur_name, {"clause": inv}))
                        if variant0 is not None:
                            v1 = self.as_int(self.ev(parse_expr(spec["decreases"]), qq, module))
                            q2.obls.append(Obligation(f"{lname}/decreases", q2.pc, z3.And(variant0 >= 0, v1 < variant0), "decreases", st.lineno, self.cur_name))
                        self.finish_path(q2)
                    elif s2 == "break":
                        for gname, expr in spec.get("exit_snapshot", {}).items():
                            q2.ghost[gname] = copy.deepcopy(self.ev(parse_expr(expr), self.spec_path(q2, q2.env, old=q2.old), module))
                        for hint in spec.get("break_hints", []):
                            self.apply_hint(hint, q2, module, lname + "/break_hint")
                        out.append(("normal", q2, None))
                    else:
                        out.append((s2, q2, v2))
            # exit
            if self.feasible(g.pc, z3.Not(gc)):
                x = g.fork(); x.script = []; x.pos = 0
                x.pc.append(z3.Not(gc))
                for gname, expr in spec.get("exit_snapshot", {}).items():
                    x.ghost[gname] = copy.deepcopy(self.ev(parse_expr(expr), self.spec_path(x, x.env, old=x.old), module))
                for hint in spec.get("exit_hints", []):
                    self.apply_hint(hint, x, module, lname + "/exit_hint")
                out.append(("normal", x, None))
        return out

    def elem_range(self, v, p):
        """Elements drawn from an octet string are octets."""
        if isinstance(v, VInt) and z3.is_app_of(v.t, z3.Z3_OP_SEQ_NTH):
            p.pc.append(z3.And(v.t >= 0, v.t <= 255))
        elif isinstance(v, VTuple):
            for x in v.items:
                self.elem_range(x, p)

    def havoc_object(self, v, p, seen, name):
        if isinstance(v, VOpt):
            v = v.val
        if not isinstance(v, VObj) or id(v) in seen or v.cls.frozen:
            return
        seen.add(id(v))
        for f, fv in list(v.fields.items()):
            if isinstance(fv, VObj) or (isinstance(fv, VOpt) and isinstance(fv.val, VObj)):
                self.havoc_object(fv, p, seen, f"{name}.{f}")
            elif f in self.immutable_fields.get(v.cls.key, ()):
                continue
            else:
                v.fields[f] = self.havoc_like(fv, p, f"{name}.{f}")

    immutable_fields = {}

    # ------------------------------------------------------------------ hints / lemma calls
    def apply_hint(self, hint, p, module, name):
        """A hint is a boolean expression (asserted as its own obligation, then assumed), a lemma call, or any term
        (evaluated only to instantiate the unfolding axioms of the spec functions it mentions)."""
        if hint.startswith("using ") or hint.startswith("unless "):
            # "using a, b; unless c: <hint>" - the hint applies only on paths where the ghost names a, b are bound and c is not
            head, hint = hint.split(":", 1)
            for part in head.split(";"):
                part = part.strip()
                kind, names = part.split(" ", 1)
                for g in [x.strip() for x in names.split(",")]:
                    bound = g in p.ghost or g in p.env
                    if (kind == "using" and not bound) or (kind == "unless" and bound):
                        return
        e = parse_expr(hint)
        q = self.spec_path(p, p.env, old=p.old)
        # a hint is only an aid: one that mentions a local the (refactored) code no longer has is dropped, and the
        # obligations it was meant to help are attempted without it
        for n in ast.walk(e):
            if isinstance(n, ast.Name) and isinstance(n.ctx, ast.Load) and n.id not in p.env and n.id not in p.ghost and n.id not in ("old", "result", "exc", "forall", "exists", "implies", "ite", "len", "True", "False", "None") \
                    and n.id not in self.spec_function_names and n.id not in SPEC_PRIM_NAMES and not n.id.startswith(("lemma_", "thm_")) and self.prog.resolve(module, n.id) is None:
                bound_vars = {a.args[0].id for a in ast.walk(e) if isinstance(a, ast.Call) and isinstance(a.func, ast.Name) and a.func.id in ("forall", "exists") and a.args and isinstance(a.args[0], ast.Name)}
                if n.id in bound_vars:
                    continue
                self.skipped_hints.add(f"{name}: {hint[:60]} (no local {n.id})")
                return
        if isinstance(e, ast.Call) and isinstance(e.func, ast.Name) and e.func.id.startswith(("lemma_", "thm_")):
            fi = self.spec_info(e.func.id)
            if fi is None:
                raise Unsupported(f"unknown lemma {e.func.id}")
            c = self.contracts.get(fi.key)
            if c is None:
                raise Unsupported(f"lemma {fi.key} has no contract")
            args = [self.narrow(self.ev(a, q, module), q) for a in e.args]
            bound = self.bind_args(fi, args, {}, p)
            self.used_contracts.add(c.key)
            qpre = self.spec_path(p, dict(bound), old=None)
            for i, r in enumerate(c.requires):
                goal = self.eval_clause(r, qpre, fi.module)
                p.obls.append(Obligation(f"{name}[{e.func.id}]/pre[{i}]", p.pc, goal, "lemma-pre", 0, self.cur_name, {"clause": r}))
                p.pc.append(goal)
            for cl in c.ensures:
                p.pc.append(self.eval_clause(cl, qpre, fi.module))
            return
        v = self.ev(e, q, module)
        if isinstance(v, VBool):
            p.obls.append(Obligation(f"{name}[{hint[:40]}]", p.pc, v.t, "hint", 0, self.cur_name, {"clause": hint}))
            p.pc.append(v.t)

    def finish_path(self, p):
        self.paths_explored += 1
        self.sink.extend(p.obls)

    # ------------------------------------------------------------------ verification of one function against its contract
    def make_params(self, fi, c, p, concrete_cls=None):
        """Create symbolic arguments from annotations / contract overrides.  Optional parameters yield several
        initial paths (None / present)."""
        params = fi.params()
        variants = [{}]
        for pn, ann, d in params:
            ty = c.params.get(pn) if c else None
            if ty is None:
                if pn in ("self",) and fi.cls is not None:
                    ty = "self"
                elif pn == "cls" and fi.is_classmethod:
                    ty = "cls"
                else:
                    ty = self.ann_text(ann)
            new = []
            for var in variants:
                if ty == "self":
                    ci = concrete_cls or fi.cls
                    if ci.kind == "dataclass" and ci.frozen:
                        v = VSym(fresh(Obj, "self"), ci)
                    elif ci.kind == "namedtuple":
                        v = self.fresh_of_type(ci.name, p, ci.module, "self")
                    else:
                        v = self.fresh_object(ci, p, "self")
                    new.append({**var, pn: v})
                elif ty == "cls":
                    new.append({**var, pn: VClass(concrete_cls or fi.cls)})
                elif ty.startswith("t.Optional[") or ty.startswith("Optional["):
                    inner = ty[ty.index("[") + 1:-1]
                    new.append({**var, pn: NONE})
                    new.append({**var, pn: self.fresh_of_type(inner, p, fi.module, pn)})
                elif ty.startswith("oneof:"):
                    for cn in ty[6:].split(","):
                        cn = cn.strip()
                        r = self.prog.resolve(*cn.rsplit(".", 1)) if "." in cn else self.prog.resolve(fi.module, cn)
                        if r is None:
                            raise Unsupported(f"oneof: unknown class {cn}")
                        new.append({**var, pn: VClass(r[1])})
                elif ty.startswith("const:"):
                    q = Path(); q.spec = True
                    new.append({**var, pn: self.ev(parse_expr(ty[6:]), q, fi.module)})
                else:
                    new.append({**var, pn: self.fresh_of_type(ty, p, fi.module, pn)})
            variants = new
        return variants

    def verify_function(self, key, concrete_cls=None, contract_key=None):
        """Symbolically execute function `key` against contract `contract_key or key`; returns obligations + stats."""
        fi = self.prog.functions[key]
        ckey = contract_key or key
        c = self.contracts[ckey]
        self.cur_name = ckey.split(":", 1)[1] if ":" in ckey else ckey
        self.cur_name = f"{ckey.split(':')[0]}.{self.cur_name}"
        self.sink = []
        self.cur_fuel = c.fuel
        stats = {"paths": 0, "returns": 0, "raises": 0, "unsupported": None, "inputs": {}}
        base = Path()
        variants = self.make_params(fi, c, base, concrete_cls)
        self.cur_contract_key_stack = [ckey]
        all_paths = []
        for vi, env in enumerate(variants):
            p = base.fork()
            p.env = copy.deepcopy(env)
            p.old = copy.deepcopy(p.env)
            stats["inputs"][vi] = {k: repr(v)[:80] for k, v in env.items()}
            # preconditions
            q = self.spec_path(p, p.env, old=p.old)
            for r in c.requires:
                p.pc.append(self.eval_clause(r, q, fi.module))
            if not self.feasible(p.pc):
                continue
            # vacuity canary: the precondition must be satisfiable for at least one variant
            stats.setdefault("pre_sat", 0)
            stats["pre_sat"] += 1
            self.cur_decreases = None
            if c.decreases:
                self.cur_decreases = self.as_int(self.ev(parse_expr(c.decreases), q, fi.module))
            for hnt in c.entry_hints:
                self.apply_hint(hnt, p, fi.module, f"{self.cur_name}/entry_hint")
            self.cur_fi_stack = [fi]
            outs = self.exec_block(fi.node.body, p, fi.module)
            for status, qf, val in outs:
                if status == "normal":
                    status, val = "return", NONE
                if status not in ("return", "raise"):
                    raise Unsupported(f"{status} at function level")
                self.check_exit(fi, c, status, qf, val, vi)
                stats["returns" if status == "return" else "raises"] += 1
                self.finish_path(qf)
                all_paths.append((vi, status, qf, val))
        stats["paths"] = self.paths_explored
        # dedupe obligations by identity
        seen = set()
        obls = []
        for o in self.sink:
            if id(o) not in seen:
                seen.add(id(o))
                obls.append(o)
        return obls, stats, all_paths

    def check_exit(self, fi, c, status, p, val, vi):
        name = self.cur_name
        if status == "return":
            env = dict(p.env)
            env["result"] = val
            q = self.spec_path(p, env, old=p.old)
            for w, expr in c.witness.items():
                try:
                    env[w] = self.ev(parse_expr(expr), q, fi.module)
                except Unsupported:
                    # the ghost is not bound on this path (e.g. the call it names did not happen): any value will do
                    env[w] = self.fresh_of_type(c.witness_sorts.get(w, "bytes"), p, fi.module, name=w)
            # in postconditions a parameter name denotes the argument value (parameters are rebindable locals in Python);
            # objects are shared references, so their fields are read in the post-state
            for pn in p.old:
                if not isinstance(p.old[pn], VObj):
                    env[pn] = p.old[pn]
            for hnt in c.exit_hints:
                self.apply_hint_env(hnt, p, env, fi.module, f"{name}/exit_hint")
            q = self.spec_path(p, env, old=p.old)
            for i, cl in enumerate(c.ensures):
                goal = self.eval_clause(cl, q, fi.module)
                p.obls.append(Obligation(f"{name}/ensures[{i}]", p.pc, goal, "ensures", fi.node.lineno, name, {"clause": cl, "variant": vi}))
                # later postconditions may use earlier ones (each is proved separately, so this is sound)
                p.pc.append(goal)
            self.check_frame(fi, c, p, name, exceptional=False)
        else:
            cls = val.cls
            cond_txt = None
            for rc, cond in c.raises.items():
                if self.prog.exc_is(cls, rc):
                    cond_txt = cond
                    break
            ln = val.fields.get("lineno", 0)
            if cond_txt is None:
                p.obls.append(Obligation(f"{name}/raises[{cls}]", p.pc, z3.BoolVal(False), "raises-unexpected", ln, name,
                                         {"clause": f"no {cls} may escape", "exc": cls, "variant": vi}))
                return       # an exception class outside the contract: the exceptional postconditions are not about it
            else:
                q = self.spec_path(p, dict(p.old), old=p.old)
                goal = z3.BoolVal(True) if cond_txt is True else self.eval_clause(cond_txt, q, fi.module)
                p.obls.append(Obligation(f"{name}/raises[{cls}]", p.pc, goal, "raises", ln, name, {"clause": str(cond_txt), "exc": cls, "variant": vi}))
            env = dict(p.env)
            env["exc"] = val
            q = self.spec_path(p, env, old=p.old)
            for i, cl in enumerate(on_raise_clauses(c, cls, self.prog)):
                goal = self.eval_clause(cl, q, fi.module)
                p.obls.append(Obligation(f"{name}/on_raise[{i}]", p.pc, goal, "on-raise", ln, name, {"clause": cl, "exc": cls, "variant": vi}))
            self.check_frame(fi, c, p, name, exceptional=True)

    def apply_hint_env(self, hint, p, env, module, name):
        saved = p.env
        p.env = env
        try:
            self.apply_hint(hint, p, module, name)
        finally:
            p.env = saved

    def check_frame(self, fi, c, p, name, exceptional):
        """Every mutable field of every object reachable from the parameters that the contract does not list under
        `modifies` must be unchanged."""
        if c.pure is None:
            return
        allowed = set(c.modifies)
        seen = set()

        def walk(oldv, newv, path):
            if isinstance(oldv, VOpt) and isinstance(newv, VOpt):
                oldv, newv = oldv.val, newv.val
            if not (isinstance(oldv, VObj) and isinstance(newv, VObj)) or id(newv) in seen:
                return
            seen.add(id(newv))
            if newv.cls.frozen:
                return
            for f in oldv.fields:
                if f not in newv.fields:
                    continue
                fp = f"{path}.{f}"
                ov, nv = oldv.fields[f], newv.fields[f]
                if isinstance(ov, VObj) or (isinstance(ov, VOpt) and isinstance(ov.val, VObj)):
                    if isinstance(nv, VObj) and isinstance(ov, VObj) and fp not in allowed:
                        walk(ov, nv, fp)
                    continue
                if fp in allowed:
                    continue
                try:
                    same = self.eq(ov, nv, p)
                except Unsupported:
                    continue
                if z3.is_true(z3.simplify(same)):
                    continue
                p.obls.append(Obligation(f"{name}/frame[{fp}]", p.pc, same, "frame", fi.node.lineno, name, {"clause": f"{fp} unchanged"}))

        for pn in p.old:
            if pn in p.env:
                walk(p.old[pn], p.env[pn], pn)
