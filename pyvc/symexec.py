"""Symbolic executor: one function at a time, callees by contract, loops cut by invariants.

Produces named obligations (hyps => goal) that smt.py discharges.
"""
from __future__ import annotations
import ast, copy, time
import z3
from .values import *
from .frontend import Program, FuncInfo, ClassInfo


class Unsupported(Exception):
    pass


class NeedFork(Exception):
    def __init__(self, n):
        self.n = n


class Raised(Exception):
    """Python-level signal: the expression being evaluated raised `exc` on this path."""
    def __init__(self, exc):
        self.exc = exc


class Obligation:
    __slots__ = ("name", "hyps", "goal", "kind", "lineno", "func", "extra")

    def __init__(self, name, hyps, goal, kind, lineno=0, func="", extra=None):
        self.name = name
        self.hyps = list(hyps)
        self.goal = goal
        self.kind = kind
        self.lineno = lineno
        self.func = func
        self.extra = extra or {}


class Path:
    def __init__(self):
        self.env = {}
        self.pc = []
        self.obls = []
        self.script = []
        self.pos = 0
        self.old = None          # snapshot env at function entry
        self.spec = False
        self.ghost = {}

    def fork(self):
        q = Path.__new__(Path)
        memo = {}
        q.env = copy.deepcopy(self.env, memo)
        q.ghost = copy.deepcopy(self.ghost, memo)
        q.old = self.old         # immutable snapshot, shared
        q.pc = list(self.pc)
        q.obls = list(self.obls)
        q.script = list(self.script)
        q.pos = self.pos
        q.spec = self.spec
        return q


def _dc_expr(self, memo):
    return self


# z3 expressions are immutable: share them on deepcopy
z3.ExprRef.__deepcopy__ = _dc_expr
z3.SortRef.__deepcopy__ = _dc_expr
z3.FuncDeclRef.__deepcopy__ = _dc_expr
ClassInfo.__deepcopy__ = _dc_expr
FuncInfo.__deepcopy__ = _dc_expr


class Contract:
    def __init__(self, key, **kw):
        self.key = key
        self.requires = kw.pop("requires", [])
        self.ensures = kw.pop("ensures", [])
        self.raises = kw.pop("raises", {})            # cls -> condition (over old state) that must hold when raised
        self.on_raise = kw.pop("on_raise", [])          # clauses that hold (old vs new state) whenever it raises
        self.modifies = kw.pop("modifies", [])         # e.g. ["self._view"]
        self.loops = kw.pop("loops", {})
        self.witness = kw.pop("witness", {})           # ghost name -> expression over locals at return
        self.witness_sorts = kw.pop("witness_sorts", {})
        self.exit_hints = kw.pop("exit_hints", [])
        self.entry_hints = kw.pop("entry_hints", [])
        self.inline = kw.pop("inline", False)
        self.decreases = kw.pop("decreases", None)
        self.params = kw.pop("params", {})             # param name -> type override string
        self.result = kw.pop("result", None)           # result type override string
        self.self_class = kw.pop("self_class", None)
        self.pure = kw.pop("pure", False)
        self.trusted = kw.pop("trusted", False)        # contract assumed, body not verified (listed in evidence)
        self.note = kw.pop("note", "")
        self.props = kw.pop("props", [])
        self.fuel = kw.pop("fuel", 1)
        self.fresh_result = kw.pop("fresh_result", [])
        self.timeout = kw.pop("timeout", None)
        self.bind_calls = kw.pop("bind_calls", {})      # callee name -> ghost name bound to the call's result
        self.bind_witness = kw.pop("bind_witness", {})  # "callee.witness" -> ghost name bound to the callee's ghost witness
        self.local_types = kw.pop("local_types", {})   # local name -> annotation text, for un-annotated `x = []` grown in a loop
        self.simple_loops = kw.pop("simple_loops", False)  # `for x in <sequence>:` loops without a spec: no invariant (locals / frames havocked with their sorts)
        self.reader_loops = kw.pop("reader_loops", False)  # `while <reader>:` loops without a spec: no invariant, measure len(<reader>._view)
        if kw:
            raise TypeError(f"unknown contract fields {list(kw)} for {key}")


def on_raise_clauses(c, exc_cls, prog):
    """`on_raise` is a list (clauses for every exception) or a dict {exception class or '*': [clauses]}."""
    if isinstance(c.on_raise, dict):
        out = list(c.on_raise.get("*", []))
        for k, v in c.on_raise.items():
            if k != "*" and prog.exc_is(exc_cls, k):
                out.extend(v)
        return out
    return list(c.on_raise)


def parse_expr(txt):
    return ast.parse(txt.strip(), mode="eval").body


class Engine:
    def __init__(self, prog: Program, contracts: dict, specmods=None):
        self.prog = prog
        self.contracts = contracts          # key -> Contract
        self.uf = {}                        # name -> z3 function
        self.axioms = {}                    # str(app) -> axiom
        self.strlits = {}                   # python str -> z3 const
        self.byte_vars = []
        self.feas_cache = {}
        self.feas_time = 0.0
        self.feas_calls = 0
        self.classid = {}
        self.field_uf = {}
        self.notes = []
        self.assumptions = set()
        self.undeclared_fields = set()      # fields found in constructors but not declared in the sidecar (evidence)
        self.int_fields_seen = []           # int / enum fields of symbolic message objects that were read
        self.int_field_bound = None         # EXTRAS["int_field_bound"]: |field| < pow256(K) (assumption on message values)

    # ------------------------------------------------------------------ z3 helpers
    def func(self, name, *sorts):
        key = name
        if key in self.uf:
            f = self.uf[key]
            same = f.arity() == len(sorts) - 1 and all(f.domain(i) == sorts[i] for i in range(f.arity())) and f.range() == sorts[-1]
            if not same:
                # the same field name with another type in another class (SearchRequest.attributes: List[str],
                # SearchResultEntry.attributes: List[PartialAttribute]): a separate function per signature
                key = name + "__" + "_".join(str(s_) for s_ in sorts).replace("(", "").replace(")", "").replace(" ", "")
                name = key
        if key not in self.uf:
            self.uf[key] = z3.Function(name, *sorts)
        return self.uf[key]

    def strlit(self, s):
        if s not in self.strlits:
            self.strlits[s] = z3.Const("str_%d" % len(self.strlits), Str)
        return self.strlits[s]

    def global_axioms(self):
        ax = list(self.axioms.values())
        lits = list(self.strlits.values())
        if len(lits) > 1:
            ax.append(z3.Distinct(*lits))
        ne = self.func("str_nonempty", Str, B)
        for s, c in self.strlits.items():
            ax.append(ne(c) == z3.BoolVal(len(s) > 0))
        if self.int_field_bound and self.int_fields_seen:
            from .symexec import Path as _P
            q = _P(); q.spec = True
            bound = self.spec_apply("pow256", [VInt(int(self.int_field_bound))], q).t
            seen = set()
            for t in self.int_fields_seen:
                if t.sexpr() in seen:
                    continue
                seen.add(t.sexpr())
                ax.append(z3.And(t < bound, -t < bound))
            ax.extend(a for k, a in self.axioms.items() if "pow256" in k and a not in ax)
        return ax

    def class_id(self, ci):
        if ci.key not in self.classid:
            self.classid[ci.key] = len(self.classid) + 1
        return self.classid[ci.key]

    def feasible(self, pc, extra=None):
        t0 = time.time()
        s = z3.Solver()
        s.set("timeout", 1000)
        # quantified facts (element ranges, reversal / update frames) only restrict: leaving them out of a feasibility
        # query over-approximates the feasible paths (sound) and keeps the query quantifier-free (fast, no mbqi)
        forms = [c for c in pc if not z3.is_quantifier(c)]
        if extra is not None:
            forms.append(extra)
        # sequence lengths are abstracted to free non-negative integers: z3 builds sequence models by iterative
        # deepening on their length, which is very slow for facts such as len(data) >= 128; the abstraction only adds models
        subst = {}
        for f in forms:
            for lt in self.length_terms(f):
                k = lt.get_id()
                if k not in subst:
                    subst[k] = (lt, self.len_abs(lt.arg(0)))
        pairs = list(subst.values())
        for f in forms:
            s.add(z3.substitute(f, *pairs) if pairs else f)
        for c in self.__dict__.get("_len_consts", {}).values():
            s.add(c >= 0)
        # unfolding axioms are left out as well (spec functions stay uninterpreted here): again an over-approximation
        lits = list(self.strlits.values())
        if len(lits) > 1:
            s.add(z3.Distinct(*lits))
        r = s.check()
        self.feas_time += time.time() - t0
        self.feas_calls += 1
        return r != z3.unsat

    def len_abs(self, t):
        """Integer term for the length of sequence term t in which only the lengths of atoms are free variables."""
        cache = self.__dict__.setdefault("_lenabs_cache", {})
        k = t.get_id()
        if k in cache:
            return cache[k]
        if z3.is_app_of(t, z3.Z3_OP_SEQ_CONCAT):
            r = z3.Sum([self.len_abs(c) for c in t.children()])
        elif z3.is_app_of(t, z3.Z3_OP_SEQ_UNIT):
            r = z3.IntVal(1)
        elif z3.is_app_of(t, z3.Z3_OP_SEQ_EMPTY):
            r = z3.IntVal(0)
        elif z3.is_app_of(t, z3.Z3_OP_SEQ_EXTRACT):
            n = self.len_abs(t.arg(0))
            o, l = t.arg(1), t.arg(2)
            pairs = [(lt, self.len_abs(lt.arg(0))) for x in (o, l) for lt in self.length_terms(x)]
            if pairs:
                o, l = z3.substitute(o, *pairs), z3.substitute(l, *pairs)
            r = z3.If(z3.Or(o < 0, o >= n, l <= 0), z3.IntVal(0), z3.If(o + l <= n, l, n - o))
        elif z3.is_app_of(t, z3.Z3_OP_ITE):
            c = t.arg(0)
            pairs = [(lt, self.len_abs(lt.arg(0))) for lt in self.length_terms(c)]
            if pairs:
                c = z3.substitute(c, *pairs)
            r = z3.If(c, self.len_abs(t.arg(1)), self.len_abs(t.arg(2)))
        else:
            r = z3.Int("len!abs%d" % k)
            self.__dict__.setdefault("_len_consts", {})[k] = r
            self.__dict__.setdefault("_len_keep", []).append(t)
        cache[k] = r
        return r

    @staticmethod
    def flat_concat(*parts):
        """Right-nested concatenation of the leaves of the given sequence terms without empty parts; subterms are
        left untouched (z3.simplify would also rewrite lengths inside them, see lite_simplify)."""
        leaves = []

        def walk(t):
            if z3.is_app_of(t, z3.Z3_OP_SEQ_CONCAT):
                for ch in t.children():
                    walk(ch)
            elif z3.is_app_of(t, z3.Z3_OP_SEQ_EMPTY):
                return
            else:
                leaves.append(t)
        for pt in parts:
            walk(pt)
        if not leaves:
            return z3.Empty(S)
        out = leaves[-1]
        for lf in reversed(leaves[:-1]):
            out = z3.Concat(lf, out)
        return out

    def length_terms(self, f):
        cache = self.__dict__.setdefault("_len_cache", {})
        k = f.get_id()
        if k in cache:
            return cache[k]
        out = {}
        seen = set()
        stack = [f]
        while stack:
            t = stack.pop()
            tid = t.get_id()
            if tid in seen:
                continue
            seen.add(tid)
            if z3.is_quantifier(t):
                continue
            if z3.is_app_of(t, z3.Z3_OP_SEQ_LENGTH):
                out[tid] = t
            stack.extend(t.children())
        cache[k] = list(out.values())
        self.__dict__.setdefault("_len_keep", []).append(f)
        return cache[k]

    # ------------------------------------------------------------------ value helpers
    def as_int(self, v):
        if isinstance(v, VInt):
            return v.t
        if isinstance(v, VBool):
            return z3.If(v.t, z3.IntVal(1), z3.IntVal(0))
        raise Unsupported(f"int expected, got {v!r}")

    def truth(self, v, p):
        if isinstance(v, VBool):
            return v.t
        if isinstance(v, VInt):
            return v.t != 0
        if isinstance(v, VNone):
            return z3.BoolVal(False)
        if isinstance(v, VBytes):
            return z3.Length(v.t) > 0
        if isinstance(v, VStr):
            if v.lit is not None:
                return z3.BoolVal(len(v.lit) > 0)
            return self.func("str_nonempty", Str, B)(v.t)
        if isinstance(v, VOpt):
            return z3.And(z3.Not(v.isnone), self.truth(v.val, p))
        if isinstance(v, VSet):
            return v.t != z3.K(I, z3.BoolVal(False))
        if isinstance(v, VList):
            if v.items is not None:
                return z3.BoolVal(len(v.items) > 0)
            return z3.Length(v.t) > 0
        if isinstance(v, VTuple):
            return z3.BoolVal(len(v.items) > 0)
        if isinstance(v, VObj):
            m = self.prog.find_method(v.cls, "__bool__")
            if m is not None:
                r = self.call_user(m, [v], {}, p, None)
                return self.truth(r, p)
            if v.cls.kind == "namedtuple":
                return z3.BoolVal(True)
            return z3.BoolVal(True)
        if isinstance(v, (VSym, VClass, VFunc, VExc, VOpaque)):
            return z3.BoolVal(True)
        raise Unsupported(f"truth of {v!r}")

    def eq(self, a, b, p):
        """z3 Bool for Python a == b."""
        if isinstance(a, VOpt) or isinstance(b, VOpt):
            if isinstance(a, VOpt) and isinstance(b, VOpt):
                return z3.Or(z3.And(a.isnone, b.isnone), z3.And(z3.Not(a.isnone), z3.Not(b.isnone), self.eq(a.val, b.val, p)))
            o, x = (a, b) if isinstance(a, VOpt) else (b, a)
            if isinstance(x, VNone):
                return o.isnone
            return z3.And(z3.Not(o.isnone), self.eq(o.val, x, p))
        if isinstance(a, VNone) or isinstance(b, VNone):
            return z3.BoolVal(isinstance(a, VNone) and isinstance(b, VNone))
        if isinstance(a, (VInt, VBool)) and isinstance(b, (VInt, VBool)):
            if isinstance(a, VBool) and isinstance(b, VBool):
                return a.t == b.t
            return self.as_int(a) == self.as_int(b)
        if isinstance(a, VBytes) and isinstance(b, VBytes):
            return a.t == b.t
        if isinstance(a, VStr) and isinstance(b, VStr):
            if a.lit is not None and b.lit is not None:
                return z3.BoolVal(a.lit == b.lit)
            # chr(x) == "<one character>"  is  x == ord(character)   (chr is injective; a literal of another length never equals it)
            for x, y in ((a, b), (b, a)):
                if y.lit is not None and x.lit is None and z3.is_app(x.t) and x.t.decl().name() == "chr":
                    if len(y.lit) != 1:
                        return z3.BoolVal(False)
                    return x.t.arg(0) == ord(y.lit)
            return self.str_term(a) == self.str_term(b)
        if isinstance(a, VTuple) and isinstance(b, VTuple):
            if len(a.items) != len(b.items):
                return z3.BoolVal(False)
            return z3.And(*[self.eq(x, y, p) for x, y in zip(a.items, b.items)]) if a.items else z3.BoolVal(True)
        if isinstance(a, VObj) and isinstance(b, VObj):
            if a.cls.kind in ("namedtuple", "dataclass") and b.cls.kind == a.cls.kind:
                if a.cls is not b.cls and a.cls.kind == "dataclass":
                    return z3.BoolVal(False)
                names = [f[0] for f in self.prog.all_fields(a.cls)]
                return z3.And(*[self.eq(a.fields[n], b.fields[n], p) for n in names]) if names else z3.BoolVal(True)
            return z3.BoolVal(a is b)
        if isinstance(a, VSym) and isinstance(b, VSym):
            return a.t == b.t
        if isinstance(a, VSet) and isinstance(b, VSet):
            return a.t == b.t
        if isinstance(a, VList) and isinstance(b, VList):
            if a.items is not None and b.items is not None:
                if len(a.items) != len(b.items):
                    return z3.BoolVal(False)
                return z3.And(*[self.eq(x, y, p) for x, y in zip(a.items, b.items)]) if a.items else z3.BoolVal(True)
            return self.list_term(a) == self.list_term(b)
        if isinstance(a, VClass) and isinstance(b, VClass):
            return z3.BoolVal(a.cls is b.cls)
        if type(a) is not type(b):
            # values of unrelated Python types never compare equal (int/bool handled above)
            return z3.BoolVal(False)
        raise Unsupported(f"eq {a!r} {b!r}")

    def str_term(self, v):
        if v.lit is not None:
            return self.strlit(v.lit)
        return v.t

    def list_term(self, v):
        if v.t is not None:
            return v.t
        raise Unsupported("concrete list used where symbolic list needed")

    def range_fact(self, seq):
        q = z3.Int("q!r")
        return z3.ForAll([q], z3.Implies(z3.And(0 <= q, q < z3.Length(seq)), z3.And(0 <= seq[q], seq[q] <= 255)))

    def fresh_bytes(self, p, name="b", kind="bytes"):
        t = fresh(S, name)
        self.byte_vars.append(t)
        p.pc.append(self.range_fact(t))
        return VBytes(t, kind)

    # ------------------------------------------------------------------ typed fresh values
    def ann_text(self, ann):
        if ann is None:
            return "Any"
        if isinstance(ann, str):
            return ann
        if isinstance(ann, ast.Constant) and isinstance(ann.value, str):
            return ann.value
        return ast.unparse(ann)

    def fresh_of_type(self, ty, p, module, name="v", optional_as_vopt=True):
        ty = ty.strip()
        if ty.startswith("t.Optional[") or ty.startswith("Optional["):
            inner = ty[ty.index("[") + 1:-1]
            try:
                val = self.fresh_of_type(inner, p, module, name)
            except RecursionError:
                return NONE        # a recursive object type (writer -> parent writer -> ...) is cut after one level
            return VOpt(fresh(B, name + "_none"), val)
        if ty in ("int",) or ty.startswith("t.Union[TypeTagNumber") or ty.startswith("t.Union[int"):
            return VInt(fresh(I, name))
        if ty == "bool":
            return VBool(fresh(B, name))
        if ty == "str":
            return VStr(fresh(Str, name))
        if ty in ("bytes", "bytearray", "memoryview") or ty.startswith("t.Union[bytes"):
            kind = ty if ty in ("bytes", "bytearray", "memoryview") else "bytes"
            return self.fresh_bytes(p, name, kind)
        if ty in ("None", "Any", "t.Any"):
            return NONE
        if ty == "obj":
            return VSym(fresh(Obj, name), None)
        if ty == "seqobj":
            return VList(t=fresh(SeqObj, name), elem="obj")
        if ty == "seqstr":
            return VList(t=fresh(SeqStr, name), elem="str")
        if ty == "seqbytes":
            return VList(t=fresh(SeqSeq, name), elem="bytes")
        if ty.startswith("t.Tuple[") or ty.startswith("Tuple["):
            inner = self.split_top(ty[ty.index("[") + 1:-1])
            return VTuple([self.fresh_of_type(x, p, module, f"{name}_{i}") for i, x in enumerate(inner)])
        if ty.startswith("t.Set[") or ty.startswith("set"):
            return VSet(fresh(IntSet, name))
        if ty.startswith("t.List[") or ty.startswith("List["):
            inner = ty[ty.index("[") + 1:-1].strip()
            if inner == "str":
                return VList(t=fresh(SeqStr, name), elem="str")
            if inner == "bytes":
                return VList(t=fresh(SeqSeq, name), elem="bytes")
            if inner == "int":
                return VList(t=fresh(S, name), elem="int")
            return VList(t=fresh(SeqObj, name), elem="obj", elem_cls=self.prog.class_by_name(module, inner.split(".")[-1]))
        if ty.startswith("t.Type["):
            return VOpaque(ty)
        if ty.startswith("sym:"):
            ci = self.prog.class_by_name(module, ty[4:])
            return VSym(fresh(Obj, name), ci)
        ci = self.prog.class_by_name(module, ty.split(".")[-1])
        if ci is not None:
            if ci.kind == "enum":
                if ci.enum_mixin == "str":
                    return VStr(fresh(Str, name))
                return VInt(fresh(I, name))
            if ci.kind == "namedtuple":
                o = VObj(ci)
                for fname, fann, _ in self.prog.all_fields(ci):
                    o.fields[fname] = self.fresh_of_type(self.ann_text(fann), p, ci.module, f"{name}.{fname}")
                return o
            if ci.kind == "dataclass" and ci.frozen:
                return VSym(fresh(Obj, name), ci)
            return self.fresh_object(ci, p, name)
        if ty.startswith("t.Union["):
            return VOpaque(ty)
        if ty in ("TracebackType", "t.Type[BaseException]", "BaseException"):
            return VOpaque(ty)
        raise Unsupported(f"fresh value of type {ty!r}")

    # mutable-object field types are declared by the sidecar (objects.py)
    object_fields = {}

    def fresh_object(self, ci, p, name):
        stack = self.__dict__.setdefault("_fresh_stack", [])
        if stack.count(ci.key) >= 2:
            raise RecursionError
        stack.append(ci.key)
        try:
            return self._fresh_object(ci, p, name)
        finally:
            stack.pop()

    def _fresh_object(self, ci, p, name):
        o = VObj(ci)
        decl = None
        for c in self.prog.mro(ci):
            if c.key in self.object_fields:
                decl = self.object_fields[c.key] if decl is None else {**self.object_fields[c.key], **decl}
        if decl is None:
            raise Unsupported(f"no field declaration for mutable class {ci.key}")
        for fname, fty in decl.items():
            o.fields[fname] = self.fresh_of_type(fty, p, ci.module, f"{name}.{fname}")
        # fields the sidecar does not declare (added by a later change to the class): discovered from the constructors, typed by the
        # literal they are initialised with, so that the function can still be executed and its contract clauses decide
        for c in self.prog.mro(ci):
            init = c.methods.get("__init__")
            if init is None:
                continue
            for n in ast.walk(init.node):
                if isinstance(n, (ast.Assign, ast.AnnAssign)):
                    tgts = n.targets if isinstance(n, ast.Assign) else [n.target]
                    for t_ in tgts:
                        if isinstance(t_, ast.Attribute) and isinstance(t_.value, ast.Name) and t_.value.id == "self" and t_.attr not in o.fields:
                            v_ = n.value
                            ty = None
                            if isinstance(v_, ast.Constant) and isinstance(v_.value, bool):
                                ty = "bool"
                            elif isinstance(v_, ast.Constant) and isinstance(v_.value, int):
                                ty = "int"
                            elif isinstance(v_, ast.Constant) and isinstance(v_.value, bytes):
                                ty = "bytes"
                            elif isinstance(v_, ast.Constant) and v_.value is None and isinstance(n, ast.AnnAssign):
                                ty = self.ann_text(n.annotation)
                            elif isinstance(v_, ast.Call) and isinstance(v_.func, ast.Name) and v_.func.id in ("bytearray", "bytes", "set"):
                                ty = {"bytearray": "bytearray", "bytes": "bytes", "set": "t.Set[int]"}[v_.func.id]
                            if ty is not None:
                                try:
                                    o.fields[t_.attr] = self.fresh_of_type(ty, p, ci.module, f"{name}.{t_.attr}")
                                    self.undeclared_fields.add(f"{ci.key}.{t_.attr}: {ty}")
                                except Unsupported:
                                    pass
        return o

    @staticmethod
    def split_top(s):
        out, depth, cur = [], 0, ""
        for ch in s:
            if ch == "[":
                depth += 1
            if ch == "]":
                depth -= 1
            if ch == "," and depth == 0:
                out.append(cur.strip())
                cur = ""
            else:
                cur += ch
        if cur.strip():
            out.append(cur.strip())
        return out

    def havoc_like(self, v, p, name="h"):
        """A fresh value of the same shape as v (used for loop havoc and callee frames)."""
        if isinstance(v, VInt):
            return VInt(fresh(I, name))
        if isinstance(v, VBool):
            return VBool(fresh(B, name))
        if isinstance(v, VBytes):
            return self.fresh_bytes(p, name, v.kind)
        if isinstance(v, VStr):
            return VStr(fresh(Str, name))
        if isinstance(v, VSet):
            return VSet(fresh(IntSet, name))
        if isinstance(v, VOpt):
            return VOpt(fresh(B, name + "_none"), self.havoc_like(v.val, p, name))
        if isinstance(v, VNone):
            return v
        if isinstance(v, VTuple):
            return VTuple([self.havoc_like(x, p, name) for x in v.items])
        if isinstance(v, VList):
            if v.t is not None:
                return VList(t=fresh(v.t.sort(), name), elem=v.elem, elem_cls=v.elem_cls)
            raise Unsupported("havoc of a concrete-spine list (give the variable a symbolic list type)")
        if isinstance(v, VSym):
            return VSym(fresh(Obj, name), v.static_cls)
        if isinstance(v, (VClass, VFunc, VOpaque, VModule)):
            return v
        if isinstance(v, VObj):
            return v      # objects are havocked field-wise by the caller
        raise Unsupported(f"havoc {v!r}")
