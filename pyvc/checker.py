"""Property-level orchestration: deductive stage (pyvc) + native stage (run-time contracts / bounded enumeration /
regex decisions), verdict, replay files, evidence."""
from __future__ import annotations
import json, os, re, subprocess, sys, time, hashlib

ROOT = os.path.dirname(os.path.dirname(os.path.abspath(__file__)))
sys.path.insert(0, ROOT)
# Runs against a scratch copy of the repository (SANSLDAP_SRC set: self-tests with seeded changes) must not overwrite the
# evidence / replay files of the real tree.
OUT_ROOT = ROOT if not os.environ.get("SANSLDAP_SRC") else os.path.join("/tmp", "pyvc-scratch-out")
NATIVE_PY = "/venv/bin/python"
BASELINE = os.path.join(ROOT, "baseline", "obligations.json")


def load_known():
    p = os.path.join(ROOT, "KNOWN_FINDINGS.json")
    return json.load(open(p)) if os.path.exists(p) else {"known": [], "fixed": []}


# ---------------------------------------------------------------------------------------------- clause -> property
def props_of(func, clause, kind, explicit=None):
    """Which properties a contract clause of a session/asn1 function supports (several properties share contracts)."""
    if explicit:
        return {explicit}
    if kind == "decreases":
        # a loop / recursion measure bounded by the input length: termination with linearly many iterations (C18), next to
        # whatever the function's other clauses support
        return _props_of(func, clause, kind) | {"C18"}
    return _props_of(func, clause, kind)


def _props_of(func, clause, kind):
    out = set()
    f = func or ""
    c = clause or ""
    if f.startswith("asn1") or f.startswith("specs.ber"):
        if kind == "raises-unexpected":
            return {"C05"}            # an exception class outside the documented ones: containment, not arithmetic
        if kind == "raises":
            return {"C07", "C06", "C02"}     # e.g. NotEnougData although the value is complete (or the converse)
        if "_read_asn1_header" in f or "_read_asn1_boolean" in f or "peek_header" in f or "read_boolean" in f:
            return {"C07", "C04"}
        return {"C07"}
    if kind == "frame-static":
        return {"C18"} if (func or "").startswith("_filter:") and "cost" in (clause or "") or (clause or "").startswith("no-retry") else {"C19"}
    if kind == "joint":
        return {"C11"}
    if any(n in f for n in ("_filter:_unpack_filter", "_filter._unpack_filter", "_unpack_complex_filter", "_unpack_simple_filter", "LDAPFilter.from_string")):
        return {"C15"}                # RFC 4515 text scanners: totality and error spans
    if "[totality]" in f or (f.startswith(("_filter", "_controls", "_authentication", "_messages")) and "unpack" not in f
                             and (f.endswith((".pack", "._pack_inner", ".get_value")))):
        # encode tree.  Exceptional behaviour (LDAPMessage.pack and below return for every message value: no exception
        # half-way through a send) supports C10 / C12; the postconditions are the RFC 4511 encoding relation (C03)
        if kind in ("ensures", "hint", "lemma-pre", "loop-establish", "loop-preserve"):
            return {"C03"}
        if kind in ("call-pre", "frame"):
            return {"C03", "C10", "C12"}
        return {"C10", "C12"}
    if f.startswith(("_filter", "_controls", "_authentication", "_messages:_unpack_", "_messages._unpack_")) and "_unpack_ldap_message_content[" not in f \
            or "[containment]" in f:
        # decode tree below the envelope: exception containment and loop progress are C05; the value-level postconditions
        # (what is returned, over the X.690 denotation of the octets, whatever the length form / whatever follows) are C04 and C01
        if kind == "ensures" and "len(reader._view) + 2 <=" not in c:
            return {"C04", "C01"}
        return {"C05"}
    if f.startswith("_messages") or f.startswith("specs.sess"):
        if kind == "raises-unexpected":
            return {"C05"}
        return {"C06", "C02"}
    if "_session" in f and "receive" in f:
        out = set()
        if "msgs(" in c or "residue(" in c:
            out |= {"C02", "C06"}
        if kind in ("raises-unexpected", "raises", "on-raise") or "exc." in c:
            out |= {"C05"}
        if "self.state" in c or "SessionState" in c:
            out |= {"C08", "C05"}
        if "_message_counter" in c or "ids_below" in c or "subset(" in c:
            out |= {"C09"}
        if "forall(j" in c and "UnbindRequest" in c:
            out |= {"C05", "C11"}      # receive never returns a termination message: what the C11 termination steps rest on
        return out or {"C05"}
    if "_session" in f or f == "history":
        is_client = "LDAPClient" in f
        is_recv = "receive" in f or "_process_incoming_message" in f
        if "data_to_send" in f:
            return {"C12"}
        if kind == "raises-unexpected" or kind == "raises":
            out |= {"C05"} if is_recv else {"C10"}
            if "_process_incoming_message" in f and is_client:
                out |= {"C09"}
        if "_outgoing_buffer" in c:
            out |= {"C12"}
            if kind in ("on-raise",):
                out |= {"C10"}
        if "self.state" in c or "SessionState" in c:
            out |= {"C08"}
        if "_message_counter" in c or "ids_below" in c or "result >= 1" in c:
            out |= {"C09"}
        if "_outstanding_requests" in c or "_search_requests" in c:
            if "empty_set()" in c and "bind" in f:
                out |= {"C08"}       # a bind cannot start while other operations are outstanding
            else:
                out |= {"C09"} if is_client else {"C10"}
        if kind == "frame":
            out |= {"C08", "C10", "C12"}
        if not out:
            out = {"C08"}
        return out
    return set()


# ---------------------------------------------------------------------------------------------- stages
def deductive_stage(jobs, tier, src_root=None):
    from pyvc.run import run_jobs
    # per-obligation budget: on the unchanged tree every obligation is proved well inside it (slowest ~13 s with all cores
    # busy here, about twice that on the machine that re-runs the checks), so the size only matters for how long an obligation that has become unprovable is pursued - and for not
    # flipping a verdict to `unknown` on a loaded machine
    to = 45000 if tier == "quick" else 120000
    known_obl = [o for k in load_known().get("known", []) for o in k.get("obligations", [])]
    for jb in jobs:
        jb["timeout_ms"] = to
        jb["known_obligations"] = known_obl
        if src_root:
            jb["src_root"] = src_root
    return run_jobs([dict(jb) for jb in jobs])


def native_stage(script, tier, extra_env=None):
    env = dict(os.environ)
    env["VERIF_TIER"] = tier
    env["PYTHONDONTWRITEBYTECODE"] = "1"
    if extra_env:
        env.update(extra_env)
    t0 = time.time()
    try:
        r = subprocess.run([NATIVE_PY, os.path.join(ROOT, "props", script)], capture_output=True, text=True, env=env,
                           timeout=3000 if tier == "thorough" else 900)
    except subprocess.TimeoutExpired:
        return {"error": f"{script}: timeout", "violations": [], "evaluations": 0}
    try:
        out = json.loads(r.stdout)
    except Exception:
        return {"error": f"{script}: no JSON output (exit {r.returncode}): {r.stderr[-1500:]}", "violations": [], "evaluations": 0}
    out["script"] = script
    out["wall_s"] = round(time.time() - t0, 2)
    return out


def known_match(pid, rec, known):
    """Does this violation record match a listed known finding of this property?"""
    for k in known.get("known", []):
        if k["property"] != pid:
            continue
        m = k.get("match", {})
        kf = rec.get("known_key") or {}
        if kf and all(kf.get(a) == b for a, b in m.items()):
            return k
    return None


def write_replay(pid, n, payload):
    d = os.path.join(OUT_ROOT, "replays", pid)
    os.makedirs(d, exist_ok=True)
    p = os.path.join(d, f"violation_{n}.json")
    json.dump(payload, open(p, "w"), indent=1, default=str)
    return p


def replay(path):
    spec = json.load(open(path))
    script = spec.get("script")
    print(f"replay of {spec.get('property')} :: {spec.get('function')} :: {spec.get('clause', '')[:200]}")
    if spec.get("no_failing_input"):
        print("this record has no failing input: the named obligation was refuted / left open by the prover; prover output follows")
        print(json.dumps(spec.get("prover"), indent=1)[:4000])
        return 1
    if script:
        r = subprocess.run([NATIVE_PY, os.path.join(ROOT, "props", script), "replay", path], capture_output=True, text=True)
        print(r.stdout[-4000:])
        print(r.stderr[-2000:])
        return r.returncode
    return 3


# ---------------------------------------------------------------------------------------------- main entry
def run_property(pid, tier):
    from props.registry import REGISTRY
    t0 = time.time()
    seed = int(os.environ.get("VERIF_SEED", "0") or 0)
    reg = REGISTRY.get(pid)
    if reg is None:
        print(f"property {pid} is not claimed (see MANIFEST.json not_applicable)")
        return 3
    update_baseline = os.environ.get("PYVC_UPDATE_BASELINE") == "1"
    baseline_all = json.load(open(BASELINE)) if os.path.exists(BASELINE) else {}
    baseline = set(baseline_all.get(pid, []))
    known = load_known()

    # ---- deductive stage
    results = deductive_stage(reg.get("jobs", []), tier) if reg.get("jobs") else []
    instances, by_name, func_rows, errors, missing_funcs = [], {}, [], [], []
    solver_s = 0.0
    for res in results:
        jb = res["job"]
        row = {"function": jb["ckey"], "source_hash": res.get("source_hash"), "obligations": len(res["obligations"]),
               "discharged": sum(1 for o in res["obligations"] if o["status"] == "proved"),
               "paths": res.get("stats", {}).get("paths"), "error": res.get("error")}
        func_rows.append(row)
        if res.get("error"):
            if res.get("error_kind") == "missing":
                # the function no longer exists (renamed / folded into its caller): its contract cannot attach; the
                # property then rests on the contracts of the functions that remain, which are still verified below
                missing_funcs.append(jb["ckey"])
            else:
                errors.append({"function": jb["ckey"], "error": res["error"][:600], "kind": res.get("error_kind")})
        for o in res["obligations"]:
            o["function"] = jb["ckey"]
            tags = props_of(jb["ckey"], o.get("clause"), o.get("kind"))
            if tags and pid not in tags and not jb["ckey"].startswith("specs.") and reg.get("filter_by_clause", True):
                continue
            instances.append(o)
            solver_s += o["time"]
            by_name.setdefault(o["name"], []).append(o)
    # ---- static frame obligations (C19): discharged syntactically on the ASTs of the working tree
    if reg.get("static") == "frames" or reg.get("frames"):
        from pyvc.frontend import Program
        from pyvc import frames
        t1 = time.time()
        # reg["frames"] = {"rules": [...], "modules": [...]} restricts the rules to the modules a property is anchored in
        # (the "no memory between calls" frame of a codec / parser: rule F1 on its modules)
        sel = reg.get("frames")
        for fo in frames.analyse(Program(os.environ.get("SANSLDAP_SRC"))):
            if sel and not (fo["rule"] in sel["rules"] and fo["where"].split(":")[0] in sel["modules"]):
                continue
            o = {"name": fo["name"], "kind": "frame-static", "status": fo["status"], "time": 0.0, "backend": "syntactic frame analysis (pyvc.frames)",
                 "lineno": 0, "clause": fo["rule"] + (": " + fo["detail"] if fo["detail"] else ""), "function": fo["where"], "model": None}
            instances.append(o)
            by_name.setdefault(o["name"], []).append(o)
        func_rows.append({"function": "pyvc.frames.analyse (all repository modules)", "obligations": sum(1 for o in instances if o["kind"] == "frame-static"),
                          "discharged": sum(1 for o in instances if o["kind"] == "frame-static" and o["status"] == "proved"), "seconds": round(time.time() - t1, 2)})
    # ---- static cost rule (C18): a failing call of a recursive parser is never caught and retried
    if reg.get("static") == "cost":
        from pyvc.frontend import Program
        from pyvc import frames
        cycles = {"_filter": ["_unpack_filter", "_unpack_complex_filter", "_unpack_simple_filter", "LDAPFilter.unpack", "FilterAnd.unpack", "FilterOr.unpack", "FilterNot.unpack"]}
        for fo in frames.no_retry(Program(os.environ.get("SANSLDAP_SRC")), cycles):
            o = {"name": fo["name"], "kind": "frame-static", "status": fo["status"], "time": 0.0, "backend": "syntactic rule (pyvc.frames.no_retry)",
                 "lineno": 0, "clause": fo["rule"] + (": " + fo["detail"] if fo["detail"] else ""), "function": fo["where"], "model": None}
            instances.append(o)
            by_name.setdefault(o["name"], []).append(o)
        func_rows.append({"function": "pyvc.frames.no_retry (recursive parsers of _filter.py)", "obligations": sum(1 for o in instances if o["kind"] == "frame-static"),
                          "discharged": sum(1 for o in instances if o["kind"] == "frame-static" and o["status"] == "proved")})
    # ---- contract-level joint invariant (C11): transition relations derived from the proved L3 contracts
    if reg.get("joint"):
        from pyvc import joint
        t1 = time.time()
        try:
            jobls = joint.run(os.environ.get("SANSLDAP_SRC"), 45000 if tier == "quick" else 120000)
        except Exception as e:
            jobls = []
            errors.append({"function": "pyvc.joint", "error": f"{type(e).__name__}: {e}"[:600], "kind": "crash"})
        for o in jobls:
            instances.append(o)
            solver_s += o["time"]
            by_name.setdefault(o["name"], []).append(o)
        func_rows.append({"function": "pyvc.joint.run (joint invariant over the L3 contracts of _session.py)", "obligations": len(jobls),
                          "discharged": sum(1 for o in jobls if o["status"] == "proved"), "seconds": round(time.time() - t1, 2)})
    proved_names = sorted(n for n, os_ in by_name.items() if all(o["status"] == "proved" for o in os_))
    if update_baseline:
        baseline_all[pid] = proved_names
        os.makedirs(os.path.dirname(BASELINE), exist_ok=True)
        json.dump(baseline_all, open(BASELINE, "w"), indent=0, sort_keys=True)
        baseline = set(proved_names)

    # ---- native stage(s)
    natives = []
    for script in ([reg["native"]] if isinstance(reg.get("native"), str) else reg.get("native", [])):
        natives.append(native_stage(script, tier))
    native_viol = []
    for nat in natives:
        for v in nat.get("violations", []):
            ps = props_of(v.get("function"), v.get("clause"), v.get("kind"), v.get("property"))
            if pid in ps:
                v["script"] = nat.get("script")
                native_viol.append(v)

    # ---- verdict
    lines, exit_code, nviol = [], 0, 0
    regressions_refuted, regressions_open, vanished = [], [], []
    complete_funcs = [r["job"]["ckey"] for r in results if not r.get("error") and r["obligations"]]
    for name in sorted(baseline):
        os_ = by_name.get(name)
        if os_ is None and any(name.startswith(m.replace(":", ".", 1) + "/") for m in missing_funcs):
            continue
        if os_ is None and any(name.startswith(m.replace(":", ".", 1) + "/") for m in complete_funcs):
            # the function was executed to the end on every path and everything it generated is accounted for below: an
            # obligation of the committed tree that is not generated any more belonged to a call site, a path or an
            # exception outcome that the changed code no longer has (its contract clauses are still checked on every
            # path that does exist)
            vanished.append(name)
            continue
        if os_ is None:
            regressions_open.append({"name": name, "why": "obligation no longer generated (function changed shape, contract no longer attaches, or engine error)"})
            continue
        bad = [o for o in os_ if o["status"] != "proved"]
        if not bad:
            continue
        if any(o["status"] == "refuted" for o in bad):
            regressions_refuted.append({"name": name, "instances": bad})
        else:
            regressions_open.append({"name": name, "why": "solver answered unknown / timeout", "instances": bad})
    # an obligation that is not in the baseline (e.g. a new exception path) and that the solver refutes is a violation
    # candidate as well; new obligations the solver cannot decide are reported as undecided
    for name, os_ in sorted(by_name.items()):
        if name in baseline:
            continue
        bad = [o for o in os_ if o["status"] != "proved"]
        if not bad:
            continue
        if any(o["status"] == "refuted" for o in bad):
            regressions_refuted.append({"name": name, "instances": bad})
        else:
            regressions_open.append({"name": name, "why": "new obligation, solver answered unknown / timeout", "instances": bad})
    reported = set()
    known_lines = []
    # an obligation that a listed known finding names (the contract states the RFC; the code is known to differ there):
    # reported as KNOWN-FINDING while it is not discharged, never as undecided / violation; any other obligation is unaffected
    known_obls = {o: k for k in known.get("known", []) if k["property"] == pid for o in k.get("obligations", [])}
    for lst in (regressions_refuted, regressions_open):
        for rg in list(lst):
            k = known_obls.get(rg["name"])
            if k:
                lst.remove(rg)
                msg = f"KNOWN-FINDING: property={pid} {k['id']}: {k['what'][:160]}"
                if msg not in known_lines:
                    known_lines.append(msg)
    for v in native_viol:
        k = known_match(pid, v, known)
        if k:
            msg = f"KNOWN-FINDING: property={pid} {k['id']}: {k['what'][:160]}"
            if msg not in known_lines:
                known_lines.append(msg)
            continue
        key = (v.get("function"), v.get("clause"))
        if key in reported:
            continue
        reported.add(key)
        nviol += 1
        path = write_replay(pid, nviol, {"property": pid, **v})
        tail = " no-failing-input-found" if v.get("no_failing_input") else ""
        lines.append(f"VIOLATION property={pid} replay={os.path.relpath(path, OUT_ROOT)}   # {v.get('function')}: {str(v.get('clause'))[:140]}{tail}")
        if nviol >= 5:
            break
    if not native_viol or nviol == 0:
        # the prover refuted an obligation that holds on the committed tree, and no failing input was found
        for rg in regressions_refuted[:5]:
            if known_lines and not native_viol:
                pass
            nviol += 1
            inst = rg["instances"][0]
            # the counter-model of a function of the decode tree (one reader, default options) is run on the real code: when a
            # contract clause fails there too, the model is a failing input, not only a failed proof
            replayed = None
            for cand in rg["instances"]:
                mdl = cand.get("model") or {}
                fkey = (cand.get("function") or "").split("[")[0]
                if cand.get("status") == "refuted" and any(k in mdl for k in ("reader._view", "message._view")) and ":" in fkey:
                    rp = write_replay(pid, nviol, {"property": pid, "function": cand.get("function"), "clause": cand.get("clause"), "obligation": rg["name"],
                                                   "script": "replay_model.py",
                                                   "replay_model": {"function": fkey, "contract": cand.get("function"), "model": mdl}})
                    try:
                        r_ = subprocess.run([NATIVE_PY, os.path.join(ROOT, "props", "replay_model.py"), rp], capture_output=True, text=True, timeout=120,
                                            env=dict(os.environ, PYTHONDONTWRITEBYTECODE="1"))
                        rep = json.loads(r_.stdout.strip().splitlines()[-1]) if r_.stdout.strip() else {}
                    except Exception:
                        rep = {}
                    if rep.get("replayed") and rep.get("failed_clauses"):
                        replayed = (rp, rep)
                        break
            if replayed:
                rp, rep = replayed
                spec_ = json.load(open(rp))
                spec_["native_outcome"] = rep
                json.dump(spec_, open(rp, "w"), indent=1, default=str)
                lines.append(f"VIOLATION property={pid} replay={os.path.relpath(rp, OUT_ROOT)}   # obligation {rg['name']} refuted; counter-model replayed on the real code: {rep['failed_clauses'][0]['clause'][:100]}")
                continue
            path = write_replay(pid, nviol, {"property": pid, "function": inst.get("function"), "clause": inst.get("clause"),
                                             "obligation": rg["name"], "no_failing_input": True,
                                             "prover": {"status": inst["status"], "backend": inst["backend"], "counter_model_inputs": inst.get("model"),
                                                        "all_instances": [{k: o.get(k) for k in ("status", "time", "backend", "reason", "model")} for o in rg["instances"]][:6]}})
            lines.append(f"VIOLATION property={pid} replay={os.path.relpath(path, OUT_ROOT)}   # obligation {rg['name']} refuted no-failing-input-found")
    if nviol:
        exit_code = 1
    elif regressions_open or [e for e in errors]:
        exit_code = 2
    native_errors = [n["error"] for n in natives if n.get("error")]
    if native_errors and exit_code == 0:
        exit_code = 3
    undecided_native = [u for n in natives for u in n.get("error_undecided", [])]
    if undecided_native and exit_code == 0:
        exit_code = 2

    # ---- evidence
    n_obl = len(instances)
    n_dis = sum(1 for o in instances if o["status"] == "proved")
    bounded = [{"script": n.get("script"), "evaluations": n.get("evaluations", 0), "contract_evaluations": n.get("contract_evaluations"),
                "bound": n.get("bound"), "violations": len(n.get("violations", [])), "wall_s": n.get("wall_s"), "label": "bounded (never counted as proved)"}
               for n in natives]
    evaluations = sum(n.get("evaluations", 0) for n in natives)
    level = reg.get("level", "proof")
    all_proved = n_obl > 0 and n_dis == n_obl and not errors
    if level == "proof" and not all_proved:
        level = "other"
    from pyvc.run import load_contracts
    creg, _, _ = load_contracts()
    trusted = sorted({c.key + (": " + c.note if c.note else "") for c in creg.values() if c.trusted})
    used = sorted({u for r in results for u in r.get("used_contracts", [])})
    samples = [{"obligation": o["name"], "clause": o.get("clause", "")[:160], "status": o["status"], "backend": o["backend"], "time_s": o["time"]}
               for o in instances[:: max(1, len(instances) // 6)][:6]]
    if not samples and natives:
        samples = [{"bounded": b} for b in bounded]
    coverage = {
        "obligations": n_obl, "discharged": n_dis,
        "checker_cmd": f"./check {pid} --tier {tier}",
        "trusted_base": reg.get("trusted_base", []) + [
            "pyvc's model of the Python subset (DESIGN.md 3.2): unbounded ints, byte sequences as z3 Seq(Int) with octet range, Python slice/index semantics, implicit exceptions from the modelled list",
            "z3 " + _z3v() + ", and through SMT-LIB text z3 4.8.12 and cvc5 1.0.3 (an `unsat` from any of them is accepted; `backends` counts who proved what); spec functions in /verif/specs as oracles",
        ],
        "functions_under_contract": func_rows,
        "obligation_names_proved": len(proved_names), "baseline_names": len(baseline),
        "regressions_refuted": [r["name"] for r in regressions_refuted], "undecided": [r["name"] for r in regressions_open][:40],
        "open_not_in_baseline": sorted(n for n in by_name if n not in baseline and n not in proved_names)[:40],
        "engine_errors": errors[:20], "functions_missing_from_source": missing_funcs, "baseline_obligations_no_longer_generated": vanished[:40],
        "solver_s": round(solver_s, 2), "slow": sorted({o["name"] for o in instances if o["time"] > 5})[:30],
        "backends": _count([o["backend"].split("(")[0] for o in instances]),
        "callee_contracts_used": used[:80],
        "bounded_components": bounded,
        "evaluations": evaluations, "distinct_nontrivial": max(2, sum(n.get("distinct_nontrivial", n.get("evaluations", 0)) for n in natives)) if natives else 0,
        "rule": "; ".join(str(n.get("bound")) for n in natives if n.get("bound")),
        "samples": samples,
        "explanation": reg.get("explanation", "") + (" Deductive part: %d/%d obligation instances discharged." % (n_dis, n_obl)),
        "known_findings_reported": known_lines,
    }
    for k_, v_ in (reg.get("extra_coverage") or {}).items():
        coverage[k_] = v_
    ev = {"property_id": pid, "tier": tier, "seed": seed, "level": level, "coverage": coverage,
          "assumptions": trusted + reg.get("assumptions", []) + native_errors, "wall_s": round(time.time() - t0, 2), "violations": nviol}
    os.makedirs(os.path.join(OUT_ROOT, "evidence"), exist_ok=True)
    json.dump(ev, open(os.path.join(OUT_ROOT, "evidence", f"{pid}.json"), "w"), indent=1, default=str)

    # ---- report
    print(f"property {pid} tier={tier}: {n_dis}/{n_obl} obligation instances discharged ({len(proved_names)} names), "
          f"bounded evaluations={evaluations}, wall={round(time.time() - t0, 1)}s")
    for m in missing_funcs:
        print(f"NOTE function {m} no longer exists in the source: its contract is not attached")
    if vanished:
        print(f"NOTE {len(vanished)} obligation(s) of the committed baseline are not generated any more by functions that were executed completely (call sites / paths the code no longer has), e.g. {vanished[0]}")
    for e in errors[:10]:
        print(f"ENGINE-ERROR function={e['function']}: {e['error'][:300]}")
    for e in native_errors:
        print(f"NATIVE-ERROR {e[:500]}")
    for r in regressions_open[:20]:
        print(f"UNDECIDED obligation={r['name']} ({r['why']})")
    for u in undecided_native[:20]:
        print(f"UNDECIDED {u}")
    for ln in known_lines:
        print(ln)
    for ln in lines:
        print(ln)
    return exit_code


def _count(xs):
    out = {}
    for x in xs:
        out[x] = out.get(x, 0) + 1
    return out


def _z3v():
    try:
        import z3
        return z3.get_version_string()
    except Exception:
        return "?"
