"""Symbolic values of the Python subset."""
from __future__ import annotations
import z3

I = z3.IntSort()
B = z3.BoolSort()
S = z3.SeqSort(I)          # bytes / bytearray / memoryview contents
Str = z3.DeclareSort("Str")
Obj = z3.DeclareSort("Obj")
IntSet = z3.ArraySort(I, B)
SeqObj = z3.SeqSort(Obj)
SeqStr = z3.SeqSort(Str)
SeqSeq = z3.SeqSort(S)

_fresh_counter = [0]


def fresh(sort, name="v"):
    _fresh_counter[0] += 1
    return z3.Const(f"{name}!{_fresh_counter[0]}", sort)


class V:
    pass


class VInt(V):
    __slots__ = ("t",)

    def __init__(self, t):
        self.t = z3.IntVal(t) if isinstance(t, int) else t

    def __repr__(self):
        return f"VInt({self.t})"


class VBool(V):
    __slots__ = ("t",)

    def __init__(self, t):
        self.t = z3.BoolVal(t) if isinstance(t, bool) else t

    def __repr__(self):
        return f"VBool({self.t})"


class VNone(V):
    def __repr__(self):
        return "VNone"


NONE = VNone()


class VBytes(V):
    """bytes / bytearray / memoryview: a z3 Seq(Int) plus the Python kind (matters for mutability / methods)."""
    __slots__ = ("t", "kind")

    def __init__(self, t, kind="bytes"):
        self.t = t
        self.kind = kind

    def __repr__(self):
        return f"VBytes[{self.kind}]({self.t})"


class VStr(V):
    """str: concrete when `lit` is a Python str, otherwise an opaque term of sort Str."""
    __slots__ = ("t", "lit")

    def __init__(self, t=None, lit=None):
        self.t = t
        self.lit = lit

    def __repr__(self):
        return f"VStr({self.lit!r})" if self.lit is not None else f"VStr({self.t})"


class VTuple(V):
    __slots__ = ("items",)

    def __init__(self, items):
        self.items = list(items)

    def __repr__(self):
        return f"VTuple({self.items})"


class VList(V):
    """A Python list.  Either concrete spine (`items` list of V) or symbolic (`t` z3 Seq of `elem` kind)."""
    __slots__ = ("items", "t", "elem", "elem_cls")

    def __init__(self, items=None, t=None, elem=None, elem_cls=None):
        self.items = items
        self.t = t
        self.elem = elem      # 'obj' | 'str' | 'bytes' | 'int' (symbolic lists)
        self.elem_cls = elem_cls   # declared class of the elements of an 'obj' list

    def __repr__(self):
        return f"VList({self.items if self.items is not None else self.t})"


class VSet(V):
    __slots__ = ("t",)

    def __init__(self, t):
        self.t = t

    def __repr__(self):
        return f"VSet({self.t})"


class VOpt(V):
    """Optional[...] whose None-ness is symbolic."""
    __slots__ = ("isnone", "val")

    def __init__(self, isnone, val):
        self.isnone = isnone
        self.val = val

    def __repr__(self):
        return f"VOpt({self.isnone}, {self.val})"


class VObj(V):
    """Heap object with a concrete class and a field dictionary (mutable unless cls.frozen)."""
    __slots__ = ("cls", "fields", "oid")
    _n = [0]

    def __init__(self, cls, fields=None):
        self.cls = cls
        self.fields = fields if fields is not None else {}
        VObj._n[0] += 1
        self.oid = VObj._n[0]

    def __repr__(self):
        return f"VObj<{self.cls.name}#{self.oid}>({self.fields})"


class VSym(V):
    """Immutable object of symbolic identity (sort Obj): fields are uninterpreted functions of the reference."""
    __slots__ = ("t", "static_cls")

    def __init__(self, t, static_cls=None):
        self.t = t
        self.static_cls = static_cls     # declared (upper-bound) class, a ClassInfo or None

    def __repr__(self):
        return f"VSym({self.t}:{self.static_cls.name if self.static_cls else '?'})"


class VClass(V):
    __slots__ = ("cls",)

    def __init__(self, cls):
        self.cls = cls

    def __repr__(self):
        return f"VClass({self.cls.name})"


class VFunc(V):
    """A function / bound method / builtin reference."""
    __slots__ = ("kind", "target", "recv")

    def __init__(self, kind, target, recv=None):
        self.kind = kind      # 'user' | 'builtin' | 'spec' | 'super'
        self.target = target
        self.recv = recv

    def __repr__(self):
        return f"VFunc({self.kind}, {self.target})"


class VModule(V):
    __slots__ = ("name",)

    def __init__(self, name):
        self.name = name


class VExc(V):
    """An exception value."""
    __slots__ = ("cls", "fields")

    def __init__(self, cls, fields=None):
        self.cls = cls                  # class name (str)
        self.fields = fields or {}

    def __repr__(self):
        return f"VExc({self.cls})"


class VDict(V):
    """A dictionary literal with constant keys (module-level dispatch tables): list of (python key, value)."""
    __slots__ = ("items",)

    def __init__(self, items):
        self.items = items

    def __repr__(self):
        return f"VDict({[k for k, _ in self.items]})"


class VOpaque(V):
    """A value the engine does not interpret (e.g. a compiled regex, a TracebackType)."""
    __slots__ = ("what",)

    def __init__(self, what):
        self.what = what

    def __repr__(self):
        return f"VOpaque({self.what})"
