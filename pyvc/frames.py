"""Frame / ownership obligations for C19, discharged syntactically on the ASTs of the real modules.

Each rule instance (rule x function or class) is one obligation; it is *discharged* when the syntactic condition that
implies the frame property holds, and *refuted* with the offending source location otherwise.

  F1  no function rebinds or mutates module-level state: no `global`; a module-level name bound to a mutable object
      (list / dict / set / bytearray literal or call, or an instance of a package class that is not a frozen dataclass /
      NamedTuple / Enum) is used inside functions only through read-only operations;
  F2  no function assigns class attributes (Cls.x = .., cls.x = .., type(self).x = ..) - except the enum `_missing_`
      pseudo-member cache, which is declared benign (same value, same name: observationally transparent);
  F3  no mutable default arguments; dataclass fields holding mutable values use default_factory;
  F4  session constructors create every mutable field afresh (constructor call / literal in that activation);
  F5  option objects carry no hidden state: methods of *Options classes and the dispatchers assign no attributes on
      option objects (a cache there could make a later registration ineffective);
  F6  register_* appends to the session's own choices list after a duplicate test on the same list.
"""
from __future__ import annotations
import ast

READONLY_METHODS = {"get", "items", "keys", "values", "match", "fullmatch", "search", "sub", "subn", "split", "findall", "finditer", "copy",
                    "index", "count", "format", "join", "startswith", "endswith", "lower", "upper", "encode", "decode", "strip"}
MUTABLE_CALLS = {"list", "dict", "set", "bytearray", "defaultdict", "OrderedDict", "deque"}


def analyse(prog):
    obligations = []

    def ob(rule, where, ok, detail=""):
        obligations.append({"name": f"frame/{rule}/{where}", "rule": rule, "where": where, "status": "proved" if ok else "refuted", "detail": detail})

    repo_mods = [m for m in prog.trees if not m.startswith("specs.")]
    for mod in repo_mods:
        tree = prog.trees[mod]
        # ---- module-level mutable objects
        mutable_globals = {}
        for node in tree.body:
            tgt, val = None, None
            if isinstance(node, ast.Assign) and len(node.targets) == 1 and isinstance(node.targets[0], ast.Name):
                tgt, val = node.targets[0].id, node.value
            elif isinstance(node, ast.AnnAssign) and isinstance(node.target, ast.Name) and node.value is not None:
                tgt, val = node.target.id, node.value
            if tgt is None:
                continue
            kind = None
            if isinstance(val, (ast.List, ast.Dict, ast.Set, ast.ListComp, ast.DictComp, ast.SetComp)):
                kind = "container literal"
            elif isinstance(val, ast.Call):
                fn = ast.unparse(val.func)
                base = fn.split(".")[-1]
                if base in MUTABLE_CALLS:
                    kind = f"{base}()"
                else:
                    ci = prog.class_by_name(mod, base)
                    if ci is not None and ci.kind in ("plain",) or (ci is not None and ci.kind == "dataclass" and not ci.frozen):
                        kind = f"instance of {ci.name}"
            if kind:
                mutable_globals[tgt] = (kind, node.lineno)
        funcs = [n for n in ast.walk(tree) if isinstance(n, (ast.FunctionDef, ast.AsyncFunctionDef, ast.Lambda))]
        parents = {}
        for parent in ast.walk(tree):
            for ch in ast.iter_child_nodes(parent):
                parents[id(ch)] = parent

        def qual(fn):
            names = [getattr(fn, "name", "<lambda>")]
            p = parents.get(id(fn))
            while p is not None:
                if isinstance(p, (ast.ClassDef, ast.FunctionDef)):
                    names.append(p.name)
                p = parents.get(id(p))
            return mod + ":" + ".".join(reversed(names))

        for fn in funcs:
            if isinstance(fn, ast.Lambda):
                continue
            q = qual(fn)
            local_names = {a.arg for a in fn.args.args + fn.args.kwonlyargs + fn.args.posonlyargs}
            for n in ast.walk(fn):
                if isinstance(n, ast.Name) and isinstance(n.ctx, ast.Store):
                    local_names.add(n.id)
            # F1
            bad = []
            for n in ast.walk(fn):
                if isinstance(n, ast.Global):
                    bad.append(f"line {n.lineno}: global {', '.join(n.names)}")
                if isinstance(n, ast.Name) and n.id in mutable_globals and n.id not in local_names and isinstance(n.ctx, ast.Load):
                    par = parents.get(id(n))
                    ok = False
                    if isinstance(par, ast.Attribute) and par.value is n:
                        gp = parents.get(id(par))
                        if isinstance(gp, ast.Call) and gp.func is par and par.attr in READONLY_METHODS:
                            ok = True
                    elif isinstance(par, ast.Subscript) and par.value is n and isinstance(par.ctx, ast.Load):
                        ok = True
                    elif isinstance(par, ast.Compare) and n in par.comparators:
                        ok = True
                    elif isinstance(par, (ast.For, ast.comprehension)) and getattr(par, "iter", None) is n:
                        ok = True
                    elif isinstance(par, ast.Call) and n in par.args and ast.unparse(par.func) in ("len", "re.match", "re.sub", "re.search", "re.fullmatch", "iter", "sorted", "list", "tuple"):
                        ok = True
                    if not ok:
                        bad.append(f"line {n.lineno}: module-level {mutable_globals[n.id][0]} '{n.id}' used other than read-only")
            # a memoising decorator is module-level state as well: refuted when the cached function hands out a mutable object
            # (its results are then shared by reference between calls); a cache of immutable results is transparent
            for dec in getattr(fn, "decorator_list", []):
                dtxt = ast.unparse(dec.func if isinstance(dec, ast.Call) else dec).split(".")[-1]
                if dtxt in ("lru_cache", "cache", "cached_property", "memoize", "memoized"):
                    rtxt = ast.unparse(fn.returns) if fn.returns is not None else ""
                    if any(w in rtxt for w in ("Dict", "List", "Set", "dict", "list", "set", "bytearray", "Mapping", "Sequence")) or \
                            any(prog.class_by_name(mod, w) is not None for w in rtxt.replace("[", " ").replace("]", " ").replace(",", " ").replace("t.", "").split()):
                        bad.append(f"line {dec.lineno}: @{dtxt} on a function returning a mutable / object value ({rtxt}): results shared between calls")
            ob("F1-no-module-state", q, not bad, "; ".join(bad))
            # F2
            bad = []
            for n in ast.walk(fn):
                tgts = []
                if isinstance(n, ast.Assign):
                    tgts = n.targets
                elif isinstance(n, (ast.AugAssign, ast.AnnAssign)):
                    tgts = [n.target]
                for t_ in tgts:
                    if isinstance(t_, ast.Attribute):
                        base = t_.value
                        btxt = ast.unparse(base)
                        is_cls = btxt == "cls" or btxt.startswith("type(") or (isinstance(base, ast.Name) and base.id not in local_names and prog.class_by_name(mod, base.id) is not None)
                        if is_cls:
                            bad.append(f"line {n.lineno}: assignment to class attribute {ast.unparse(t_)}")
                if isinstance(n, ast.Call) and isinstance(n.func, ast.Attribute) and n.func.attr in ("setdefault", "update", "append", "add", "extend", "__setitem__", "pop", "clear", "insert", "remove"):
                    btxt = ast.unparse(n.func.value)
                    if btxt.startswith("cls.") or btxt.startswith("type("):
                        if getattr(fn, "name", "") == "_missing_" and "_value2member_map_" in btxt:
                            continue      # declared benign (listed as an unchecked assumption)
                        bad.append(f"line {n.lineno}: mutation of class-level container {btxt}")
            ob("F2-no-class-attribute-writes", q, not bad, "; ".join(bad))
            # F3
            bad = []
            for d in list(fn.args.defaults) + [d for d in fn.args.kw_defaults if d is not None]:
                if isinstance(d, (ast.List, ast.Dict, ast.Set)) or (isinstance(d, ast.Call) and ast.unparse(d.func).split(".")[-1] in MUTABLE_CALLS):
                    bad.append(f"line {d.lineno}: mutable default argument {ast.unparse(d)}")
                if isinstance(d, ast.Name) and d.id in mutable_globals:
                    bad.append(f"line {d.lineno}: default argument refers to module-level mutable '{d.id}'")
            ob("F3-no-mutable-defaults", q, not bad, "; ".join(bad))
        # ---- class-level checks
        for cls in [n for n in tree.body if isinstance(n, ast.ClassDef)]:
            q = f"{mod}:{cls.name}"
            bad = []
            for node in cls.body:
                val = None
                if isinstance(node, ast.AnnAssign) and node.value is not None:
                    val = node.value
                elif isinstance(node, ast.Assign):
                    val = node.value
                if val is None:
                    continue
                if isinstance(val, (ast.List, ast.Dict, ast.Set)) or (isinstance(val, ast.Call) and ast.unparse(val.func).split(".")[-1] in MUTABLE_CALLS):
                    bad.append(f"line {node.lineno}: class-level mutable value {ast.unparse(val)[:40]}")
                if isinstance(val, ast.Call) and ast.unparse(val.func).endswith("field"):
                    for kw in val.keywords:
                        if kw.arg == "default" and (isinstance(kw.value, (ast.List, ast.Dict, ast.Set, ast.Call)) and not (isinstance(kw.value, ast.Call) and False)):
                            if isinstance(kw.value, ast.Call):
                                bad.append(f"line {node.lineno}: dataclass field default is a shared object {ast.unparse(kw.value)[:40]} (use default_factory)")
                            else:
                                bad.append(f"line {node.lineno}: dataclass field default is a shared container")
            ob("F3-class-fields-fresh", q, not bad, "; ".join(bad))
            if cls.name.endswith("Options"):
                bad = []
                for fn in [n for n in cls.body if isinstance(n, ast.FunctionDef)]:
                    for n in ast.walk(fn):
                        if isinstance(n, (ast.Assign, ast.AugAssign, ast.AnnAssign)):
                            for t_ in (n.targets if isinstance(n, ast.Assign) else [n.target]):
                                root = t_
                                while isinstance(root, (ast.Attribute, ast.Subscript)):
                                    root = root.value
                                if isinstance(t_, (ast.Attribute, ast.Subscript)) and isinstance(root, ast.Name) and root.id == "self":
                                    bad.append(f"line {n.lineno}: {cls.name}.{fn.name} writes {ast.unparse(t_)}")
                        if isinstance(n, ast.Call) and isinstance(n.func, ast.Attribute) and n.func.attr in ("append", "extend", "add", "update", "setdefault", "pop", "clear", "insert", "remove", "__setitem__") \
                                and ast.unparse(n.func.value).startswith("self."):
                            bad.append(f"line {n.lineno}: {cls.name}.{fn.name} mutates {ast.unparse(n.func.value)}")
                ob("F5-no-hidden-option-state", q, not bad, "; ".join(bad))
    # ---- F5 (dispatchers) : nothing assigns attributes on an object named options / *_options outside the session constructor
    def qualified(tree):
        """(function node, qualified name) for every function of the module: names do not depend on line numbers, so an edit
        elsewhere in the file does not rename the obligations."""
        out_ = []

        def visit(node, prefix):
            for ch in ast.iter_child_nodes(node):
                if isinstance(ch, ast.ClassDef):
                    visit(ch, prefix + ch.name + ".")
                elif isinstance(ch, (ast.FunctionDef, ast.AsyncFunctionDef)):
                    out_.append((ch, prefix + ch.name))
                    visit(ch, prefix + ch.name + ".<locals>.")
                else:
                    visit(ch, prefix)
        visit(tree, "")
        return out_

    for mod in repo_mods:
        seen_q = {}
        for fn, qn in qualified(prog.trees[mod]):
            seen_q[qn] = seen_q.get(qn, 0) + 1
            if seen_q[qn] > 1:
                qn = f"{qn}#{seen_q[qn]}"
            bad = []
            for n in ast.walk(fn):
                if isinstance(n, (ast.Assign, ast.AugAssign)):
                    for t_ in (n.targets if isinstance(n, ast.Assign) else [n.target]):
                        if isinstance(t_, ast.Attribute) and ("options" in ast.unparse(t_.value)) and fn.name != "__init__":
                            bad.append(f"line {n.lineno}: writes {ast.unparse(t_)}")
                if isinstance(n, ast.Call) and ast.unparse(n.func) in ("object.__setattr__", "setattr") and n.args and "options" in ast.unparse(n.args[0]):
                    bad.append(f"line {n.lineno}: setattr on an options object")
            if bad or "options" in [a.arg for a in fn.args.args]:
                obligations.append({"name": f"frame/F5-options-read-only/{mod}:{qn}", "rule": "F5-options-read-only", "where": f"{mod}:{qn}",
                                    "status": "proved" if not bad else "refuted", "detail": "; ".join(bad)})
    # ---- F4: session constructors
    for cname in ("LDAPSession", "LDAPClient"):
        ci = prog.classes.get(f"_session.{cname}")
        init = ci.methods.get("__init__") if ci else None
        if init is None:
            continue
        bad = []
        for n in ast.walk(init.node):
            if isinstance(n, ast.Assign):
                for t_ in n.targets:
                    if isinstance(t_, ast.Attribute) and ast.unparse(t_.value) == "self":
                        v = n.value
                        fresh = isinstance(v, (ast.Constant, ast.List, ast.Dict, ast.Set)) or isinstance(v, ast.Call) or \
                            (isinstance(v, ast.Attribute) and ast.unparse(v).startswith("SessionState."))
                        if isinstance(v, ast.Call):
                            for a in list(v.args) + [k.value for k in v.keywords]:
                                for nm in ast.walk(a):
                                    if isinstance(nm, ast.Name) and nm.id not in ("string_encoding",) and not nm.id[0].isupper() and nm.id not in {x.arg for x in init.node.args.args}:
                                        if prog.resolve("_session", nm.id) is not None and prog.resolve("_session", nm.id)[0] == "const":
                                            fresh = False
                        if isinstance(v, ast.Name):
                            fresh = v.id in ("string_encoding",)
                        if not fresh:
                            bad.append(f"line {n.lineno}: self.{t_.attr} = {ast.unparse(v)[:50]} is not created in this activation")
        ob("F4-constructor-creates-fresh-state", f"_session:{cname}.__init__", not bad, "; ".join(bad))
    # ---- F6: register_* shape
    ci = prog.classes.get("_session.LDAPSession")
    for name in ("register_auth_credential", "register_control", "register_filter"):
        fi = ci.methods.get(name) if ci else None
        if fi is None:
            ob("F6-register-appends-own-list", f"_session:LDAPSession.{name}", False, "method missing")
            continue
        src = ast.unparse(fi.node)
        appends = [n for n in ast.walk(fi.node) if isinstance(n, ast.Call) and isinstance(n.func, ast.Attribute) and n.func.attr == "append"]
        ok = len(appends) == 1 and ast.unparse(appends[0].func.value).startswith("self._packing_options.") and ast.unparse(appends[0].func.value).endswith(".choices") \
            and "raise ValueError" in src and ast.unparse(appends[0].func.value) in src.split("raise ValueError")[0]
        ob("F6-register-appends-own-list", f"_session:LDAPSession.{name}", ok, "" if ok else "shape changed: expected duplicate test on and single append to self._packing_options.<kind>.choices")
    return obligations


# ---------------------------------------------------------------------------------------------- cost rule (C18)
def no_retry(prog, cycles):
    """Obligation per function of a recursive parser cycle: a call to a function of the cycle is not inside a `try` whose
    handler goes on (anything but an unconditional re-raise / raise of another error as the only statements).
    Why: the proved contracts give every *returning* call a progress of at least one octet or TLV, so there are at most
    n returning calls per parse; a *failing* call ends the whole parse only if nobody catches its error and tries again.
    Together: at most n + 1 calls per parse, each doing work polynomial in its span."""
    out = []
    for mod, names in cycles.items():
        tree = prog.trees.get(mod)
        if tree is None:
            continue
        funcs = {}

        def visit(node, prefix):
            for ch in ast.iter_child_nodes(node):
                if isinstance(ch, ast.ClassDef):
                    visit(ch, prefix + ch.name + ".")
                elif isinstance(ch, (ast.FunctionDef, ast.AsyncFunctionDef)):
                    funcs[prefix + ch.name] = ch
                    visit(ch, prefix + ch.name + ".<locals>.")
                else:
                    visit(ch, prefix)
        visit(tree, "")
        short = {n.split(".")[-1] for n in names}
        for qn in names:
            fn = funcs.get(qn)
            if fn is None:
                continue
            bad = []

            def calls_cycle(n):
                for c in ast.walk(n):
                    if isinstance(c, ast.Call):
                        f = c.func
                        nm = f.id if isinstance(f, ast.Name) else (f.attr if isinstance(f, ast.Attribute) else None)
                        if nm in short:
                            return c
                return None
            for t_ in ast.walk(fn):
                if isinstance(t_, ast.Try):
                    c = None
                    for st in t_.body:
                        c = c or calls_cycle(st)
                    if c is None:
                        continue
                    for h in t_.handlers:
                        hname = ast.unparse(h.type) if h.type is not None else "BaseException"
                        only_raises = all(isinstance(st, ast.Raise) for st in h.body)
                        if hname.endswith("RecursionError") and only_raises:
                            continue
                        if not only_raises:
                            bad.append(f"line {h.lineno}: `except {hname}` around a call of {ast.unparse(c.func)} goes on after the failure")
            out.append({"name": f"cost/no-retry-after-failure/{mod}:{qn}", "rule": "no-retry-after-failure", "where": f"{mod}:{qn}",
                        "status": "proved" if not bad else "refuted", "detail": "; ".join(bad)})
    return out
