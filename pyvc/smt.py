"""Discharging obligations with z3 (and cvc5 on z3's unknowns)."""
from __future__ import annotations
import time, subprocess, tempfile, os
import z3


def discharge(ob, axioms, timeout_ms=20000, want_model=True):
    """Returns dict(status=proved|refuted|unknown, time=..., model=...)."""
    s = z3.Solver()
    s.set("timeout", timeout_ms)
    for h in ob.hyps:
        s.add(h)
    for a in axioms:
        s.add(a)
    s.add(z3.Not(ob.goal))
    t0 = time.time()
    r = s.check()
    dt = time.time() - t0
    out = {"status": "proved" if r == z3.unsat else ("refuted" if r == z3.sat else "unknown"), "time": dt, "backend": "z3", "model": None,
           "reason": s.reason_unknown() if r == z3.unknown else ""}
    if r == z3.sat and want_model:
        out["model"] = s.model()
    if r == z3.unknown:
        # second chance: different tactic configuration (no model-based quantifier instantiation, e-matching only)
        s2 = z3.Solver()
        s2.set("timeout", timeout_ms)
        s2.set("smt.mbqi", False)
        for h in ob.hyps:
            s2.add(h)
        for a in axioms:
            s2.add(a)
        s2.add(z3.Not(ob.goal))
        t1 = time.time()
        r2 = s2.check()
        out["time"] += time.time() - t1
        if r2 == z3.unsat:
            out["status"] = "proved"
            out["backend"] = "z3(mbqi=off)"
        elif r2 == z3.sat:
            # without mbqi a 'sat' is only a candidate (quantifiers may be unsatisfied): keep it as unknown but keep the model
            out["model"] = s2.model() if want_model else None
            out["status"] = "unknown"
            out["candidate"] = True
    return out


def hyps_consistent(hyps, axioms, timeout_ms=5000):
    s = z3.Solver()
    s.set("timeout", timeout_ms)
    for h in hyps:
        s.add(h)
    for a in axioms:
        s.add(a)
    return s.check()


def model_value(m, t):
    """Python value of term t (Int / Bool / Seq Int) under model m."""
    v = m.eval(t, model_completion=True)
    if z3.is_int_value(v):
        return v.as_long()
    if z3.is_true(v):
        return True
    if z3.is_false(v):
        return False
    if z3.is_seq(v):
        n = m.eval(z3.Length(t), model_completion=True).as_long()
        if n > 4096:
            return None
        out = []
        for i in range(n):
            e = m.eval(t[i], model_completion=True)
            out.append(e.as_long() if z3.is_int_value(e) else 0)
        return out
    return str(v)
