"""Discharging obligations with z3.

An obligation is  hyps /\\ axioms ==> goal.  Proving it from a *subset* of the hypotheses is sound, and z3 is far more
reliable on small contexts, so the goal is first attempted with only the hypotheses that share symbols with it
(relevance closure of depth 1, then 2), and only then with everything.
"""
from __future__ import annotations
import time
import z3

_sym_cache = {}


def symbols(f):
    """Names of the uninterpreted constants / functions occurring in f."""
    k = f.get_id()
    if k in _sym_cache:
        return _sym_cache[k][1]
    out = set()
    seen = set()
    stack = [f]
    while stack:
        t = stack.pop()
        tid = t.get_id()
        if tid in seen:
            continue
        seen.add(tid)
        if z3.is_quantifier(t):
            stack.append(t.body())
            continue
        if z3.is_app(t):
            d = t.decl()
            if d.kind() == z3.Z3_OP_UNINTERPRETED:
                out.add(d.name())
            stack.extend(t.children())
    _sym_cache[k] = (f, out)
    return out


def relevant(hyps, axioms, goal, depth):
    syms = set(symbols(goal))
    chosen_h = [False] * len(hyps)
    chosen_a = [False] * len(axioms)
    for _ in range(depth):
        new = set()
        for i, h in enumerate(hyps):
            if not chosen_h[i] and not z3.is_quantifier(h) and symbols(h) & syms:
                chosen_h[i] = True
                new |= symbols(h)
        for i, a in enumerate(axioms):
            if not chosen_a[i] and symbols(a) & syms:
                # an unfolding axiom is relevant when the function it defines is in play
                chosen_a[i] = True
                new |= symbols(a)
        if not (new - syms):
            break
        syms |= new
    return [h for h, c in zip(hyps, chosen_h) if c], [a for a, c in zip(axioms, chosen_a) if c]


def _check(hyps, axioms, goal, timeout_ms, mbqi=True):
    s = z3.Solver()
    s.set("timeout", int(timeout_ms))
    if not mbqi:
        s.set("smt.mbqi", False)
    for h in hyps:
        s.add(h)
    for a in axioms:
        s.add(a)
    s.add(z3.Not(goal))
    t0 = time.time()
    r = s.check()
    return r, time.time() - t0, s


def discharge(ob, axioms, timeout_ms=20000, want_model=True):
    """Returns dict(status=proved|refuted|unknown, time, backend, model)."""
    total = 0.0
    hyps = list(ob.hyps)
    if z3.is_false(ob.goal) and hyps:
        # "this path is infeasible": the contradiction involves the most recent path condition; use it as the seed of
        # the relevance closure (hyps[:-1] /\ last ==> False   is   hyps[:-1] ==> not last)
        class _O:
            pass
        o2 = _O()
        o2.hyps, o2.goal = hyps[:-1], z3.Not(hyps[-1])
        # quick attempt at a counter-model: the hypotheses and definitions connected to the last path condition through
        # shared symbols (fixpoint) are usually few - e.g. an early `raise` before any buffer is touched; a model of that
        # component, completed with defaults for everything else, is then *confirmed* on the full set with the inputs pinned
        try:
            comp_h, comp_a = relevant(o2.hyps, axioms, o2.goal, 50)
            if len(comp_h) + len(comp_a) < len(o2.hyps) + len(axioms):
                rc, dtc, sc = _check(comp_h, comp_a, o2.goal, 5000)
                if rc == z3.sat:
                    mc = sc.model()
                    pins = []
                    for c in constants_of(hyps):
                        vv = mc.eval(c, model_completion=True)
                        if z3.is_int_value(vv) or z3.is_true(vv) or z3.is_false(vv) or (z3.is_seq(c) and z3.is_app(vv) and not symbols(vv)):
                            pins.append(c == vv)
                    rf, dtf, sf = _check(o2.hyps + pins, axioms, o2.goal, 10000)
                    if rf == z3.sat:
                        return {"status": "refuted", "time": dtc + dtf, "backend": "z3(model of the connected component, confirmed on the full set with pinned inputs)",
                                "model": sf.model() if want_model else None, "reason": ""}
        except z3.Z3Exception:
            pass
        # a feasible path here is a finding, and finding its model takes the solver longer than refuting an infeasible one:
        # these obligations get at least the default budget whatever the contract's own (shorter) timeout says
        r = discharge(o2, axioms, max(timeout_ms, 20000), want_model)
        return r
    def stage(depth, to):
        nonlocal total
        hs, ax = relevant(hyps, axioms, ob.goal, depth)
        if len(hs) == len(hyps) and len(ax) == len(axioms):
            return None
        r, dt, _ = _check(hs, ax, ob.goal, to)
        total += dt
        if r == z3.unsat:
            return {"status": "proved", "time": total, "backend": f"z3(relevant depth {depth}: {len(hs)}/{len(hyps)} hyps)", "model": None, "reason": ""}
        return None

    # stage 0: only the hypotheses that speak about nothing but the goal's own symbols (no definitions): pure
    # sequence / arithmetic steps such as drop(a ++ b, k) == drop(a, k) ++ b are immediate there and hopeless in a
    # large context
    gs = symbols(ob.goal)
    tiny = [h for h in hyps if not z3.is_quantifier(h) and symbols(h) and symbols(h) <= gs]
    if tiny and len(tiny) < len(hyps):
        r, dt, _ = _check(tiny, [], ob.goal, min(1000, timeout_ms))
        total += dt
        if r == z3.unsat:
            return {"status": "proved", "time": total, "backend": f"z3(goal-symbol hypotheses only: {len(tiny)}/{len(hyps)})", "model": None, "reason": ""}
        if r == z3.unknown:
            # (a `sat` answer means these hypotheses alone do not suffice: no point asking the other solvers)
            ext = external_portfolio(tiny, [], ob.goal, min(timeout_ms, 3000))
            total += ext["time"]
            if ext["status"] == "proved":
                return {"status": "proved", "time": total, "backend": ext["backend"] + f" (goal-symbol hypotheses only: {len(tiny)}/{len(hyps)})", "model": None, "reason": ""}
    res = stage(1, min(1500, timeout_ms))
    if res:
        return res
    # full context, briefly: most obligations outside the arithmetic / sequence core are immediate
    r0, dt0, s0 = _check(hyps, axioms, ob.goal, min(2000, timeout_ms))
    total += dt0
    if r0 == z3.unsat:
        return {"status": "proved", "time": total, "backend": "z3", "model": None, "reason": ""}
    if r0 == z3.sat:
        return {"status": "refuted", "time": total, "backend": "z3", "model": s0.model() if want_model else None, "reason": ""}
    # portfolio: the same query as SMT-LIB text to cvc5 and to the older z3 binary (their sequence solvers succeed on
    # many queries where z3 5.x gives up, and vice versa); the first `unsat` wins
    ext = external_portfolio(hyps, axioms, ob.goal, min(timeout_ms, 30000))
    total += ext["time"]
    if ext["status"] == "proved":
        return {"status": "proved", "time": total, "backend": ext["backend"], "model": None, "reason": ""}
    res = stage(2, min(6000, timeout_ms))
    if res:
        return res
    r, dt, s = _check(hyps, axioms, ob.goal, timeout_ms)
    total += dt
    out = {"status": "proved" if r == z3.unsat else ("refuted" if r == z3.sat else "unknown"), "time": total, "backend": "z3",
           "model": None, "reason": s.reason_unknown() if r == z3.unknown else ""}
    if r == z3.sat and want_model:
        out["model"] = s.model()
    if r == z3.unknown:
        r2, dt2, s2 = _check(hyps, axioms, ob.goal, timeout_ms, mbqi=False)
        out["time"] += dt2
        if r2 == z3.unsat:
            out["status"] = "proved"
            out["backend"] = "z3(mbqi=off)"
        elif r2 == z3.sat:
            # without mbqi 'sat' is only a candidate (quantified hypotheses may be violated): stays unknown, model kept
            out["model"] = s2.model() if want_model else None
            out["candidate"] = True
            # confirm the candidate on the *full* hypothesis set: pin the scalar / sequence constants to the candidate's
            # values, which leaves a nearly ground problem; a `sat` answer there is a genuine counter-model
            try:
                m2 = s2.model()
                pins = []
                for c in constants_of(hyps + [ob.goal]):
                    v = m2.eval(c, model_completion=True)
                    if z3.is_int_value(v) or z3.is_true(v) or z3.is_false(v) or (z3.is_seq(c) and z3.is_app(v) and not symbols(v)):
                        pins.append(c == v)
                r3, dt3, s3 = _check(hyps + pins, axioms, ob.goal, min(8000, timeout_ms))
                out["time"] += dt3
                if r3 == z3.sat:
                    out["status"] = "refuted"
                    out["backend"] = "z3(candidate from mbqi=off, confirmed with quantifiers on pinned inputs)"
                    out["model"] = s3.model() if want_model else None
                    out.pop("candidate", None)
            except z3.Z3Exception:
                pass
    return out


def constants_of(fs):
    """0-ary uninterpreted constants of sort Int / Bool / Seq occurring in the formulas."""
    out, seen = {}, set()
    stack = list(fs)
    while stack:
        t = stack.pop()
        tid = t.get_id()
        if tid in seen:
            continue
        seen.add(tid)
        if z3.is_quantifier(t):
            stack.append(t.body())
            continue
        if z3.is_app(t):
            d = t.decl()
            if d.kind() == z3.Z3_OP_UNINTERPRETED and d.arity() == 0 and (z3.is_int(t) or z3.is_bool(t) or z3.is_seq(t)):
                out[d.name()] = t
            elif d.kind() == z3.Z3_OP_UNINTERPRETED and d.arity() >= 1 and (z3.is_int(t) or z3.is_bool(t)) and d.name().startswith("fld_") \
                    and all(z3.is_app(c) and c.num_args() == 0 for c in t.children()):
                out[t.sexpr()] = t          # a field of an input object: an input scalar as well
            stack.extend(t.children())
    return list(out.values())


EXTERNAL = [("cvc5-1.0.3", ["/usr/bin/cvc5", "--strings-exp", "--lang=smt2"], "--tlimit=%d"),
            ("z3-4.8.12", ["/usr/bin/z3", "-smt2"], "-T:%d")]


def external_portfolio(hyps, axioms, goal, timeout_ms):
    import subprocess, tempfile, os
    t0 = time.time()
    s = z3.Solver()
    for h in hyps:
        s.add(h)
    for a in axioms:
        s.add(a)
    s.add(z3.Not(goal))
    try:
        text = "(set-logic ALL)\n" + s.to_smt2()
    except Exception as e:
        return {"status": "unknown", "time": time.time() - t0, "backend": "", "error": str(e)}
    fd, path = tempfile.mkstemp(suffix=".smt2", prefix="pyvc_")
    os.write(fd, text.encode())
    os.close(fd)
    procs = []
    try:
        for name, cmd, tl in EXTERNAL:
            if not os.path.exists(cmd[0]):
                continue
            arg = tl % (timeout_ms if "tlimit" in tl else max(1, timeout_ms // 1000))
            procs.append((name, subprocess.Popen(cmd + [arg, path], stdout=subprocess.PIPE, stderr=subprocess.DEVNULL, text=True)))
        deadline = time.time() + timeout_ms / 1000.0 + 2
        status, backend = "unknown", ""
        pending = list(procs)
        while pending and time.time() < deadline and status != "proved":
            for name, pr in list(pending):
                if pr.poll() is not None:
                    out = (pr.stdout.read() or "").strip().split("\n")[0].strip()
                    pending.remove((name, pr))
                    if out == "unsat":
                        status, backend = "proved", name
                        break
            time.sleep(0.02)
        for name, pr in procs:
            if pr.poll() is None:
                pr.kill()
        return {"status": status, "time": time.time() - t0, "backend": backend}
    finally:
        try:
            os.unlink(path)
        except OSError:
            pass


def hyps_consistent(hyps, axioms, timeout_ms=5000):
    s = z3.Solver()
    s.set("timeout", timeout_ms)
    for h in hyps:
        s.add(h)
    for a in axioms:
        s.add(a)
    return s.check()


def model_value(m, t):
    """Python value of term t (Int / Bool / Seq Int) under model m."""
    v = m.eval(t, model_completion=True)
    if z3.is_int_value(v):
        return v.as_long()
    if z3.is_true(v):
        return True
    if z3.is_false(v):
        return False
    if z3.is_seq(v):
        n = m.eval(z3.Length(t), model_completion=True).as_long()
        if n > 4096:
            return None
        out = []
        for i in range(n):
            e = m.eval(t[i], model_completion=True)
            out.append(e.as_long() if z3.is_int_value(e) else 0)
        return out
    return str(v)
