"""Calls: builtins (modelled), methods of builtin types, user functions (by contract or inlined), spec functions."""
from __future__ import annotations
import ast
import z3
from .values import *
from .symexec import Unsupported, NeedFork, Raised, Obligation, Path, Contract, parse_expr, on_raise_clauses

MAX_INLINE_DEPTH = 12


class CallMixin:
    spec_function_names = set()

    # ------------------------------------------------------------------ entry
    def eval_call(self, e, p, module):
        f = e.func
        # spec-only forms
        if isinstance(f, ast.Name):
            if f.id == "old":
                q = Path()
                q.env = p.old if p.old is not None else p.env
                q.ghost = p.ghost
                q.spec = True
                q.pc = p.pc
                q.old = p.old
                return self.ev(e.args[0], q, module)
            if f.id == "forall":
                return self.spec_forall(e, p, module)
            if f.id == "exists":
                return self.spec_forall(e, p, module, exists=True)
            if f.id == "implies":
                a = self.truth(self.ev(e.args[0], p, module), p)
                if z3.is_false(z3.simplify(a)):
                    return VBool(True)
                if not z3.is_true(z3.simplify(a)) and self.implied(p, z3.Not(a)):
                    return VBool(True)          # antecedent excluded by the facts of this path: the consequent may not even be defined
                # the consequent is evaluated under the antecedent (Optional values tested by it are narrowed)
                n0 = len(p.pc)
                p.pc.append(a)
                try:
                    b = self.truth(self.ev(e.args[1], p, module), p)
                finally:
                    learnt = p.pc[n0 + 1:]
                    del p.pc[n0:]
                    p.pc.extend(z3.Implies(a, f_) for f_ in learnt)
                return VBool(z3.Implies(a, b))
            if f.id == "ite":
                c = self.truth(self.ev(e.args[0], p, module), p)
                a = self.ev(e.args[1], p, module)
                b = self.ev(e.args[2], p, module)
                m = self.merge(c, a, b)
                if m is None:
                    raise Unsupported("ite over unmergeable values")
                return m
            if f.id in self.spec_function_names and f.id not in p.env:
                args = [self.narrow(self.ev(a, p, module), p) for a in e.args]
                return self.spec_apply(f.id, args, p)
        fv = self.ev(f, p, module)
        args = []
        for a in e.args:
            if isinstance(a, ast.Starred):
                raise Unsupported("*args")
            args.append(self.ev(a, p, module))
        kwargs = {}
        for kw in e.keywords:
            if kw.arg is None:
                raise Unsupported("**kwargs")
            kwargs[kw.arg] = self.ev(kw.value, p, module)
        return self.apply(fv, args, kwargs, p, module, e)

    def narrow(self, v, p):
        """An Optional value on a path (or under an antecedent) that excludes None is the value itself."""
        if isinstance(v, VOpt) and self.implied(p, z3.Not(v.isnone)):
            return v.val
        return v

    def apply(self, fv, args, kwargs, p, module, node):
        if isinstance(fv, VFunc):
            if fv.kind == "builtin":
                return self.call_builtin(fv.target, args, kwargs, p, module, node, fv.recv)
            if fv.kind == "method":
                return self.call_method(fv.recv, fv.target, args, kwargs, p, module, node)
            if fv.kind == "user":
                fi = fv.target
                if fv.recv is not None:
                    args = [fv.recv] + args
                return self.call_user(fi, args, kwargs, p, node)
            if fv.kind == "lambda":
                lam, lmod, captured = fv.target
                names = [a.arg for a in lam.args.args]
                if kwargs or len(args) != len(names):
                    raise Unsupported("lambda call shape")
                saved = p.env
                p.env = dict(captured)
                p.env.update(zip(names, args))
                try:
                    return self.ev(lam.body, p, lmod)
                finally:
                    p.env = saved
        if isinstance(fv, VClass):
            return self.construct(fv.cls, args, kwargs, p, module, node)
        if isinstance(fv, VOpaque):
            raise Unsupported(f"call of opaque {fv.what}")
        if isinstance(fv, (VSym, VInt, VBool, VStr, VBytes, VNone, VList, VTuple, VSet)) or \
                (isinstance(fv, VObj) and self.prog.find_method(fv.cls, "__call__") is None):
            # calling a value that is not callable (e.g. a local that shadows a builtin): TypeError
            raise Raised(VExc("TypeError", {"lineno": getattr(node, "lineno", 0), "implicit": True}))
        raise Unsupported(f"call of {fv!r}")

    # ------------------------------------------------------------------ spec functions
    def spec_forall(self, e, p, module, exists=False):
        var = e.args[0].id
        lo = self.as_int(self.ev(e.args[1], p, module))
        hi = self.as_int(self.ev(e.args[2], p, module))
        q = Path()
        q.env = dict(p.env)
        q.ghost = p.ghost
        q.old = p.old
        q.spec = True
        q.pc = p.pc
        bv = z3.Int(f"{var}!q{len(self.axioms)}_{id(e) % 9973}")
        q.env[var] = VInt(bv)
        body = self.truth(self.ev(e.args[3], q, module), q)
        rng = z3.And(lo <= bv, bv < hi)
        if exists:
            return VBool(z3.Exists([bv], z3.And(rng, body)))
        return VBool(z3.ForAll([bv], z3.Implies(rng, body)))

    def spec_info(self, name):
        for mod in ("specs.ber", "specs.sess", "specs.ldapmsg"):
            r = self.prog.globals.get(mod, {}).get(name)
            if r and r[0] == "func":
                return r[1]
        return None

    def canon(self, t):
        """Canonical form of sequence terms (right-nested concatenation without empty parts) so that equal arguments
        of specification functions are syntactically equal."""
        if z3.is_seq(t) and z3.is_app_of(t, z3.Z3_OP_SEQ_CONCAT):
            return self.flat_concat(t)
        return t

    def sort_of_ann(self, ann):
        t = self.ann_text(ann)
        return {"int": I, "bool": B, "bytes": S, "str": Str, "obj": Obj, "intset": IntSet, "seqobj": SeqObj,
                "seqstr": SeqStr, "seqbytes": SeqSeq}.get(t)

    def term_of(self, v, sort=None):
        if isinstance(v, VInt):
            return v.t
        if isinstance(v, VBool):
            return v.t if sort is None or sort == B else z3.If(v.t, z3.IntVal(1), z3.IntVal(0))
        if isinstance(v, VBytes):
            return v.t
        if isinstance(v, VStr):
            return self.str_term(v)
        if isinstance(v, VSym):
            return v.t
        if isinstance(v, VSet):
            return v.t
        if isinstance(v, VList) and v.t is not None:
            return v.t
        raise Unsupported(f"term of {v!r}")

    def wrap_term(self, t):
        s = t.sort()
        if s == I:
            return VInt(t)
        if s == B:
            return VBool(t)
        if s == S:
            return VBytes(t, "bytes")
        if s == Str:
            return VStr(t)
        if s == Obj:
            return VSym(t, None)
        if s == IntSet:
            return VSet(t)
        if s == SeqObj:
            return VList(t=t, elem="obj")
        if s == SeqStr:
            return VList(t=t, elem="str")
        if s == SeqSeq:
            return VList(t=t, elem="bytes")
        raise Unsupported(f"wrap {s}")

    def spec_apply(self, name, args, p, fuel=None):
        """Apply a spec function: non-recursive ones are expanded; recursive ones become uninterpreted functions with
        explicitly instantiated one-step unfolding axioms (fuel)."""
        if name in SPEC_PRIMS:
            return SPEC_PRIMS[name](self, args, p)
        fi = self.spec_info(name)
        if fi is None:
            raise Unsupported(f"spec function {name}")
        params = fi.params()
        body = [s for s in fi.node.body if not (isinstance(s, ast.Expr) and isinstance(s.value, ast.Constant))]
        decos = fi.decorators
        if any(d.startswith("uninterpreted") for d in decos):
            sorts = [self.sort_of_ann(a) for _, a, _ in params] + [self.sort_of_ann(fi.node.returns)]
            uf = self.func(name, *sorts)
            ts = []
            for a, srt in zip(args, sorts):
                if isinstance(a, VObj) and srt == Obj:
                    a = self.reify_cached(a, p)
                ts.append(self.term_of(a, srt))
            return self.wrap_term(uf(*ts))
        if len(body) != 1 or not isinstance(body[0], ast.Return):
            raise Unsupported(f"spec function {name} must be a single return expression")
        expr = body[0].value
        recursive = any(isinstance(n, ast.Call) and isinstance(n.func, ast.Name) and n.func.id == name for n in ast.walk(expr))
        q = Path()
        q.spec = True
        q.pc = p.pc if p is not None else []
        sorts = [self.sort_of_ann(a) for _, a, _ in params]
        rs = self.sort_of_ann(fi.node.returns)
        if not recursive:
            if None in sorts or rs is None or any(isinstance(a, (VObj, VTuple, VOpt, VNone)) for a in args):
                q.env = {pn: a for (pn, _, _), a in zip(params, args)}
                return self.ev(expr, q, fi.module)
            # a defined function: one named application + its definition instantiated at these arguments (keeps terms
            # small: the definition is not expanded in place)
            uf = self.func(name, *(sorts + [rs]))
            terms = [self.canon(self.term_of(a, s_)) for a, s_ in zip(args, sorts)]
            app = uf(*terms)
            key = app.sexpr()
            if key not in self.axioms:
                self.axioms[key] = z3.BoolVal(True)
                q.env = {pn: (VBytes(t, "bytes") if isinstance(a, VBytes) else self.wrap_term(t)) for (pn, _, _), a, t in zip(params, args, terms)}
                q.pc = []          # definitional instances do not depend on path facts
                bodyv = self.ev(expr, q, fi.module)
                bt = self.term_of(bodyv, rs) if not (rs == B and isinstance(bodyv, VBool)) else bodyv.t
                self.axioms[key] = (app == bt)
            return self.wrap_term(app)
        if None in sorts or rs is None:
            raise Unsupported(f"spec function {name}: parameter/return annotations must be int|bool|bytes|str|obj")
        uf = self.func(name, *(sorts + [rs]))
        terms = [self.canon(self.term_of(a, s)) for a, s in zip(args, sorts)]
        app = uf(*terms)
        if fuel is None:
            fuel = getattr(self, "cur_fuel", 1)
            if getattr(self, "unfold_depth", 0) == 0 and any(t.sort() == I for t in terms) and \
                    all(z3.is_int_value(z3.simplify(t)) for t in terms if t.sort() == I):
                fuel = max(fuel, 4)
        key = app.sexpr()
        if fuel > 0 and key not in self.axioms:
            self.axioms[key] = z3.BoolVal(True)      # placeholder: cut recursion on the same application
            save = getattr(self, "cur_fuel", 1)
            self.cur_fuel = fuel - 1
            self.unfold_depth = getattr(self, "unfold_depth", 0) + 1
            try:
                q.env = {pn: self.wrap_term(t) if not isinstance(a, VBytes) else VBytes(t, "bytes")
                         for (pn, _, _), a, t in zip(params, args, terms)}
                bodyv = self.ev(expr, q, fi.module)
            finally:
                self.cur_fuel = save
                self.unfold_depth -= 1
            self.axioms[key] = app == self.term_of(bodyv, rs)
        return self.wrap_term(app)

    # ------------------------------------------------------------------ builtins
    def call_builtin(self, name, args, kwargs, p, module, node, recv=None):
        ln = getattr(node, "lineno", 0)
        if name == "len":
            v = self.narrow(args[0], p)
            if isinstance(v, VSet):
                raise Unsupported("len(set)")
            if isinstance(v, VStr):
                if v.lit is not None:
                    return VInt(len(v.lit))
                return VInt(self.func("str_len", Str, I)(v.t))
            return VInt(self.seq_len(v))
        if name == "bool":
            return VBool(self.truth(args[0], p)) if args else VBool(False)
        if name == "int":
            v = args[0]
            if isinstance(v, (VInt, VBool)):
                return VInt(self.as_int(v))
            raise Unsupported("int() of non-int")
        if name in ("bytes", "bytearray", "memoryview"):
            if not args:
                return VBytes(z3.Empty(S), name)
            v = args[0]
            if isinstance(v, VBytes):
                return VBytes(v.t, name)
            if isinstance(v, VList) and v.items is not None:
                ts = []
                for x in v.items:
                    xi = self.as_int(x)
                    self.may_raise(p, z3.Or(xi < 0, xi > 255), "ValueError", ln)
                    ts.append(z3.Unit(xi))
                t = z3.Empty(S) if not ts else (ts[0] if len(ts) == 1 else z3.Concat(*ts))
                return VBytes(t, name)
            raise Unsupported(f"{name}({v!r})")
        if name == "isinstance":
            return VBool(self.isinstance_term(args[0], args[1], p))
        if name == "chr":
            c = self.as_int(args[0])
            return VStr(self.func("chr", I, Str)(c))
        if name == "struct.unpack":
            fmt, data = args
            if not (isinstance(fmt, VStr) and fmt.lit == "B"):
                raise Unsupported("struct.unpack format")
            self.may_raise(p, z3.Length(data.t) != 1, "struct.error", ln)
            return VTuple([self.index_value(data, VInt(0), p, node)])
        if name == "set":
            if args:
                raise Unsupported("set(iterable)")
            return VSet(z3.K(I, z3.BoolVal(False)))
        if name == "list":
            if not args:
                return VList(items=[])
            if isinstance(args[0], VList):
                return VList(items=list(args[0].items)) if args[0].items is not None else VList(t=args[0].t, elem=args[0].elem)
            raise Unsupported("list(x)")
        if name == "type":
            v = args[0]
            if isinstance(v, VObj):
                return VClass(v.cls)
            return VOpaque("type")
        if name == "super":
            fi = self.cur_fi_stack[-1]
            recv = p.env.get("self") or p.env.get("cls")
            if fi.cls is None or recv is None:
                raise Unsupported("super() outside method")
            return VFunc("super", fi.cls, recv)
        if name == "object.__init__":
            return NONE
        if name == "object.__setattr__":
            obj, attr, val = args
            if isinstance(obj, VObj):
                obj.fields[attr.lit] = val
                return NONE
            if isinstance(obj, VSym):
                return self.sym_setattr(obj, attr.lit, val, p)
            raise Unsupported("object.__setattr__")
        if name == "next":
            return self.call_next(args, p, module, node)
        if name == "str":
            return VStr(fresh(Str, "str"))
        if name == "repr" or name == "hex" or name == "format":
            return VStr(fresh(Str, "repr"))
        if name in ("ValueError", "TypeError", "NotImplementedError", "IndexError", "KeyError", "RecursionError", "Exception"):
            return VExc(name, {"msg": args[0] if args else NONE})
        if name == "dataclasses.field":
            return VOpaque("field")
        if name == "enum.auto":
            return VOpaque("auto")
        if name == "print":
            return NONE
        if name in ("min", "max"):
            a, b = self.as_int(args[0]), self.as_int(args[1])
            return VInt(z3.If(a <= b, a, b) if name == "min" else z3.If(a >= b, a, b))
        if name == "abs":
            a = self.as_int(args[0])
            return VInt(z3.If(a >= 0, a, -a))
        if name == "hasattr":
            return VBool(fresh(B, "hasattr"))
        if name == "re.compile":
            return VOpaque("regex")     # the pattern's language is not modelled here (decided by the automata stage of the text checks)
        raise Unsupported(f"builtin {name}")

    def sym_setattr(self, obj, attr, val, p):
        """object.__setattr__ on a frozen symbolic object: functional update through an uninterpreted function."""
        if isinstance(val, (VNone, VOpt)):
            new = fresh(Obj, f"upd_{attr}")         # optional value: the updated object is some object that reads back `val`
        else:
            upd = self.func(f"upd_{attr}", Obj, val_sort(self, val), Obj)
            new = upd(obj.t, self.term_of(val))
        cls_of = self.func("class_of", Obj, I)
        p.pc.append(cls_of(new) == cls_of(obj.t))
        # the updated field reads back; the frame for other fields is given by the sidecar (sym_frames)
        fv = self.sym_getattr(VSym(new, obj.static_cls), attr, p, obj.static_cls.module if obj.static_cls else "_messages")
        p.pc.append(self.eq(fv, val, p))
        for other, sort_name in self.sym_frames.get(attr, []):
            f = self.uf.get(other)
            if f is not None:
                p.pc.append(f(new) == f(obj.t))
        # aliasing: every name bound to the old reference now denotes the updated object (same Python object)
        for k, v in list(p.env.items()):
            if isinstance(v, VSym) and v.t.eq(obj.t):
                p.env[k] = VSym(new, v.static_cls)
        return NONE

    sym_frames = {}

    def isinstance_term(self, v, cls, p):
        classes = []
        if isinstance(cls, VTuple):
            classes = [c.cls if isinstance(c, VClass) else c for c in cls.items]
        elif isinstance(cls, VClass):
            classes = [cls.cls]
        elif isinstance(cls, VFunc) and cls.kind == "builtin":
            classes = [cls.target]
        else:
            raise Unsupported(f"isinstance against {cls!r}")
        if isinstance(v, VOpt):
            return z3.And(z3.Not(v.isnone), self.isinstance_term(v.val, cls, p))
        if isinstance(v, VNone):
            return z3.BoolVal(False)
        if isinstance(v, VObj):
            return z3.BoolVal(any(isinstance(c, type(v.cls)) and self.prog.is_subclass(v.cls, c) for c in classes))
        if isinstance(v, VSym):
            cls_of = self.func("class_of", Obj, I)
            if v.static_cls is not None:
                # the declared class bounds the dynamic class (closed world): decide statically where the hierarchy allows
                mine = set(c.key for c in self.prog.subclasses(v.static_cls))
                theirs = set()
                for c in classes:
                    if not isinstance(c, str):
                        theirs |= set(sc.key for sc in self.prog.subclasses(c))
                if not (mine & theirs):
                    return z3.BoolVal(False)
                if mine <= theirs:
                    return z3.BoolVal(True)
            ids = []
            for c in classes:
                if isinstance(c, str):
                    continue
                for sc in self.prog.subclasses(c):
                    ids.append(self.class_id(sc))
            if not ids:
                return z3.BoolVal(False)
            return z3.Or(*[cls_of(v.t) == i for i in sorted(set(ids))])
        if isinstance(v, VInt):
            return z3.BoolVal(any(c == "int" or (not isinstance(c, str) and c.kind == "enum") for c in classes))
        if isinstance(v, VBool):
            return z3.BoolVal(any(c in ("int", "bool") for c in classes))
        if isinstance(v, VStr):
            return z3.BoolVal(any(c == "str" for c in classes))
        if isinstance(v, VBytes):
            return z3.BoolVal(any(c == v.kind for c in classes))
        if isinstance(v, VExc):
            return z3.BoolVal(any(self.prog.exc_is(v.cls, c if isinstance(c, str) else c.name) for c in classes))
        raise Unsupported(f"isinstance({v!r})")

    def dict_lookup(self, d, key, p, default, ln):
        """Lookup in a constant-key dictionary: one path per key that the symbolic key may equal, one for 'absent'
        (default, or KeyError when default is None-the-python-object, i.e. subscript)."""
        conds = []
        for k, _ in d.items:
            if isinstance(k, int) and isinstance(key, (VInt, VBool)):
                conds.append(self.as_int(key) == k)
            elif isinstance(k, str) and isinstance(key, VStr):
                if key.lit is None:
                    raise Unsupported("dictionary lookup with a symbolic string key")
                conds.append(z3.BoolVal(key.lit == k))
            else:
                conds.append(z3.BoolVal(False))
        absent = z3.Not(z3.Or(*conds)) if conds else z3.BoolVal(True)
        i = self.choose(p, conds + [absent])
        if i < len(d.items):
            return d.items[i][1]
        if default is None:
            raise Raised(VExc("KeyError", {"lineno": ln, "implicit": True}))
        return default

    def call_next(self, args, p, module, node):
        """next((EXPR for x in LIST if COND...), default) with LIST a concrete spine: first match wins (forks on COND)."""
        g = args[0]
        if not (isinstance(g, VOpaque) and isinstance(g.what, tuple) and g.what[0] == "genexp"):
            raise Unsupported("next() of a non-generator-expression")
        ge = g.what[1]
        if len(ge.generators) != 1 or not isinstance(ge.generators[0].target, ast.Name) or ge.generators[0].is_async:
            raise Unsupported("next(generator) shape")
        comp = ge.generators[0]
        seq = self.ev(comp.iter, p, module)
        if not (isinstance(seq, (VList, VTuple)) and seq.items is not None):
            raise Unsupported("next(generator) over a symbolic sequence")
        name = comp.target.id
        saved = p.env.get(name, None)
        had = name in p.env
        try:
            for item in seq.items:
                p.env[name] = item
                cond = z3.BoolVal(True)
                for test in comp.ifs:
                    cond = z3.And(cond, self.truth(self.ev(test, p, module), p))
                cond = z3.simplify(cond) if not cond.num_args() else cond
                if z3.is_false(cond):
                    continue
                if z3.is_true(cond) or self.choose(p, [cond, z3.Not(cond)]) == 0:
                    return self.ev(ge.elt, p, module)
        finally:
            if had:
                p.env[name] = saved
            else:
                p.env.pop(name, None)
        if len(args) > 1:
            return args[1]
        raise Raised(VExc("StopIteration", {"lineno": getattr(node, "lineno", 0), "implicit": True}))

    # ------------------------------------------------------------------ methods of builtin types
    def call_method(self, recv, name, args, kwargs, p, module, node):
        ln = getattr(node, "lineno", 0)
        if isinstance(recv, VOpaque) and recv.what == "regex":
            if name in ("match", "fullmatch", "search"):
                # total on str / bytes subjects; a match object or None - both outcomes are followed
                return VOpt(fresh(B, "nomatch"), VOpaque("match"))
            raise Unsupported(f"regex.{name}")
        if isinstance(recv, VDict):
            if name != "get" or not args:
                raise Unsupported(f"dict.{name}")
            default = args[1] if len(args) > 1 else NONE
            return self.dict_lookup(recv, args[0], p, default, ln)
        if isinstance(recv, VBytes):
            if name == "tobytes":
                return VBytes(recv.t, "bytes")
            if name in ("append", "extend", "reverse"):
                raise Unsupported("mutating bytearray method must be a statement on a name/attribute")
            if name == "decode":
                return self.decode_bytes(recv, args, kwargs, p, ln)
            if name == "hex":
                return VStr(fresh(Str, "hex"))
            if name == "split" and len(args) == 1:
                t = fresh(SeqSeq, "split")
                p.pc.append(z3.Length(t) >= 1)      # bytes.split(sep) returns at least one piece
                return VList(t=t, elem="bytes")
            raise Unsupported(f"bytes.{name}")
        if isinstance(recv, VStr):
            if name == "encode":
                return self.encode_str(recv, args, kwargs, p, ln)
            if name in ("format", "strip", "lower", "upper", "lstrip", "rstrip"):
                return VStr(fresh(Str, name))
            if name in ("startswith", "endswith", "isdigit", "isalpha", "isspace"):
                return VBool(fresh(B, name))          # total predicates on text; their value is not modelled
            if name == "split" and len(args) == 1:
                t = fresh(SeqStr, "split")
                p.pc.append(z3.Length(t) >= 1)      # str.split(sep) returns at least one piece
                return VList(t=t, elem="str")
            raise Unsupported(f"str.{name}")
        if isinstance(recv, VList):
            if name == "copy":
                return VList(items=list(recv.items)) if recv.items is not None else VList(t=recv.t, elem=recv.elem)
            raise Unsupported(f"list.{name} as expression")
        if isinstance(recv, VSet):
            if name == "copy":
                return VSet(recv.t)
            raise Unsupported(f"set.{name} as expression")
        raise Unsupported(f"method {name} on {recv!r}")

    def encode_str(self, recv, args, kwargs, p, ln):
        """str.encode(enc): total for well-formed text (A-UTF8); the result is utf8(s), an uninterpreted function."""
        utf8 = self.func("utf8", Str, S)
        enc_ok = self.func("encodable", Str, B)
        s = self.str_term(recv)
        if recv.lit is None:
            try:
                self.may_raise(p, z3.Not(enc_ok(s)), "UnicodeEncodeError", ln)
            except Raised as r_:
                # UnicodeEncodeError.start / .end delimit the offending characters inside the text
                st_, en_ = fresh(I, "ue_start"), fresh(I, "ue_end")
                p.pc.append(z3.And(0 <= st_, st_ < en_, en_ <= self.func("str_len", Str, I)(s)))
                r_.exc.fields["start"] = VInt(st_)
                r_.exc.fields["end"] = VInt(en_)
                raise
        r = VBytes(utf8(s), "bytes")
        self.note_bytes(r.t, p)
        if recv.lit is not None:
            try:
                b = recv.lit.encode("utf-8")
                lit = self.ev_Constant(ast.Constant(b), p, None)
                p.pc.append(r.t == lit.t)
            except UnicodeEncodeError:
                pass
        return r

    def decode_bytes(self, recv, args, kwargs, p, ln):
        unutf8 = self.func("unutf8", S, Str)
        wf = self.func("wf_utf8", S, B)
        self.may_raise(p, z3.Not(wf(recv.t)), "UnicodeDecodeError", ln)
        utf8 = self.func("utf8", Str, S)
        enc_ok = self.func("encodable", Str, B)
        s = unutf8(recv.t)
        # A-UTF8: decoding well-formed UTF-8 gives text that encodes back to the same octets
        p.pc.append(utf8(s) == recv.t)
        p.pc.append(enc_ok(s))
        p.pc.append(self.func("str_nonempty", Str, B)(s) == (z3.Length(recv.t) > 0))
        return VStr(s)

    def note_bytes(self, t, p):
        q = z3.Int("q!r")
        p.pc.append(z3.ForAll([q], z3.Implies(z3.And(0 <= q, q < z3.Length(t)), z3.And(0 <= t[q], t[q] <= 255))))

    # ------------------------------------------------------------------ constructors
    def construct(self, ci, args, kwargs, p, module, node):
        ln = getattr(node, "lineno", 0)
        if ci.kind == "enum":
            v = args[0]
            if ci.enum_mixin == "str":
                raise Unsupported("str enum conversion")
            x = self.as_int(v)
            members = sorted(set(val for val in ci.enum_members.values() if isinstance(val, int)))
            if self.prog.find_method(ci, "_missing_") is None:
                inside = z3.Or(*[x == m for m in members])
                self.may_raise(p, z3.Not(inside), "ValueError", ln)
            return VInt(x)
        if ci.kind == "exception":
            exc = VExc(ci.name, {"msg": args[0] if args else NONE})
            init = self.prog.find_method(ci, "__init__")
            if init is not None:
                names = [pn for pn, _, _ in init.params()][1:]
                defaults = {pn: d for pn, _, d in init.params()}
                for i, a in enumerate(args):
                    exc.fields[names[i]] = a
                for k, v in kwargs.items():
                    exc.fields[k] = v
                for n in names:
                    if n not in exc.fields and defaults.get(n) is not None:
                        q = Path(); q.spec = True
                        exc.fields[n] = self.ev(defaults[n], q, ci.module)
            return exc
        if ci.kind in ("namedtuple", "dataclass"):
            o = VObj(ci)
            fields = self.prog.all_fields(ci)
            init_fields = []
            for fname, fann, fdef in fields:
                noinit = isinstance(fdef, ast.Call) and any(kw.arg == "init" and isinstance(kw.value, ast.Constant) and kw.value.value is False for kw in fdef.keywords)
                if noinit:
                    # init=False fields with a default are not stored on the instance: reads fall back to the class
                    # attribute of the dynamic class (e.g. tag_number = 1 on BindResponse)
                    continue
                else:
                    init_fields.append((fname, fann, fdef))
            for (fname, fann, fdef), a in zip(init_fields, args):
                o.fields[fname] = a
            for k, v in kwargs.items():
                if k not in [f[0] for f in init_fields]:
                    raise Raised(VExc("TypeError", {"lineno": ln}))
                o.fields[k] = v
            for fname, fann, fdef in init_fields:
                if fname not in o.fields:
                    if fdef is None:
                        raise Raised(VExc("TypeError", {"lineno": ln}))
                    o.fields[fname] = self.construct_default(fdef, ci, p)
            return o
        # plain class: run __init__
        o = VObj(ci)
        init = self.prog.find_method(ci, "__init__")
        if init is not None:
            self.call_user(init, [o] + args, kwargs, p, node, force_inline=True)
        return o

    def construct_default(self, fdef, ci, p):
        if isinstance(fdef, ast.Call) and ast.unparse(fdef.func).endswith("field"):
            for kw in fdef.keywords:
                if kw.arg == "default_factory":
                    fac = kw.value
                    if isinstance(fac, ast.Name) and fac.id == "list":
                        return VList(items=[])
                    if isinstance(fac, ast.Name) and fac.id == "dict":
                        return VOpaque("dict")
                    if isinstance(fac, ast.Lambda):
                        q = Path(); q.spec = True
                        return self.ev(fac.body, q, ci.module)
                    cv = self.lookup(ast.unparse(fac), p, ci.module)
                    return self.apply(cv, [], {}, p, ci.module, fdef)
        return self.field_default(fdef, ci)

    # ------------------------------------------------------------------ user functions
    def bind_args(self, fi, args, kwargs, p):
        params = fi.params()
        bound = {}
        names = [pn for pn, _, _ in params]
        if len(args) > len(names):
            raise Unsupported(f"too many arguments for {fi.key}")
        for pn, a in zip(names, args):
            bound[pn] = a
        for k, v in kwargs.items():
            if k not in names:
                raise Unsupported(f"unknown keyword {k} for {fi.key}")
            bound[k] = v
        for pn, ann, d in params:
            if pn not in bound:
                if d is None:
                    raise Unsupported(f"missing argument {pn} for {fi.key}")
                q = Path(); q.spec = True
                bound[pn] = self.ev(d, q, fi.module)
        return bound

    def contract_for(self, fi, recv=None):
        """Contract of method fi when invoked on receiver recv.  A method inherited by (or reached through super() from)
        a different concrete class C is looked up as  module:C/Defining.method  first."""
        rc = None
        if isinstance(recv, VObj):
            rc = recv.cls
        elif isinstance(recv, VSym) and recv.static_cls is not None:
            rc = recv.static_cls
        if rc is not None and fi.cls is not None and rc is not fi.cls:
            k = f"{fi.module}:{rc.name}/{fi.cls.name}.{fi.name}"
            if k in self.contracts:
                return self.contracts[k]
        return self.contracts.get(fi.key)

    def call_user(self, fi, args, kwargs, p, node, force_inline=False):
        bound = self.bind_args(fi, args, kwargs, p)
        recv = args[0] if (fi.cls is not None and args and not fi.is_staticmethod) else None
        c = None if force_inline else self.contract_for(fi, recv)
        if c is not None and not c.inline:
            return self.call_by_contract(fi, c, bound, p, node)
        if p.spec and not (c is not None and c.pure):
            pass
        return self.inline_call(fi, bound, p, node)

    def inline_call(self, fi, bound, p, node):
        if len(self.cur_fi_stack) > MAX_INLINE_DEPTH:
            raise Unsupported(f"inline depth exceeded at {fi.key}")
        if fi in self.cur_fi_stack and not getattr(self, "allow_recursive_inline", False):
            raise Unsupported(f"recursive call of {fi.key} needs a contract")
        saved_env = p.env
        p.env = dict(bound)
        self.cur_fi_stack.append(fi)
        try:
            outs = self.exec_block(fi.node.body, p, fi.module)
        finally:
            self.cur_fi_stack.pop()
        # outcomes: choose one (fork by script)
        finals = []
        for status, q, val in outs:
            if status == "normal":
                finals.append(("return", q, NONE))
            elif status in ("return", "raise"):
                finals.append((status, q, val))
            else:
                raise Unsupported(f"{status} escaping function {fi.key}")
        if not finals:
            raise Raised(VExc("__infeasible__"))
        if len(finals) == 1:
            k = 0
        else:
            if p.pos < len(p.script):
                k = p.script[p.pos]
                p.pos += 1
            else:
                raise NeedFork(len(finals))
        status, q, val = finals[k]
        # adopt q's state into p (p is the caller's path object)
        p.pc = q.pc
        p.obls = q.obls
        p.ghost = q.ghost
        val2 = self.adopt_env(saved_env, bound, q.env, p, val if not isinstance(val, VExc) else None)
        if status == "raise":
            raise Raised(val)
        return val2 if val2 is not None else val

    def adopt_env(self, saved_env, bound, callee_env, p, val=None):
        """After an inlined call the callee path was a deep copy of the caller's objects (forks copy the heap): write the
        callee's final field values back into the caller's objects.  Copies keep the `oid` of the object they were
        copied from, so the correspondence is exact; references to copies (in written-back fields, in objects created
        by the callee and in the return value) are redirected to the caller's originals, which keeps aliasing intact
        (e.g. child._parent is the caller's writer, not a copy of it)."""
        originals, copies = {}, {}
        self.collect_objects(list(bound.values()), originals)
        self.collect_objects(list(callee_env.values()) + ([val] if val is not None else []), copies)
        p.env = saved_env
        seen = set()
        for oid, a in originals.items():
            b = copies.get(oid)
            if b is None or b is a:
                continue
            newf = {k: self.remap(v, originals, seen) for k, v in b.fields.items()}
            a.fields.clear()
            a.fields.update(newf)
        return self.remap(val, originals, seen) if val is not None else None

    def collect_objects(self, vals, out):
        stack = list(vals)
        while stack:
            v = stack.pop()
            if isinstance(v, VOpt):
                stack.append(v.val)
            elif isinstance(v, (VTuple, VList)) and v.items is not None:
                stack.extend(v.items)
            elif isinstance(v, VObj):
                if v.oid in out:
                    continue
                out[v.oid] = v
                stack.extend(v.fields.values())

    def remap(self, v, originals, seen):
        if isinstance(v, VObj):
            a = originals.get(v.oid)
            if a is not None:
                return a
            if id(v) not in seen:
                seen.add(id(v))
                for k in list(v.fields):
                    v.fields[k] = self.remap(v.fields[k], originals, seen)
            return v
        if isinstance(v, VOpt):
            nv = self.remap(v.val, originals, seen)
            return v if nv is v.val else VOpt(v.isnone, nv)
        if isinstance(v, VTuple):
            items = [self.remap(x, originals, seen) for x in v.items]
            return v if all(x is y for x, y in zip(items, v.items)) else VTuple(items)
        if isinstance(v, VList) and v.items is not None:
            items = [self.remap(x, originals, seen) for x in v.items]
            return v if all(x is y for x, y in zip(items, v.items)) else VList(items=items)
        return v

    # ------------------------------------------------------------------ call by contract
    def spec_path(self, p, env, old=None):
        q = Path()
        q.env = env
        q.ghost = p.ghost
        q.old = old
        q.spec = True
        q.pc = p.pc
        return q

    def eval_clause(self, txt, q, module):
        return self.truth(self.ev(parse_expr(txt), q, module), q)

    def snapshot(self, env):
        import copy
        return copy.deepcopy(env)

    def call_by_contract(self, fi, c, bound, p, node):
        ln = getattr(node, "lineno", 0)
        self.used_contracts.add(c.key)
        site = self.call_site_name(fi)
        # an Optional value that the path has already tested against None is passed as the value itself
        for k_, av in list(bound.items()):
            if isinstance(av, VOpt) and not p.spec:
                ann = next((self.ann_text(a) for pn, a, _ in fi.params() if pn == k_), "")
                ann = c.params.get(k_, ann)
                if "Optional" not in ann and ann not in ("", "Any", "t.Any", "object"):
                    if not self.implied(p, z3.Not(av.isnone)):
                        # None where the callee's annotation admits no None: the callee fails with TypeError / AttributeError
                        self.may_raise(p, av.isnone, "TypeError", ln)
                    bound[k_] = av.val
        pre_env = self.snapshot(bound)
        # CPython: len() of any bytes / bytearray / memoryview object is at most sys.maxsize (Py_ssize_t, 2^63 - 1)
        for av in bound.values():
            for bv in ([av] + (list(av.fields.values()) if isinstance(av, VObj) else [])):
                if isinstance(bv, VBytes) and not p.spec:
                    p.pc.append(z3.Length(bv.t) <= z3.IntVal(9223372036854775807))
        # 1. preconditions are obligations of the caller
        qpre = self.spec_path(p, dict(bound), old=pre_env)
        for i, r in enumerate(c.requires):
            goal = self.eval_clause(r, qpre, fi.module)
            if not p.spec:
                p.obls.append(Obligation(f"{self.cur_name}/call[{site}]/pre[{i}]", p.pc, goal, "call-pre", ln, self.cur_name,
                                         {"clause": r}))
            p.pc.append(goal)
        if c.decreases is not None and fi in self.cur_fi_stack[:1] and self.cur_decreases is not None and not p.spec:
            d_new = self.as_int(self.ev(parse_expr(c.decreases), qpre, fi.module))
            d_old = self.cur_decreases
            p.obls.append(Obligation(f"{self.cur_name}/call[{site}]/decreases", p.pc, z3.And(d_new >= 0, d_new < d_old),
                                     "decreases", ln, self.cur_name))
        # 2. outcomes: one per raises clause + normal
        outcomes = ["normal"] + list(c.raises.keys())
        conds = []
        for o in outcomes[1:]:
            conds.append(self.eval_clause(c.raises[o], qpre, fi.module) if c.raises[o] is not True else z3.BoolVal(True))
        live = [0] + [i + 1 for i, cnd in enumerate(conds) if (not p.spec) and self.feasible(p.pc, cnd)]
        if len(live) == 1:
            k = 0
        else:
            if p.pos < len(p.script):
                k = live[p.script[p.pos]]
                p.pos += 1
            else:
                raise NeedFork(len(live))
        # 3. frame: havoc what the callee may modify
        post_env = dict(bound)
        self.havoc_modifies(c, bound, p, exceptional=(k != 0))
        if k != 0:
            p.pc.append(conds[k - 1])
            exc = VExc(outcomes[k], {"from_contract": c.key})
            env_x = dict(bound)
            env_x["exc"] = exc
            qpost = self.spec_path(p, env_x, old=pre_env)
            self.exc_fields_from_contract(exc, c, qpost, fi.module, p)
            for cl in on_raise_clauses(c, outcomes[k], self.prog):
                p.pc.append(self.eval_clause(cl, qpost, fi.module))
            raise Raised(exc)
        # normal return
        rty = c.result or self.ann_text(fi.node.returns)
        result = self.fresh_of_type(rty, p, fi.module, name=f"{fi.name}_r") if rty not in ("None",) else NONE
        env = dict(bound)
        env["result"] = result
        for w, _ in c.witness.items():
            env[w] = self.fresh_of_type(c.witness_sorts.get(w, "bytes"), p, fi.module, name=w)
        qpost = self.spec_path(p, env, old=pre_env)
        for cl in c.ensures:
            p.pc.append(self.eval_clause(cl, qpost, fi.module))
        cur = self.contracts.get(self.cur_contract_key_stack[-1]) if getattr(self, "cur_contract_key_stack", None) else None
        if cur is not None and fi.name in cur.bind_calls and not p.spec:
            p.ghost[cur.bind_calls[fi.name]] = result
        if cur is not None and not p.spec:
            for w in c.witness:
                if f"{fi.name}.{w}" in cur.bind_witness:
                    g = cur.bind_witness[f"{fi.name}.{w}"]
                    p.ghost[g] = env[w]
                    # the k-th binding of g on this path is also available as g_k (several calls to the same callee)
                    k = 1
                    while f"{g}_{k}" in p.ghost:
                        k += 1
                    p.ghost[f"{g}_{k}"] = env[w]
                    # ... and as g_sK, K the position of this call among the calls to that callee in the source text of
                    # the function under verification (stable across paths with optional parts)
                    if len(self.cur_fi_stack) == 1 and node is not None:
                        sites = sorted([n for n in ast.walk(self.cur_fi_stack[0].node) if isinstance(n, ast.Call) and
                                        ((isinstance(n.func, ast.Attribute) and n.func.attr == fi.name) or (isinstance(n.func, ast.Name) and n.func.id == fi.name))],
                                       key=lambda n: (n.lineno, n.col_offset))
                        if node in sites:
                            p.ghost[f"{g}_s{sites.index(node) + 1}"] = env[w]
                        elif fi.name == "__exit__":
                            # the implicit __exit__ of the K-th `with` statement of the function (source order)
                            withs = sorted([n for n in ast.walk(self.cur_fi_stack[0].node) if isinstance(n, ast.With)], key=lambda n: (n.lineno, n.col_offset))
                            for k_, wn in enumerate(withs):
                                if wn.lineno == getattr(node, "lineno", -1):
                                    p.ghost[f"{g}_s{k_ + 1}"] = env[w]
        return result

    exc_field_specs = {}

    def exc_fields_from_contract(self, exc, c, qpost, module, p):
        spec = self.exc_field_specs.get(exc.cls)
        if spec:
            for fname, fty in spec.items():
                exc.fields[fname] = self.fresh_of_type(fty, p, module, name=f"exc.{fname}")

    def call_site_name(self, fi):
        n = self.call_counts.get((self.cur_name, fi.name, id(self.cur_path_tag)), None)
        return fi.name

    def havoc_modifies(self, c, bound, p, exceptional=False):
        for m in c.modifies:
            parts = m.split(".")
            obj = bound.get(parts[0])
            for a in parts[1:-1]:
                obj = obj.fields[a] if isinstance(obj, VObj) else None
            if isinstance(obj, VOpt):
                obj = obj.val
            if not isinstance(obj, VObj):
                raise Unsupported(f"modifies {m}: not an object")
            fld = parts[-1]
            cur = obj.fields[fld]
            if isinstance(cur, VObj):
                raise Unsupported(f"modifies {m}: field holds an object; name its fields")
            obj.fields[fld] = self.havoc_like(cur, p, name=fld)
            # ghost trace of a local object's field across calls: <local>_<field>_<k> is its value after the k-th call that
            # may modify it (lets postconditions speak about intermediate states step by step instead of by nested terms)
            if not p.spec and len(self.cur_fi_stack) == 1:
                for lname, lv in p.env.items():
                    if lv is obj and lname.isidentifier():
                        k = 1
                        base = f"{lname}_{fld.lstrip('_')}"
                        while f"{base}_{k}" in p.ghost:
                            k += 1
                        p.ghost[f"{base}_{k}"] = obj.fields[fld]


def val_sort(eng, v):
    return eng.term_of(v).sort()


# ---------------------------------------------------------------------- primitive spec functions (sequence library)
def _p_cat(eng, args, p):
    ts = [a.t for a in args]
    return VBytes(eng.flat_concat(*ts), "bytes")


def _p_seq1(eng, args, p):
    return VBytes(z3.Unit(eng.as_int(args[0])), "bytes")


def _p_empty(eng, args, p):
    return VBytes(z3.Empty(S), "bytes")


def _p_take(eng, args, p):
    """take(s, k) := the first k octets (all of s when k > len(s), empty when k < 0): exactly z3's extract(s, 0, k)."""
    s, k = args[0].t, eng.as_int(args[1])
    if p is not None and z3.is_app_of(s, z3.Z3_OP_SEQ_EXTRACT) and eng.implied(p, z3.And(k >= 0, k <= s.arg(2), s.arg(1) >= 0, s.arg(1) + s.arg(2) <= z3.Length(s.arg(0)))):
        return VBytes(z3.Extract(s.arg(0), s.arg(1), k), "bytes")
    return VBytes(z3.Extract(s, z3.IntVal(0), k), "bytes")


def _p_drop(eng, args, p):
    """drop(s, k) := s without its first k octets (empty when k < 0 or k > len(s)): exactly z3's extract(s, k, len(s) - k)."""
    s, k = args[0].t, eng.as_int(args[1])
    if p is not None and z3.is_app_of(s, z3.Z3_OP_SEQ_EXTRACT) and eng.implied(p, z3.And(k >= 0, k <= s.arg(2), s.arg(1) >= 0, s.arg(2) >= 0, s.arg(1) + s.arg(2) <= z3.Length(s.arg(0)))):
        return VBytes(z3.Extract(s.arg(0), eng.lite_simplify(s.arg(1) + k), eng.lite_simplify(s.arg(2) - k)), "bytes")
    return VBytes(z3.Extract(s, k, z3.Length(s) - k), "bytes")


def _p_utf8(eng, args, p):
    """utf8(text): the octets str.encode produces (the same uninterpreted function the model of str.encode uses)."""
    return VBytes(eng.func("utf8", Str, S)(eng.str_term(args[0])), "bytes")


def _p_or_empty(eng, args, p):
    """or_empty(x): an Optional[bytes] read as octets - the empty string when it is None."""
    v = args[0]
    if isinstance(v, VNone):
        return VBytes(z3.Empty(S), "bytes")

    def octets(x):          # text is read as its UTF-8 octets
        return eng.func("utf8", Str, S)(eng.str_term(x)) if isinstance(x, VStr) else x.t
    if isinstance(v, VOpt):
        return VBytes(z3.If(v.isnone, z3.Empty(S), octets(v.val)), "bytes")
    return VBytes(octets(v), "bytes")


def _p_unutf8(eng, args, p):
    """unutf8(octets): the text bytes.decode produces for well-formed UTF-8 (the same uninterpreted function the model of bytes.decode uses)."""
    return VStr(eng.func("unutf8", S, Str)(args[0].t))


def _p_is_bytes(eng, args, p):
    s = args[0].t
    q = z3.Int("q!ib")
    return VBool(z3.ForAll([q], z3.Implies(z3.And(0 <= q, q < z3.Length(s)), z3.And(0 <= s[q], s[q] <= 255))))


def _p_empty_set(eng, args, p):
    return VSet(z3.K(I, z3.BoolVal(False)))


def _p_set_add(eng, args, p):
    return VSet(z3.Store(args[0].t, eng.as_int(args[1]), z3.BoolVal(True)))


def _p_set_del(eng, args, p):
    return VSet(z3.Store(args[0].t, eng.as_int(args[1]), z3.BoolVal(False)))


def _p_subset(eng, args, p):
    x = z3.Int("x!ss")
    return VBool(z3.ForAll([x], z3.Implies(z3.Select(args[0].t, x), z3.Select(args[1].t, x))))


def _p_nil_obj(eng, args, p):
    return VList(t=z3.Empty(SeqObj), elem="obj")


def _p_cons_obj(eng, args, p):
    x = args[0]
    xt = x.t if isinstance(x, VSym) else eng.reify_cached(x, p).t
    return VList(t=z3.Concat(z3.Unit(xt), eng.list_term(args[1])), elem="obj")


def _p_nil_bytes(eng, args, p):
    return VList(t=z3.Empty(SeqSeq), elem="bytes")


def _p_snoc_bytes(eng, args, p):
    """snoc_bytes(xs, b): the list xs with the octet string b appended (what list.append does)."""
    return VList(t=z3.Concat(eng.list_term(args[0]), z3.Unit(args[1].t)), elem="bytes")


def _p_cat_bytes_list(eng, args, p):
    """cat_list(xs, ys): concatenation of two lists of octet strings."""
    return VList(t=z3.Concat(eng.list_term(args[0]), eng.list_term(args[1])), elem="bytes")


def _p_slice_list(eng, args, p):
    """slice_list(xs, i, n): xs[i:n] for 0 <= i <= n <= len(xs) (z3 extract; callers state the bounds)."""
    xs, i, n = eng.list_term(args[0]), eng.as_int(args[1]), eng.as_int(args[2])
    return VList(t=z3.Extract(xs, i, n - i), elem="bytes")


def _p_cat_obj(eng, args, p):
    return VList(t=z3.Concat(eng.list_term(args[0]), eng.list_term(args[1])), elem="obj")


def _p_ids_below(eng, args, p):
    x = z3.Int("x!ib")
    return VBool(z3.ForAll([x], z3.Implies(z3.Select(args[0].t, x), z3.And(x >= 1, x < eng.as_int(args[1])))))


SPEC_PRIMS = {"cat_list": _p_cat_bytes_list, "slice_list": _p_slice_list, "nil_bytes": _p_nil_bytes, "snoc_bytes": _p_snoc_bytes, "or_empty": _p_or_empty, "unutf8": _p_unutf8, "utf8": _p_utf8, "ids_below": _p_ids_below, "nil_obj": _p_nil_obj, "cons_obj": _p_cons_obj, "cat_obj": _p_cat_obj, "cat": _p_cat, "seq1": _p_seq1, "empty": _p_empty, "take": _p_take, "drop": _p_drop,
              "is_bytes": _p_is_bytes, "empty_set": _p_empty_set, "set_add": _p_set_add, "set_del": _p_set_del,
              "subset": _p_subset}
