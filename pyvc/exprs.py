"""Expression evaluation (shared by code and contract clauses)."""
from __future__ import annotations
import ast
import z3
from .values import *
from .symexec import Engine, Unsupported, NeedFork, Raised, Obligation, Path, parse_expr

MUTATING_METHODS = {"append", "extend", "reverse", "add", "remove", "discard", "pop", "clear", "insert", "update"}


class ExprMixin:
    # ------------------------------------------------------------------ forking inside expressions
    def choose(self, p, alts):
        """alts: list of z3 conditions (mutually exclusive, exhaustive).  Returns the index taken on this path."""
        if p.spec:
            raise Unsupported("fork in specification expression")
        live = [i for i, c in enumerate(alts) if self.feasible(p.pc, c)]
        if not live:
            # the path itself is infeasible
            raise Raised(VExc("__infeasible__"))
        if len(live) == 1:
            p.pc.append(alts[live[0]])
            return live[0]
        if p.pos < len(p.script):
            k = p.script[p.pos]
            p.pos += 1
            p.pc.append(alts[live[k]])
            return live[k]
        raise NeedFork(len(live))

    def may_raise(self, p, cond, exc_cls, lineno=0, msg=""):
        """Implicit exception: on this path continue under not cond; fork a raising path under cond."""
        if p.spec:
            return
        # simplify only to recognise a trivially false condition: z3's simplifier rewrites nth into internal
        # nth_i / nth_u forms that its own sequence solver then handles badly
        if z3.is_false(z3.simplify(cond)):
            if not z3.is_false(cond):
                p.pc.append(z3.Not(cond))      # valid, but keep the unsimplified instance as a ready-made fact
            return
        i = self.choose(p, [z3.Not(cond), cond])
        if i == 1:
            raise Raised(VExc(exc_cls, {"lineno": lineno, "implicit": True}))

    # ------------------------------------------------------------------ names
    def lookup(self, name, p, module):
        if name in p.env:
            return p.env[name]
        if name in p.ghost:
            return p.ghost[name]
        r = self.prog.resolve(module, name)
        if r is not None:
            if r[0] == "class":
                return VClass(r[1])
            if r[0] == "func":
                return VFunc("user", r[1])
            if r[0] == "const":
                q = Path()
                q.spec = True
                return self.ev(r[1], q, r[2])
            if r[0] == "module":
                return VModule(r[1])
            if r[0] == "extern":
                return VOpaque(f"{r[1]}.{r[2]}")
        fi = self.spec_info(name)
        if fi is not None:
            return VFunc("user", fi)
        if name in BUILTINS:
            return VFunc("builtin", name)
        if name in ("True", "False"):
            return VBool(name == "True")
        if p.spec:
            # contract clauses may name a class of another repository module (unique class name)
            cands = [ci for ci in self.prog.classes.values() if ci.name == name]
            if len(cands) == 1:
                return VClass(cands[0])
        raise Unsupported(f"unknown name {name!r} in {module}")

    # ------------------------------------------------------------------ main evaluator
    def ev(self, e, p, module):
        m = getattr(self, "ev_" + type(e).__name__, None)
        if m is None:
            raise Unsupported(f"expression {type(e).__name__}: {ast.unparse(e)[:60]}")
        return m(e, p, module)

    def ev_Constant(self, e, p, module):
        v = e.value
        if isinstance(v, bool):
            return VBool(v)
        if isinstance(v, int):
            return VInt(v)
        if v is None:
            return NONE
        if isinstance(v, str):
            return VStr(lit=v)
        if isinstance(v, bytes):
            t = z3.Empty(S)
            if v:
                units = [z3.Unit(z3.IntVal(b)) for b in v]
                t = units[0] if len(units) == 1 else z3.Concat(*units)
            return VBytes(t, "bytes")
        if v is Ellipsis:
            return NONE
        raise Unsupported(f"constant {v!r}")

    def ev_Name(self, e, p, module):
        return self.lookup(e.id, p, module)

    def ev_JoinedStr(self, e, p, module):
        # f-strings only build messages: the text is dropped (opaque total str); sub-expressions that could
        # raise are still evaluated for their exceptions when they are calls.
        for v in e.values:
            if isinstance(v, ast.FormattedValue) and any(isinstance(n, ast.Call) for n in ast.walk(v.value)):
                try:
                    self.ev(v.value, p, module)
                except Unsupported:
                    pass
        return VStr(fresh(Str, "fstr"))

    def ev_Tuple(self, e, p, module):
        return VTuple([self.ev(x, p, module) for x in e.elts])

    def ev_List(self, e, p, module):
        return VList(items=[self.ev(x, p, module) for x in e.elts])

    def ev_UnaryOp(self, e, p, module):
        v = self.ev(e.operand, p, module)
        if isinstance(e.op, ast.Not):
            return VBool(z3.Not(self.truth(v, p)))
        if isinstance(e.op, ast.USub):
            return VInt(-self.as_int(v))
        if isinstance(e.op, ast.UAdd):
            return VInt(self.as_int(v))
        raise Unsupported("unary op")

    def ev_BoolOp(self, e, p, module):
        is_and = isinstance(e.op, ast.And)
        pure = all(self.is_pure(x) for x in e.values[1:])
        vals0 = None
        if p.spec:
            ts = []
            for x in e.values:
                t = self.truth(self.ev(x, p, module), p)
                ts.append(t)
                st = z3.simplify(t)
                if is_and and z3.is_false(st):
                    return VBool(False)
                if (not is_and) and z3.is_true(st):
                    return VBool(True)
            return VBool(z3.And(*ts) if is_and else z3.Or(*ts))
        if pure:
            # operands are evaluated left to right, each one under the assumption that the previous ones did not decide
            # the result (Python's short-circuit): facts learnt while evaluating an operand are kept as implications
            vals, assumed = [], []
            for x in e.values:
                n0 = len(p.pc)
                for a_ in assumed:
                    p.pc.append(a_)
                v = self.ev(x, p, module)
                new = p.pc[n0 + len(assumed):]
                del p.pc[n0:]
                if assumed:
                    guard = z3.And(*assumed) if len(assumed) > 1 else assumed[0]
                    p.pc.extend(z3.Implies(guard, f) for f in new)
                else:
                    p.pc.extend(new)
                vals.append(v)
                try:
                    t = self.truth(v, p)
                except Unsupported:
                    break
                ts_ = z3.simplify(t) if not isinstance(v, VBool) or z3.is_true(t) or z3.is_false(t) else t
                if (is_and and z3.is_false(ts_)) or ((not is_and) and z3.is_true(ts_)):
                    # this operand decides the result whenever it is reached: the remaining operands are never evaluated
                    if len(vals) == 1:
                        return v
                    if all(isinstance(w, VBool) for w in vals[:-1]) and isinstance(v, (VBool, VNone)):
                        return VBool(not is_and)
                    break
                assumed.append(t if is_and else z3.Not(t))
            if len(vals) == len(e.values) and all(isinstance(v, (VBool,)) for v in vals):
                ts = [self.truth(v, p) for v in vals]
                return VBool(z3.And(*ts) if is_and else z3.Or(*ts))
            vals0 = vals if len(vals) == len(e.values) else None
        # value-returning / side-effecting: evaluate left to right with forks
        cur = None
        for i, x in enumerate(e.values):
            cur = vals0[i] if vals0 is not None else self.ev(x, p, module)
            if i == len(e.values) - 1:
                return cur
            t = self.truth(cur, p)
            k = self.choose(p, [t, z3.Not(t)])
            if is_and and k == 1:
                return cur
            if (not is_and) and k == 0:
                return cur
        return cur

    def is_pure(self, e):
        for n in ast.walk(e):
            if isinstance(n, ast.Call):
                f = n.func
                if isinstance(f, ast.Name) and f.id in ("len", "isinstance", "old", "forall", "implies", "bool", "chr", "int"):
                    continue
                if isinstance(f, ast.Name) and f.id in self.spec_function_names:
                    continue
                return False
            if isinstance(n, (ast.Subscript,)) and not isinstance(n.ctx, ast.Store):
                # indexing may raise: not pure in code mode
                return False
        return True

    def ev_IfExp(self, e, p, module):
        c = self.truth(self.ev(e.test, p, module), p)
        cs = z3.simplify(c)
        if z3.is_true(cs):
            return self.ev(e.body, p, module)
        if z3.is_false(cs):
            return self.ev(e.orelse, p, module)
        if p.spec or (self.is_pure(e.body) and self.is_pure(e.orelse)):
            a = self.ev(e.body, p, module)
            b = self.ev(e.orelse, p, module)
            m = self.merge(c, a, b)
            if m is not None:
                return m
            if p.spec:
                raise Unsupported("if-expression over unmergeable values in spec")
        k = self.choose(p, [c, z3.Not(c)])
        return self.ev(e.body if k == 0 else e.orelse, p, module)

    def merge(self, c, a, b):
        if isinstance(a, VInt) and isinstance(b, VInt):
            return VInt(z3.If(c, a.t, b.t))
        if isinstance(a, (VInt, VBool)) and isinstance(b, (VInt, VBool)) and not (isinstance(a, VBool) and isinstance(b, VBool)):
            return VInt(z3.If(c, self.as_int(a), self.as_int(b)))
        if isinstance(a, VBool) and isinstance(b, VBool):
            return VBool(z3.If(c, a.t, b.t))
        if isinstance(a, VBytes) and isinstance(b, VBytes):
            return VBytes(z3.If(c, a.t, b.t), a.kind)
        if isinstance(a, VStr) and isinstance(b, VStr):
            return VStr(z3.If(c, self.str_term(a), self.str_term(b)))
        if isinstance(a, VSet) and isinstance(b, VSet):
            return VSet(z3.If(c, a.t, b.t))
        if isinstance(a, VTuple) and isinstance(b, VTuple) and len(a.items) == len(b.items):
            ms = [self.merge(c, x, y) for x, y in zip(a.items, b.items)]
            if all(m is not None for m in ms):
                return VTuple(ms)
        if isinstance(a, VSym) and isinstance(b, VSym):
            return VSym(z3.If(c, a.t, b.t), a.static_cls)
        if isinstance(a, VNone) and isinstance(b, VNone):
            return a
        if isinstance(a, VList) and isinstance(b, VList) and a.t is not None and b.t is not None:
            return VList(t=z3.If(c, a.t, b.t), elem=a.elem)
        return None

    def ev_Compare(self, e, p, module):
        left = self.ev(e.left, p, module)
        conds = []
        for op, rhs_e in zip(e.ops, e.comparators):
            right = self.ev(rhs_e, p, module)
            conds.append(self.compare(op, left, right, p))
            left = right
        return VBool(conds[0] if len(conds) == 1 else z3.And(*conds))

    def compare(self, op, a, b, p):
        if isinstance(op, (ast.Lt, ast.LtE, ast.Gt, ast.GtE)):
            # ordering on an Optional value that the path (or an enclosing antecedent) has tested against None
            a, b = self.narrow(a, p), self.narrow(b, p)
        if isinstance(op, ast.Eq):
            return self.eq(a, b, p)
        if isinstance(op, ast.NotEq):
            return z3.Not(self.eq(a, b, p))
        if isinstance(op, (ast.Is, ast.IsNot)):
            r = self.identical(a, b, p)
            return r if isinstance(op, ast.Is) else z3.Not(r)
        if isinstance(op, (ast.In, ast.NotIn)):
            r = self.contains(b, a, p)
            return r if isinstance(op, ast.In) else z3.Not(r)
        x, y = self.as_int(a), self.as_int(b)
        if isinstance(op, ast.Lt):
            return x < y
        if isinstance(op, ast.LtE):
            return x <= y
        if isinstance(op, ast.Gt):
            return x > y
        if isinstance(op, ast.GtE):
            return x >= y
        raise Unsupported("compare op")

    def identical(self, a, b, p):
        if isinstance(b, VNone) or isinstance(a, VNone):
            o = a if isinstance(b, VNone) else b
            if isinstance(o, VOpt):
                return o.isnone
            return z3.BoolVal(isinstance(o, VNone))
        if isinstance(a, VObj) and isinstance(b, VObj):
            return z3.BoolVal(a is b)
        if isinstance(a, VBool) and isinstance(b, VBool):
            return a.t == b.t
        if isinstance(a, VClass) and isinstance(b, VClass):
            return z3.BoolVal(a.cls is b.cls)
        # identity of other values is not determined by their value: `a is b` implies a == b, nothing more
        r = fresh(B, "is")
        try:
            p.pc.append(z3.Implies(r, self.eq(a, b, p)))
        except Unsupported:
            pass
        return r

    def contains(self, container, item, p):
        if isinstance(container, VSet):
            return z3.Select(container.t, self.as_int(item))
        if isinstance(container, VList) and container.items is not None:
            if not container.items:
                return z3.BoolVal(False)
            return z3.Or(*[self.eq(item, x, p) for x in container.items])
        if isinstance(container, VTuple):
            return z3.Or(*[self.eq(item, x, p) for x in container.items]) if container.items else z3.BoolVal(False)
        if isinstance(container, VBytes) and isinstance(item, VBytes):
            return z3.Contains(container.t, item.t)
        if isinstance(container, VList) and container.t is not None and container.elem == "int":
            return z3.Contains(container.t, z3.Unit(self.as_int(item)))
        if isinstance(container, VList) and container.t is not None and container.elem in ("str", "bytes", "obj"):
            return z3.Contains(container.t, z3.Unit(self.term_of(item)))
        raise Unsupported(f"'in' on {container!r}")

    # ------------------------------------------------------------------ arithmetic
    def ev_BinOp(self, e, p, module):
        a = self.ev(e.left, p, module)
        b = self.ev(e.right, p, module)
        return self.binop(type(e.op), a, b, p, e)

    def const_int(self, t, p=None):
        t = z3.simplify(t)
        if z3.is_int_value(t):
            return t.as_long()
        return None

    def binop(self, op, a, b, p, node=None):
        if p is not None and (isinstance(a, VOpt) or isinstance(b, VOpt)):
            a, b = self.narrow(a, p), self.narrow(b, p)
        if op is ast.Add and isinstance(a, VBytes) and isinstance(b, VBytes):
            return VBytes(self.flat_concat(a.t, b.t), a.kind if a.kind != "memoryview" else "bytes")
        if op is ast.Add and isinstance(a, VList) and isinstance(b, VList):
            if a.items is not None and b.items is not None:
                return VList(items=a.items + b.items)
            return VList(t=z3.Concat(self.list_term(a), self.list_term(b)), elem=a.elem)
        if op is ast.Add and isinstance(a, VStr) and isinstance(b, VStr):
            if a.lit is not None and b.lit is not None:
                return VStr(lit=a.lit + b.lit)
            return VStr(fresh(Str, "cat"))
        x, y = self.as_int(a), self.as_int(b)
        if op is ast.Add:
            return VInt(x + y)
        if op is ast.Sub:
            return VInt(x - y)
        if op is ast.Mult:
            return VInt(x * y)
        if op is ast.FloorDiv:
            self.may_raise(p, y == 0, "ZeroDivisionError", getattr(node, "lineno", 0))
            return VInt(self.floordiv(x, y))
        if op is ast.Mod:
            self.may_raise(p, y == 0, "ZeroDivisionError", getattr(node, "lineno", 0))
            return VInt(self.pymod(x, y))
        if op is ast.Pow:
            k = self.const_int(y)
            bb = self.const_int(x)
            if k is not None and k >= 0 and bb is not None:
                return VInt(bb ** k)
            if bb == 2:
                return VInt(self.pow2(y))
            raise Unsupported("general power")
        if op is ast.LShift:
            self.side_oblig(p, y >= 0, "shift-count-nonneg", node)
            k = self.const_int(y)
            if k is not None:
                return VInt(x * (2 ** k))
            return VInt(x * self.pow2(y))
        if op is ast.RShift:
            self.side_oblig(p, y >= 0, "shift-count-nonneg", node)
            k = self.const_int(y)
            if k is not None:
                return VInt(self.floordiv(x, z3.IntVal(2 ** k)))
            return VInt(self.floordiv(x, self.pow2(y)))
        if op is ast.BitAnd:
            m = self.const_int(y)
            val = x
            if m is None:
                m = self.const_int(x)
                val = y
            if m is None:
                raise Unsupported("& with two symbolic operands")
            if m < 0:
                raise Unsupported("& with negative mask")
            # x & m for a non-negative constant m: sum of the selected bits (two's-complement semantics of Python ints:
            # bit k of x is floor(x / 2^k) mod 2 for every int x, negative or not)
            if m == 0:
                return VInt(0)
            if m & (m + 1) == 0:
                return VInt(self.pymod(val, z3.IntVal(m + 1)))
            low = (m & -m)
            if ((m // low) & ((m // low) + 1)) == 0:      # contiguous run of ones
                width = (m // low) + 1
                return VInt(self.pymod(self.floordiv(val, z3.IntVal(low)), z3.IntVal(width)) * low)
            terms = []
            k = 0
            while (1 << k) <= m:
                if m & (1 << k):
                    terms.append(self.pymod(self.floordiv(val, z3.IntVal(1 << k)), z3.IntVal(2)) * (1 << k))
                k += 1
            return VInt(z3.Sum(terms))
        if op is ast.BitOr:
            # a | b == a + b when the operands share no set bit: we require a % 2^k == 0 and 0 <= b < 2^k
            # with k taken from a literal operand or the mask structure; the side condition is an obligation.
            cb = self.const_int(y)
            ca = self.const_int(x)
            if cb is not None or ca is not None:
                c, v = (cb, x) if cb is not None else (ca, y)
                if c == 0:
                    return VInt(v)
                if c > 0:
                    # v | c  =  v - (v & c) + c
                    vc = self.binop(ast.BitAnd, VInt(v), VInt(c), p, node)
                    return VInt(v - vc.t + c)
            for k in (8, 7, 5, 6, 16, 32):
                cond = z3.And(self.pymod(x, z3.IntVal(2 ** k)) == 0, y >= 0, y < 2 ** k)
                if not self.feasible(p.pc, z3.Not(cond)):
                    return VInt(x + y)
            self.side_oblig(p, z3.BoolVal(False), "bitor-disjoint", node)
            return VInt(fresh(I, "bitor"))
        if op is ast.BitXor:
            raise Unsupported("^")
        raise Unsupported(f"binop {op.__name__}")

    @staticmethod
    def floordiv(x, y):
        # z3 integer division is Euclidean-like: for positive divisors it equals floor division; handle sign of divisor
        yc = z3.simplify(y)
        if z3.is_int_value(yc) and yc.as_long() > 0:
            return x / y
        return z3.If(y > 0, x / y, z3.If((-x) % (-y) == 0, (-x) / (-y), (-x) / (-y)))

    @staticmethod
    def pymod(x, y):
        yc = z3.simplify(y)
        if z3.is_int_value(yc) and yc.as_long() > 0:
            return x % y
        return z3.If(y > 0, x % y, -((-x) % (-y)))

    def pow2(self, k):
        return self.spec_apply("pow2", [VInt(k)], None).t

    def side_oblig(self, p, cond, what, node):
        if p.spec:
            return
        c = z3.simplify(cond)
        if z3.is_true(c):
            return
        ln = getattr(node, "lineno", 0)
        p.obls.append(Obligation(f"{self.cur_name}/side[{what}]", p.pc, cond, "side", ln, self.cur_name))
        p.pc.append(cond)

    # ------------------------------------------------------------------ subscripts and slices
    def ev_Subscript(self, e, p, module):
        base = self.narrow(self.ev(e.value, p, module), p)
        if isinstance(e.slice, ast.Slice):
            return self.slice_value(base, e.slice, p, module, e)
        idx = self.ev(e.slice, p, module)
        return self.index_value(base, idx, p, e)

    def seq_len(self, v):
        if isinstance(v, VBytes):
            return z3.Length(v.t)
        if isinstance(v, VList):
            return z3.IntVal(len(v.items)) if v.items is not None else z3.Length(v.t)
        if isinstance(v, VTuple):
            return z3.IntVal(len(v.items))
        raise Unsupported(f"len of {v!r}")

    def index_value(self, base, idx, p, node=None):
        ln = getattr(node, "lineno", 0)
        if isinstance(base, VOpt):
            raise Unsupported("subscript of Optional")
        if isinstance(base, VDict):
            return self.dict_lookup(base, idx, p, None, ln)
        if isinstance(base, VTuple) or (isinstance(base, VList) and base.items is not None):
            items = base.items
            k = self.const_int(self.as_int(idx))
            if k is None:
                raise Unsupported("symbolic index into concrete tuple/list")
            if k < -len(items) or k >= len(items):
                if p.spec:
                    raise Unsupported("index out of range in spec")
                raise Raised(VExc("IndexError", {"lineno": ln, "implicit": True}))
            return items[k]
        if isinstance(base, VObj) and base.cls.kind == "namedtuple":
            names = [f[0] for f in self.prog.all_fields(base.cls)]
            k = self.const_int(self.as_int(idx))
            return base.fields[names[k]]
        if isinstance(base, VBytes):
            i = self.as_int(idx)
            n = z3.Length(base.t)
            ic = self.const_int(i)
            if ic is not None and ic >= 0:
                real = i
                self.may_raise(p, i >= n, "IndexError", ln)
            elif ic is not None:
                real = i + n
                self.may_raise(p, real < 0, "IndexError", ln)
            elif p.spec:
                real = i          # specification indexing is mathematical (no negative-index wrap-around)
            else:
                if self.implied(p, i >= 0):
                    real = i
                elif self.implied(p, i < 0):
                    real = i + n
                else:
                    real = z3.If(i < 0, i + n, i)
                self.may_raise(p, z3.Or(real < 0, real >= n), "IndexError", ln)
            elem = base.t[real]
            if p.spec and z3.is_app_of(base.t, z3.Z3_OP_SEQ_EXTRACT):
                inner, off = base.t.arg(0), base.t.arg(1)
                self.add_fact(p, z3.Implies(z3.And(real >= 0, real < n, off >= 0), elem == inner[self.lite_simplify(off + real)]))
            if p.spec and any(base.t.eq(bv) for bv in self.byte_vars):
                # a declared octet-string variable: instantiate its element range at this index
                self.add_fact(p, z3.Implies(z3.And(real >= 0, real < n), z3.And(elem >= 0, elem <= 255)))
            if not p.spec:
                # values that flow through code are genuine octet strings: instantiate the element range on use, and
                # see through slices (nth of an extract is nth of the underlying sequence)
                p.pc.append(z3.And(elem >= 0, elem <= 255))
                if z3.is_app_of(base.t, z3.Z3_OP_SEQ_EXTRACT):
                    inner, off = base.t.arg(0), base.t.arg(1)
                    p.pc.append(elem == inner[self.lite_simplify(off + real)])
                    p.pc.append(z3.And(inner[self.lite_simplify(off + real)] >= 0, inner[self.lite_simplify(off + real)] <= 255))
            return VInt(elem)
        if isinstance(base, VList) and base.t is not None:
            i = self.as_int(idx)
            n = z3.Length(base.t)
            real = z3.If(i < 0, i + n, i)
            self.may_raise(p, z3.Or(real < 0, real >= n), "IndexError", ln)
            return self.wrap_elem(base.t[real], base.elem, base.elem_cls)
        raise Unsupported(f"subscript of {base!r}")

    def wrap_elem(self, t, elem, elem_cls=None):
        if elem == "obj":
            return VSym(t, elem_cls)
        if elem == "str":
            return VStr(t)
        if elem == "bytes":
            return VBytes(t, "bytes")
        if elem == "int":
            return VInt(t)
        raise Unsupported(elem)

    def slice_value(self, base, sl, p, module, node=None):
        if sl.step is not None:
            raise Unsupported("slice step")
        if isinstance(base, VBytes) or (isinstance(base, VList) and base.t is not None):
            t = base.t
            n = z3.Length(t)
            lo = self.clamp_ctx(self.as_int(self.ev(sl.lower, p, module)), n, p) if sl.lower is not None else z3.IntVal(0)
            hi = self.clamp_ctx(self.as_int(self.ev(sl.upper, p, module)), n, p) if sl.upper is not None else n
            r = self.mk_extract(t, lo, hi, p)
            if isinstance(base, VBytes):
                return VBytes(r, base.kind)
            return VList(t=r, elem=base.elem)
        if isinstance(base, (VTuple, VList)):
            items = base.items
            lo = self.const_int(self.as_int(self.ev(sl.lower, p, module))) if sl.lower is not None else None
            hi = self.const_int(self.as_int(self.ev(sl.upper, p, module))) if sl.upper is not None else None
            r = items[lo:hi]
            return VTuple(r) if isinstance(base, VTuple) else VList(items=r)
        if isinstance(base, VStr):
            if base.lit is not None:
                lo = self.const_int(self.as_int(self.ev(sl.lower, p, module))) if sl.lower is not None else None
                hi = self.const_int(self.as_int(self.ev(sl.upper, p, module))) if sl.upper is not None else None
                return VStr(lit=base.lit[lo:hi])
            return VStr(fresh(Str, "slice"))
        raise Unsupported(f"slice of {base!r}")

    def add_fact(self, p, f):
        """Append a (universally valid) instantiated fact to the path once."""
        k = f.get_id()
        for g in p.pc[-400:]:
            if g.get_id() == k:
                return
        p.pc.append(f)

    def implied(self, p, cond):
        """True when the facts collected on the path so far imply cond (used only to pick simpler, equivalent terms)."""
        c = z3.simplify(cond)
        if z3.is_true(c):
            return True
        if z3.is_false(c):
            return False
        return not self.feasible(p.pc, z3.Not(cond))

    def clamp_ctx(self, i, n, p):
        if self.implied(p, z3.And(i >= 0, i <= n)):
            return i
        return self.clamp(i, n)

    def mk_extract(self, t, lo, hi, p):
        """t[lo:hi] for already clamped lo, hi (0 <= lo, hi <= len(t)).  A slice of an exact slice is flattened to a
        slice of the underlying sequence, so that equal slices are syntactically close."""
        nonneg = self.implied(p, hi - lo >= 0)
        d = self.lite_simplify(hi - lo)
        if not nonneg:
            d = z3.If(hi - lo > 0, hi - lo, z3.IntVal(0))
        if nonneg and z3.is_app_of(t, z3.Z3_OP_SEQ_EXTRACT):
            s0, o0, l0 = t.arg(0), t.arg(1), t.arg(2)
            if self.implied(p, z3.And(o0 >= 0, l0 >= 0, o0 + l0 <= z3.Length(s0), hi <= l0, lo >= 0)):
                return z3.Extract(s0, self.lite_simplify(o0 + lo), d)
        return z3.Extract(t, self.lite_simplify(lo), d)

    @staticmethod
    def lite_simplify(t):
        """Simplify only when the result is a numeral: z3's simplifier rewrites Length(Concat(..)) into a sum of lengths,
        and extract terms whose length argument has that shape defeat z3's sequence solver (observed: unknown vs 0.01 s)."""
        st = z3.simplify(t)
        return st if z3.is_int_value(st) else t

    @staticmethod
    def clamp(i, n):
        ic = z3.simplify(i)
        if z3.is_int_value(ic) and ic.as_long() >= 0:
            return z3.If(i > n, n, i)
        j = z3.If(i < 0, i + n, i)
        return z3.If(j < 0, z3.IntVal(0), z3.If(j > n, n, j))

    # ------------------------------------------------------------------ attributes
    def ev_Attribute(self, e, p, module):
        base = self.ev(e.value, p, module)
        return self.getattr_value(base, e.attr, p, module, e)

    def sym_field(self, ref, fname, ftype, module):
        """Field of a symbolic immutable object: uninterpreted function of the reference."""
        ftype = ftype.strip()
        if ftype.startswith("t.Optional[") or ftype.startswith("Optional["):
            inner = ftype[ftype.index("[") + 1:-1]
            isnone = self.func(f"fld_{fname}_isnone", Obj, B)(ref)
            return VOpt(isnone, self.sym_field(ref, fname, inner, module))
        if ftype in ("int",):
            t = self.func(f"fld_{fname}", Obj, I)(ref)
            self.int_fields_seen.append(t)
            return VInt(t)
        if ftype == "bool":
            return VBool(self.func(f"fld_{fname}", Obj, B)(ref))
        if ftype == "str":
            return VStr(self.func(f"fld_{fname}", Obj, Str)(ref))
        if ftype == "bytes":
            return VBytes(self.func(f"fld_{fname}", Obj, S)(ref), "bytes")
        if ftype.startswith("t.List["):
            inner = ftype[7:-1].strip()
            if inner == "str":
                return VList(t=self.func(f"fld_{fname}", Obj, SeqStr)(ref), elem="str")
            if inner == "bytes":
                return VList(t=self.func(f"fld_{fname}", Obj, SeqSeq)(ref), elem="bytes")
            return VList(t=self.func(f"fld_{fname}", Obj, SeqObj)(ref), elem="obj", elem_cls=self.prog.class_by_name(module, inner.split(".")[-1]))
        ci = self.prog.class_by_name(module, ftype.split(".")[-1])
        if ci is not None:
            if ci.kind == "enum":
                if ci.enum_mixin == "str":
                    return VStr(self.func(f"fld_{fname}", Obj, Str)(ref))
                t = self.func(f"fld_{fname}", Obj, I)(ref)
                self.int_fields_seen.append(t)
                return VInt(t)
            return VSym(self.func(f"fld_{fname}", Obj, Obj)(ref), ci)
        raise Unsupported(f"symbolic field {fname}: {ftype}")

    def getattr_value(self, base, attr, p, module, node=None):
        if isinstance(base, VOpt):
            # attribute access on a possibly-None value: AttributeError path excluded under "arguments conform to
            # their annotations" only when the code tested for None; otherwise fork
            self.may_raise(p, base.isnone, "AttributeError", getattr(node, "lineno", 0))
            base = base.val
        if isinstance(base, VObj):
            if attr in base.fields:
                return base.fields[attr]
            m = self.prog.find_method(base.cls, attr)
            if m is not None:
                return VFunc("user", m, base)
            for c in self.prog.mro(base.cls):
                if attr in c.consts:
                    q = Path(); q.spec = True
                    return self.ev(c.consts[attr], q, c.module)
                for fname, fann, fdef in c.fields:
                    if fname == attr and fdef is not None:
                        return self.field_default(fdef, c)
            raise Unsupported(f"attribute {attr} of {base.cls.name}")
        if isinstance(base, VSym):
            return self.sym_getattr(base, attr, p, module)
        if isinstance(base, VClass):
            ci = base.cls
            if ci.kind == "enum" and attr in ci.enum_members:
                v = ci.enum_members[attr]
                return VStr(lit=v) if isinstance(v, str) else VInt(v)
            m = self.prog.find_method(ci, attr)
            if m is not None:
                return VFunc("user", m, base if m.is_classmethod else None)
            for c in self.prog.mro(ci):
                if attr in c.consts:
                    q = Path(); q.spec = True
                    return self.ev(c.consts[attr], q, c.module)
                for fname, fann, fdef in c.fields:
                    if fname == attr and fdef is not None:
                        return self.field_default(fdef, c)
            raise Unsupported(f"class attribute {ci.name}.{attr}")
        if isinstance(base, VModule):
            return VFunc("builtin", f"{base.name}.{attr}")
        if isinstance(base, VInt):
            if attr == "value":
                return base
            if attr == "name":
                return VStr(fresh(Str, "enumname"))
        if isinstance(base, VStr) and attr == "value":
            return base
        if isinstance(base, VExc):
            if attr in base.fields:
                return base.fields[attr]
            raise Unsupported(f"exception attribute {attr}")
        if isinstance(base, (VBytes, VStr, VList, VSet, VDict)) or (isinstance(base, VOpaque) and base.what == "regex"):
            return VFunc("method", attr, base)
        if isinstance(base, VFunc) and base.kind == "builtin":
            return VFunc("builtin", f"{base.target}.{attr}")
        if isinstance(base, VFunc) and base.kind == "super":
            ci, recv = base.target, base.recv
            m = self.prog.find_method(recv.cls if isinstance(recv, VObj) else recv.cls, attr, after=ci)
            if m is None:
                if attr == "__init__":
                    return VFunc("builtin", "object.__init__", recv)
                raise Unsupported(f"super().{attr}")
            return VFunc("user", m, recv)
        raise Unsupported(f"attribute {attr} of {base!r}")

    def field_default(self, fdef, ci):
        # dataclasses.field(init=False, default=X)
        if isinstance(fdef, ast.Call) and ast.unparse(fdef.func).endswith("field"):
            for kw in fdef.keywords:
                if kw.arg == "default":
                    q = Path(); q.spec = True
                    return self.ev(kw.value, q, ci.module)
            raise Unsupported("field without default")
        q = Path(); q.spec = True
        return self.ev(fdef, q, ci.module)

    def is_class_constant(self, ci, attr):
        for c in self.prog.mro(ci) + self.prog.subclasses(ci):
            if attr in c.consts:
                return True
            for fname, fann, fdef in c.fields:
                if fname == attr and isinstance(fdef, ast.Call) and any(kw.arg == "init" and isinstance(kw.value, ast.Constant) and kw.value.value is False for kw in fdef.keywords):
                    return True
        return False

    def class_constant(self, c, attr):
        """Value of class-level attribute `attr` for dynamic class c (first definition along the MRO), or None."""
        for k in self.prog.mro(c):
            if attr in k.consts:
                q = Path(); q.spec = True
                try:
                    return self.ev(k.consts[attr], q, k.module)
                except Unsupported:
                    return None
            for fname, fann, fdef in k.fields:
                if fname == attr:
                    if fdef is None:
                        return None
                    try:
                        return self.field_default(fdef, k)
                    except Unsupported:
                        return None
        return None

    def sym_getattr(self, base, attr, p, module):
        """Attribute of a symbolic object: search the declared class and all its subclasses for the field."""
        ci = base.static_cls
        cands = []
        if ci is not None:
            cands = self.prog.mro(ci) + [c for c in self.prog.subclasses(ci) if c is not ci]
        found = []
        for c in cands:
            for fname, fann, fdef in c.fields:
                if fname == attr:
                    found.append((self.ann_text(fann), c.module))
        # class-level constants (dataclass fields with init=False and a default, or plain class attributes such as
        # tag_number = 1): the value is decided by the dynamic class (closed world: the classes of the program)
        if ci is not None and self.is_class_constant(ci, attr):
            dyn = self.prog.subclasses(ci)
            vals = [(c, self.class_constant(c, attr)) for c in dyn]
            if all(v is not None for _, v in vals):
                reprs = {repr(getattr(v, "t", None)) + repr(getattr(v, "lit", None)) for _, v in vals}
                if len(reprs) == 1:
                    return vals[0][1]
                if found and all(isinstance(v, VInt) for _, v in vals):
                    fv = self.sym_field(base.t, attr, "int", found[0][1])
                    cls_of = self.func("class_of", Obj, I)
                    p.pc.append(z3.Or(*[cls_of(base.t) == self.class_id(c) for c, _ in vals]))
                    for c, v in vals:
                        p.pc.append(z3.Implies(cls_of(base.t) == self.class_id(c), fv.t == v.t))
                    return fv
        if found:
            # the same field name may be declared with different optionality in sibling classes (BindRequest.name: str,
            # ExtendedResponse.name: Optional[str]): use the most general declaration
            opt = [f for f in found if f[0].startswith("t.Optional[")]
            ann, mod = (opt or found)[0]
            return self.sym_field(base.t, attr, ann, mod)
        if ci is not None:
            m = self.prog.find_method(ci, attr)
            if m is not None:
                return VFunc("user", m, base)
        raise Unsupported(f"symbolic attribute {attr} of {base!r}")

    # ------------------------------------------------------------------ misc expression kinds
    def ev_Lambda(self, e, p, module):
        a = e.args
        if a.vararg or a.kwarg or a.kwonlyargs or a.defaults or a.posonlyargs:
            return VOpaque("lambda")
        return VFunc("lambda", (e, module, dict(p.env)))

    def ev_Dict(self, e, p, module):
        items = []
        for k, v in zip(e.keys, e.values):
            if k is None:
                return VOpaque("dict")
            try:
                kv = self.ev(k, p, module)
            except Unsupported:
                return VOpaque("dict")
            if isinstance(kv, VInt) and z3.is_int_value(z3.simplify(kv.t)):
                key = z3.simplify(kv.t).as_long()
            elif isinstance(kv, VStr) and kv.lit is not None:
                key = kv.lit
            else:
                return VOpaque("dict")
            try:
                items.append((key, self.ev(v, p, module)))
            except Unsupported:
                return VOpaque("dict")
        return VDict(items)

    def ev_Starred(self, e, p, module):
        raise Unsupported("starred")

    def ev_GeneratorExp(self, e, p, module):
        return VOpaque(("genexp", e))

    def ev_ListComp(self, e, p, module):
        raise Unsupported("list comprehension")

    def ev_Call(self, e, p, module):
        return self.eval_call(e, p, module)


BUILTINS = {"len", "bytes", "bytearray", "memoryview", "bool", "int", "isinstance", "range", "enumerate", "chr", "ord",
            "set", "list", "tuple", "next", "type", "super", "object", "str", "min", "max", "abs", "print", "hasattr",
            "getattr", "ValueError", "TypeError", "NotImplementedError", "IndexError", "KeyError", "RecursionError",
            "UnicodeDecodeError", "UnicodeEncodeError", "Exception", "repr", "all", "any", "sum", "zip", "sorted",
            "reversed", "dict", "frozenset", "iter", "id", "hex", "format", "divmod"}
