"""Exact decisions about the regular expressions the repository compiles (runs under /venv/bin/python, the interpreter
that runs the code, so `re._parser` is the parser that produced the patterns in use).

From the sre parse tree: Glushkov position automaton over an alphabet partitioned by the (exact, full-Unicode) match
sets of the leaves.  Decisions:
  * exponential ambiguity (EDA): a strongly connected component of A x A holding a diagonal and an off-diagonal pair;
  * polynomial ambiguity degree (IDA chains, bounded search);
  * language inclusion / difference between two patterns (lazy subset construction), with witnesses.
Supported opcodes: LITERAL NOT_LITERAL ANY IN(LITERAL RANGE NEGATE CATEGORY) BRANCH SUBPATTERN MAX_REPEAT MIN_REPEAT AT.
Anything else (backreferences, lookaround, conditionals) raises Unsupported: the caller reports 'undecided'.
"""
from __future__ import annotations
import re, sys, bisect
try:
    import re._parser as sp
    import re._constants as sc
except ImportError:           # Python < 3.11
    import sre_parse as sp
    import sre_constants as sc

sys.setrecursionlimit(20000)
MAXREPEAT = sc.MAXREPEAT


class Unsupported(Exception):
    pass


_leaf_cache = {}


def leaf_ranges(kind, arg, flags):
    """Exact set of code points a single-character leaf matches under `flags`, as a sorted list of (lo, hi) ranges.
    Computed by asking the regex engine itself about every code point (cached per distinct leaf)."""
    if kind == "LITERAL":
        src = re.escape(chr(arg))
    elif kind == "NOT_LITERAL":
        src = "[^%s]" % re.escape(chr(arg))
    elif kind == "ANY":
        src = "."
    elif kind == "IN":
        parts = []
        neg = False
        for io, ia in arg:
            o = str(io)
            if o == "NEGATE":
                neg = True
            elif o == "LITERAL":
                parts.append(_cls_escape(ia))
            elif o == "RANGE":
                parts.append(_cls_escape(ia[0]) + "-" + _cls_escape(ia[1]))
            elif o == "CATEGORY":
                cat = str(ia)
                m = {"CATEGORY_DIGIT": r"\d", "CATEGORY_NOT_DIGIT": r"\D", "CATEGORY_SPACE": r"\s", "CATEGORY_NOT_SPACE": r"\S",
                     "CATEGORY_WORD": r"\w", "CATEGORY_NOT_WORD": r"\W"}
                if cat not in m:
                    raise Unsupported(cat)
                parts.append(m[cat])
            else:
                raise Unsupported(o)
        src = "[" + ("^" if neg else "") + "".join(parts) + "]"
    elif kind == "CATEGORY":
        raise Unsupported("bare category")
    else:
        raise Unsupported(kind)
    fl = flags & (re.IGNORECASE | re.DOTALL | re.ASCII | re.UNICODE)
    key = (src, fl)
    if key in _leaf_cache:
        return _leaf_cache[key]
    direct = _direct_ranges(kind, arg, fl)
    if direct is not None:
        _leaf_cache[key] = direct
        return direct
    pat = re.compile(src, fl)
    ranges, start = [], None
    m = pat.fullmatch
    for cp in range(0x110000):
        hit = m(chr(cp)) is not None
        if hit and start is None:
            start = cp
        elif not hit and start is not None:
            ranges.append((start, cp - 1))
            start = None
    if start is not None:
        ranges.append((start, 0x10FFFF))
    _leaf_cache[key] = ranges
    return ranges


def _direct_ranges(kind, arg, fl, top=0x10FFFF):
    """Plain literals / ranges without case-insensitivity or categories: the set is read off the parse tree."""
    if fl & re.IGNORECASE:
        return None
    if kind == "LITERAL":
        return [(arg, arg)]
    if kind == "ANY":
        return [(0, top)] if fl & re.DOTALL else [(0, 9), (11, top)]
    if kind == "NOT_LITERAL":
        items, neg = [(arg, arg)], True
    elif kind == "IN":
        items, neg = [], False
        for io, ia in arg:
            o = str(io)
            if o == "NEGATE":
                neg = True
            elif o == "LITERAL":
                items.append((ia, ia))
            elif o == "RANGE":
                items.append((ia[0], ia[1]))
            else:
                return None
    else:
        return None
    items.sort()
    merged = []
    for lo, hi in items:
        if merged and lo <= merged[-1][1] + 1:
            merged[-1] = (merged[-1][0], max(merged[-1][1], hi))
        else:
            merged.append((lo, hi))
    if not neg:
        return merged
    out, cur = [], 0
    for lo, hi in merged:
        if lo > cur:
            out.append((cur, lo - 1))
        cur = hi + 1
    if cur <= top:
        out.append((cur, top))
    return out


def leaf_ranges_bytes(kind, arg, flags):
    """Same for bytes patterns (alphabet 0..255)."""
    if kind == "LITERAL":
        src = re.escape(bytes([arg]))
    elif kind == "NOT_LITERAL":
        src = b"[^" + re.escape(bytes([arg])) + b"]"
    elif kind == "ANY":
        src = b"."
    elif kind == "IN":
        parts, neg = [], False
        for io, ia in arg:
            o = str(io)
            if o == "NEGATE":
                neg = True
            elif o == "LITERAL":
                parts.append(b"\\x%02x" % ia)
            elif o == "RANGE":
                parts.append(b"\\x%02x-\\x%02x" % (ia[0], ia[1]))
            else:
                raise Unsupported(o)
        src = b"[" + (b"^" if neg else b"") + b"".join(parts) + b"]"
    else:
        raise Unsupported(kind)
    fl = flags & (re.IGNORECASE | re.DOTALL)
    key = (src, fl)
    if key in _leaf_cache:
        return _leaf_cache[key]
    pat = re.compile(src, fl)
    ranges, start = [], None
    for cp in range(256):
        hit = pat.fullmatch(bytes([cp])) is not None
        if hit and start is None:
            start = cp
        elif not hit and start is not None:
            ranges.append((start, cp - 1)); start = None
    if start is not None:
        ranges.append((start, 255))
    _leaf_cache[key] = ranges
    return ranges


def _cls_escape(cp):
    return "\\U%08x" % cp


class NFA:
    """Glushkov automaton: positions 0..n-1 with their character sets; start state is -1."""

    def __init__(self):
        self.sets = []          # per position: list of (lo, hi)
        self.first = set()
        self.last = set()
        self.follow = {}
        self.nullable = False
        self.end_dollar = False   # pattern ends with '$' (also matches before a final newline)
        self.end_strict = False   # pattern ends with \Z
        self.is_bytes = False


EPS = (True, frozenset(), frozenset(), {})


def _cat(a, b):
    fol = {k: set(v) for k, v in a[3].items()}
    for k, v in b[3].items():
        fol.setdefault(k, set()).update(v)
    for l in a[2]:
        fol.setdefault(l, set()).update(b[1])
    return (a[0] and b[0], frozenset(a[1] | (b[1] if a[0] else set())), frozenset(b[2] | (a[2] if b[0] else set())), fol)


def _alt(a, b):
    fol = {k: set(v) for k, v in a[3].items()}
    for k, v in b[3].items():
        fol.setdefault(k, set()).update(v)
    return (a[0] or b[0], frozenset(a[1] | b[1]), frozenset(a[2] | b[2]), fol)


def _star(a):
    fol = {k: set(v) for k, v in a[3].items()}
    for l in a[2]:
        fol.setdefault(l, set()).update(a[1])
    return (True, a[1], a[2], fol)


def _opt(a):
    return (True, a[1], a[2], a[3])


def build(pattern, flags=0):
    is_bytes = isinstance(pattern, (bytes, bytearray))
    tree = sp.parse(pattern, flags)
    flags = tree.state.flags if hasattr(tree, "state") else flags
    nfa = NFA()
    nfa.is_bytes = is_bytes
    lr = leaf_ranges_bytes if is_bytes else leaf_ranges

    def leaf(kind, arg):
        nfa.sets.append(lr(kind, arg, flags))
        i = len(nfa.sets) - 1
        return (False, frozenset({i}), frozenset({i}), {})

    def go(items, top=False):
        r = EPS
        items = list(items)
        for idx, (op, av) in enumerate(items):
            o = str(op)
            if o in ("LITERAL", "NOT_LITERAL", "ANY", "IN"):
                x = leaf(o, av)
            elif o == "SUBPATTERN":
                x = go(av[3])
            elif o == "BRANCH":
                x = None
                for b in av[1]:
                    y = go(b)
                    x = y if x is None else _alt(x, y)
            elif o in ("MAX_REPEAT", "MIN_REPEAT", "POSSESSIVE_REPEAT"):
                lo, hi, sub = av
                if lo > 64 or (hi != MAXREPEAT and hi > 64):
                    raise Unsupported("large counted repetition")
                x = EPS
                for _ in range(lo):
                    x = _cat(x, go(sub))
                if hi == MAXREPEAT:
                    x = _cat(x, _star(go(sub)))
                else:
                    for _ in range(hi - lo):
                        x = _cat(x, _opt(go(sub)))
            elif o == "AT":
                a = str(av)
                if a in ("AT_BEGINNING", "AT_BEGINNING_STRING") and top and idx == 0:
                    x = EPS
                elif a == "AT_END" and top and idx == len(items) - 1:
                    # '$' (no MULTILINE) matches at the end and before a final newline:  r$  ==  r(\n)?\Z
                    nfa.end_dollar = True
                    x = _opt(leaf("LITERAL", 10))
                elif a == "AT_END_STRING" and top and idx == len(items) - 1:
                    nfa.end_strict = True
                    x = EPS
                else:
                    raise Unsupported("anchor inside the pattern: " + a)
            elif o == "ATOMIC_GROUP":
                x = go(av)
            else:
                raise Unsupported(o)
            r = _cat(r, x)
        return r

    nullable, first, last, fol = go(tree, top=True)
    nfa.nullable, nfa.first, nfa.last = nullable, set(first), set(last)
    nfa.follow = {k: set(v) for k, v in fol.items()}
    return nfa


# ---------------------------------------------------------------------------------------------- alphabet atoms
def atoms_for(nfas):
    top = 0x100 if all(n.is_bytes for n in nfas) else 0x110000
    cuts = {0, top}
    for n in nfas:
        for rs in n.sets:
            for lo, hi in rs:
                cuts.add(lo)
                cuts.add(hi + 1)
    cuts = sorted(c for c in cuts if c <= top)
    ats = [(cuts[i], cuts[i + 1] - 1) for i in range(len(cuts) - 1)]
    starts = [a[0] for a in ats]
    out = []
    for n in nfas:
        per = []
        for rs in n.sets:
            s = set()
            for lo, hi in rs:
                i = bisect.bisect_left(starts, lo)
                while i < len(ats) and ats[i][1] <= hi:
                    s.add(i)
                    i += 1
            per.append(frozenset(s))
        out.append(per)
    return ats, out


def rep_char(atom, is_bytes=False):
    lo, hi = atom
    for cand in (lo, hi):
        if is_bytes:
            return cand
        if not (0xD800 <= cand <= 0xDFFF):
            return cand
    return lo


# ---------------------------------------------------------------------------------------------- ambiguity
def eda(nfa):
    """Exponential degree of ambiguity.  Returns None or a witness dict (prefix, pump, positions)."""
    ats, (sets,) = atoms_for([nfa])
    n = len(nfa.sets)
    fol = nfa.follow

    def nxt(p, q):
        out = []
        for p2 in fol.get(p, ()):
            sp2 = sets[p2]
            for q2 in fol.get(q, ()):
                if sp2 & sets[q2]:
                    out.append((p2, q2))
        return out

    # reachable positions only (a backtracking matcher never visits the others)
    reach = set(nfa.first)
    stack = list(reach)
    while stack:
        p = stack.pop()
        for q in fol.get(p, ()):
            if q not in reach:
                reach.add(q)
                stack.append(q)
    index, low, st, onst = {}, {}, [], set()
    idx = 0
    for root in [(p, p) for p in sorted(reach)]:
        if root in index:
            continue
        work = [(root, iter(nxt(*root)))]
        index[root] = low[root] = idx
        idx += 1
        st.append(root)
        onst.add(root)
        while work:
            v, it = work[-1]
            adv = False
            for w in it:
                if w not in index:
                    index[w] = low[w] = idx
                    idx += 1
                    st.append(w)
                    onst.add(w)
                    work.append((w, iter(nxt(*w))))
                    adv = True
                    break
                elif w in onst:
                    low[v] = min(low[v], index[w])
            if adv:
                continue
            work.pop()
            if work:
                low[work[-1][0]] = min(low[work[-1][0]], low[v])
            if low[v] == index[v]:
                members = []
                while True:
                    w = st.pop()
                    onst.discard(w)
                    members.append(w)
                    if w == v:
                        break
                if len(members) > 1 or v in nxt(*v):
                    diag = [m for m in members if m[0] == m[1]]
                    off = [m for m in members if m[0] != m[1]]
                    if diag and off:
                        return _eda_witness(nfa, ats, sets, diag[0], off[0], set(members), nxt)
    return None


def _path(nxt, src, dst, allowed):
    """BFS path in the product graph restricted to `allowed`, at least one step."""
    from collections import deque
    prev = {}
    dq = deque()
    for w in nxt(*src):
        if w in allowed and w not in prev:
            prev[w] = src
            dq.append(w)
    found = dst if dst in prev else None
    while dq and found is None:
        v = dq.popleft()
        for w in nxt(*v):
            if w in allowed and w not in prev:
                prev[w] = v
                if w == dst:
                    found = w
                    break
                dq.append(w)
    if found is None:
        return None
    out = [dst]
    while out[-1] != src or len(out) == 1:
        out.append(prev[out[-1]])
        if out[-1] == src:
            break
    return list(reversed(out))


def _eda_witness(nfa, ats, sets, diag, off, members, nxt):
    p1 = _path(nxt, diag, off, members) or []
    p2 = _path(nxt, off, diag, members) or []
    cyc = (p1[1:] if p1 else []) + (p2[1:] if p2 else [])
    pump = []
    for (a, b) in cyc:
        common = sorted(sets[a] & sets[b])
        pump.append(rep_char(ats[common[0]], nfa.is_bytes))
    # prefix: shortest word from the start to position diag[0]
    from collections import deque
    prevp = {p: None for p in nfa.first}
    dq = deque(nfa.first)
    while dq and diag[0] not in prevp:
        v = dq.popleft()
        for w in nfa.follow.get(v, ()):
            if w not in prevp:
                prevp[w] = v
                dq.append(w)
    pre = []
    cur = diag[0]
    while cur is not None and cur in prevp:
        pre.append(cur)
        cur = prevp[cur]
    pre.reverse()
    prefix = [rep_char(ats[sorted(sets[p])[0]], nfa.is_bytes) for p in pre]
    conv = (lambda xs: bytes(xs)) if nfa.is_bytes else (lambda xs: "".join(chr(c) for c in xs))
    return {"kind": "EDA", "positions": [diag, off], "prefix": conv(prefix), "pump": conv(pump)}


def ambiguity_degree(nfa, limit=3):
    """Lower bound on the polynomial degree of ambiguity (IDA chains): number of 'stacked' loops p ->* q (p != q) with a
    common word looping on p, going p->q, and looping on q.  Returns the longest chain found up to `limit`."""
    ats, (sets,) = atoms_for([nfa])
    fol = nfa.follow
    n = len(nfa.sets)
    reach = set(nfa.first)
    stack = list(reach)
    while stack:
        p = stack.pop()
        for q in fol.get(p, ()):
            if q not in reach:
                reach.add(q); stack.append(q)
    # positions on a cycle
    def closure(p):
        seen = set(); st = [p]
        while st:
            v = st.pop()
            for w in fol.get(v, ()):
                if w not in seen:
                    seen.add(w); st.append(w)
        return seen
    cyc = [p for p in reach if p in closure(p)]
    if len(cyc) > 400:
        return None
    # IDA pair (p, q): triple product (p,p,q) ->* (p,q,q)
    def tnxt(t):
        a, b, c = t
        out = []
        for a2 in fol.get(a, ()):
            for b2 in fol.get(b, ()):
                s = sets[a2] & sets[b2]
                if not s:
                    continue
                for c2 in fol.get(c, ()):
                    if s & sets[c2]:
                        out.append((a2, b2, c2))
        return out
    ida = {}
    for p in cyc:
        seen = {(p, p, q) for q in cyc if q != p}
        start = list(seen)
        # forward reachability from (p,p,q): look for (p,q,q)
        for t0 in start:
            q = t0[2]
            vis = {t0}; st = [t0]; hit = False
            while st and not hit and len(vis) < 4000:
                v = st.pop()
                for w in tnxt(v):
                    if w == (p, q, q):
                        hit = True; break
                    if w not in vis:
                        vis.add(w); st.append(w)
            if hit:
                ida.setdefault(p, set()).add(q)
    best = 0
    def chain(p, depth, seen):
        nonlocal best
        best = max(best, depth)
        if depth >= limit:
            return
        for q in ida.get(p, ()):
            if q not in seen:
                chain(q, depth + 1, seen | {q})
    for p in ida:
        chain(p, 0, {p})
    return best


# ---------------------------------------------------------------------------------------------- languages
def _step(nfa, sets, state, atom):
    """state: frozenset of positions, or the marker -1 inside it for 'at start'."""
    out = set()
    for p in state:
        cand = nfa.first if p == -1 else nfa.follow.get(p, ())
        for q in cand:
            if atom in sets[q]:
                out.add(q)
    return frozenset(out)


def _accepting(nfa, state):
    return (-1 in state and nfa.nullable) or any(p in nfa.last for p in state if p != -1)


def difference_witness(a, b, mode_a="full", mode_b="full", max_states=200000, exclude=None):
    """A string in L(a) \\ L(b) (and not in L(exclude)), or None.  mode 'full': the whole string must match (a trailing
    '$' also accepts one final newline); mode 'prefix': some prefix matches (re.match without end anchor)."""
    nfas = [a, b] + ([exclude] if exclude is not None else [])
    ats, setss = atoms_for(nfas)
    from collections import deque

    def init(nfa, mode):
        st = frozenset({-1})
        if mode == "prefix" and _accepting(nfa, st):
            return "ACC"
        return st

    def step(nfa, sets, mode, st, atom):
        if st == "ACC" or st == "DEAD":
            return st
        nxt = _step(nfa, sets, st, atom)
        if mode == "prefix" and _accepting(nfa, nxt):
            return "ACC"
        return nxt if nxt else "DEAD"

    def accepts(nfa, mode, st):
        if st == "ACC":
            return True
        if st == "DEAD":
            return False
        return mode == "full" and _accepting(nfa, st)

    modes = [mode_a, mode_b] + (["full"] if exclude is not None else [])
    start = tuple(init(n, m) for n, m in zip(nfas, modes))
    prev = {start: None}
    dq = deque([start])
    while dq:
        cur = dq.popleft()
        ok = accepts(nfas[0], modes[0], cur[0]) and not accepts(nfas[1], modes[1], cur[1])
        if ok and exclude is not None and accepts(nfas[2], modes[2], cur[2]):
            ok = False
        if ok:
            word = []
            c = cur
            while prev[c] is not None:
                c, atom = prev[c]
                word.append(atom)
            word.reverse()
            chars = [rep_char(ats[i], a.is_bytes) for i in word]
            return bytes(chars) if a.is_bytes else "".join(chr(x) for x in chars)
        if cur[0] == "DEAD":
            continue
        if len(prev) > max_states:
            raise Unsupported("state space too large")
        for atom in range(len(ats)):
            nxt = tuple(step(n, s_, m, st, atom) for n, s_, m, st in zip(nfas, setss, modes, cur))
            if nxt[0] == "DEAD":
                continue
            if nxt not in prev:
                prev[nxt] = (cur, atom)
                dq.append(nxt)
    return None
