"""Frontend: reads the repository's real source (and the spec modules) with `ast` on every run."""
from __future__ import annotations
import ast, hashlib, os

SRC_ROOT = os.environ.get("SANSLDAP_SRC", "/repo/src")
VERIF_ROOT = os.path.dirname(os.path.dirname(os.path.abspath(__file__)))

REPO_MODULES = ["asn1", "_authentication", "_controls", "_filter", "_messages", "_session", "schema"]
SPEC_MODULES = ["ber", "sess", "ldapmsg"]

BUILTIN_EXC = {
    "BaseException": None, "Exception": "BaseException", "ValueError": "Exception", "TypeError": "Exception",
    "LookupError": "Exception", "IndexError": "LookupError", "KeyError": "LookupError",
    "NotImplementedError": "RuntimeError", "RuntimeError": "Exception", "RecursionError": "RuntimeError",
    "UnicodeError": "ValueError", "UnicodeDecodeError": "UnicodeError", "UnicodeEncodeError": "UnicodeError",
    "AttributeError": "Exception", "struct.error": "Exception", "AssertionError": "Exception",
    "StopIteration": "Exception", "OverflowError": "ArithmeticError", "ArithmeticError": "Exception",
}


class ClassInfo:
    def __init__(self, module, node):
        self.module = module
        self.name = node.name
        self.node = node
        self.key = f"{module}.{node.name}"
        self.bases = []            # base names as written (resolved lazily through module globals)
        self.methods = {}          # name -> FuncInfo
        self.aliases = {}          # name -> method name  (read_set_of = read_set)
        self.fields = []           # [(name, annotation ast, default ast|None)] in declaration order (own only)
        self.consts = {}           # class-level plain assignments  name -> ast expr
        self.kind = "plain"        # plain | namedtuple | dataclass | enum | exception
        self.frozen = False
        self.enum_members = {}     # name -> python value
        self.enum_mixin = None     # 'int' | 'str' | None
        for b in node.bases:
            self.bases.append(ast.unparse(b))
        for d in node.decorator_list:
            txt = ast.unparse(d)
            if "dataclass" in txt:
                self.kind = "dataclass"
                self.frozen = "frozen=True" in txt

    def __repr__(self):
        return f"<class {self.key}>"


class FuncInfo:
    def __init__(self, module, node, cls=None):
        self.module = module
        self.node = node
        self.cls = cls
        self.name = node.name
        self.key = f"{module}:{cls.name + '.' if cls else ''}{node.name}"
        self.is_classmethod = any(ast.unparse(d) == "classmethod" for d in node.decorator_list)
        self.is_staticmethod = any(ast.unparse(d) == "staticmethod" for d in node.decorator_list)
        self.decorators = [ast.unparse(d) for d in node.decorator_list]

    def source_hash(self, src):
        seg = ast.get_source_segment(src, self.node) or ""
        return hashlib.sha256(seg.encode()).hexdigest()[:16]

    def params(self):
        a = self.node.args
        out = []
        pos = a.posonlyargs + a.args
        defaults = [None] * (len(pos) - len(a.defaults)) + list(a.defaults)
        for arg, d in zip(pos, defaults):
            out.append((arg.arg, arg.annotation, d))
        for arg, d in zip(a.kwonlyargs, a.kw_defaults):
            out.append((arg.arg, arg.annotation, d))
        return out

    def __repr__(self):
        return f"<func {self.key}>"


class Program:
    def __init__(self, src_root=None):
        self.src_root = src_root or SRC_ROOT
        self.sources = {}     # module -> text
        self.trees = {}
        self.globals = {}     # module -> {name: ('class', ClassInfo)|('func', FuncInfo)|('const', expr)|('import', module, name)|('module', name)}
        self.classes = {}     # key -> ClassInfo
        self.functions = {}   # key -> FuncInfo
        for m in REPO_MODULES:
            path = os.path.join(self.src_root, "sansldap", m + ".py")
            if os.path.exists(path):
                self._load(m, path)
        for m in SPEC_MODULES:
            path = os.path.join(VERIF_ROOT, "specs", m + ".py")
            if os.path.exists(path):
                self._load("specs." + m, path)

    def _load(self, mod, path):
        src = open(path, encoding="utf-8").read()
        tree = ast.parse(src)
        self.sources[mod] = src
        self.trees[mod] = tree
        g = self.globals.setdefault(mod, {})
        for node in tree.body:
            if isinstance(node, ast.FunctionDef):
                fi = FuncInfo(mod, node)
                g[node.name] = ("func", fi)
                self.functions[fi.key] = fi
            elif isinstance(node, ast.ClassDef):
                ci = ClassInfo(mod, node)
                g[node.name] = ("class", ci)
                self.classes[ci.key] = ci
                self._load_class(ci)
            elif isinstance(node, ast.ImportFrom):
                src_mod = node.module or ""
                for al in node.names:
                    g[al.asname or al.name] = ("import", src_mod.lstrip("."), al.name, node.level)
            elif isinstance(node, ast.Import):
                for al in node.names:
                    g[al.asname or al.name] = ("module", al.name)
            elif isinstance(node, ast.Assign) and len(node.targets) == 1 and isinstance(node.targets[0], ast.Name):
                g[node.targets[0].id] = ("const", node.value)
            elif isinstance(node, ast.AnnAssign) and isinstance(node.target, ast.Name) and node.value is not None:
                g[node.target.id] = ("const", node.value)

    def _load_class(self, ci):
        bases = " ".join(ci.bases)
        if "NamedTuple" in bases:
            ci.kind = "namedtuple"
            ci.frozen = True
        if "Enum" in bases:
            ci.kind = "enum"
            ci.enum_mixin = "int" if "IntEnum" in bases else ("str" if "str" in bases else None)
        if ci.name.endswith("Error") or "Exception" in bases or ci.name == "NotEnougData":
            ci.kind = "exception"
        auto = 0
        for node in ci.node.body:
            if isinstance(node, ast.FunctionDef):
                fi = FuncInfo(ci.module, node, ci)
                ci.methods[node.name] = fi
                self.functions[fi.key] = fi
            elif isinstance(node, ast.AnnAssign) and isinstance(node.target, ast.Name):
                ci.fields.append((node.target.id, node.annotation, node.value))
            elif isinstance(node, ast.Assign) and len(node.targets) == 1 and isinstance(node.targets[0], ast.Name):
                name = node.targets[0].id
                if ci.kind == "enum":
                    v = node.value
                    if isinstance(v, ast.Constant):
                        ci.enum_members[name] = v.value
                    elif isinstance(v, ast.Call) and ast.unparse(v.func).endswith("auto"):
                        auto += 1
                        ci.enum_members[name] = auto
                elif isinstance(node.value, ast.Name) and node.value.id in ci.methods:
                    ci.aliases[name] = node.value.id
                else:
                    ci.consts[name] = node.value

    # ---- resolution
    def resolve(self, module, name):
        """Resolve a global name of `module` to ('class', ci) / ('func', fi) / ('const', expr, module) / ('module', n) / None."""
        g = self.globals.get(module, {})
        ent = g.get(name)
        if ent is None:
            return None
        if ent[0] == "import":
            _, src_mod, orig, level = ent
            if module.startswith("specs."):
                target = src_mod if src_mod in self.globals else ("specs." + src_mod.split(".")[-1] if src_mod else None)
                if src_mod.startswith("sansldap"):
                    target = src_mod.split(".", 1)[1] if "." in src_mod else None
            else:
                target = src_mod if level else None
                if not level and src_mod.startswith("sansldap."):
                    target = src_mod.split(".", 1)[1]
            if target and target in self.globals:
                return self.resolve(target, orig)
            return ("extern", src_mod, orig)
        if ent[0] == "const":
            return ("const", ent[1], module)
        return ent

    def class_by_name(self, module, name):
        r = self.resolve(module, name)
        if r and r[0] == "class":
            return r[1]
        return None

    def mro(self, ci):
        out = [ci]
        for b in ci.bases:
            bname = b.split(".")[-1]
            bc = self.class_by_name(ci.module, bname)
            if bc is not None:
                for x in self.mro(bc):
                    if x not in out:
                        out.append(x)
        return out

    def find_method(self, ci, name, after=None):
        """Method lookup along the MRO; `after` = ClassInfo whose successors are searched (super())."""
        mro = self.mro(ci)
        if after is not None:
            mro = mro[mro.index(after) + 1:]
        for c in mro:
            if name in c.methods:
                return c.methods[name]
            if name in c.aliases:
                return c.methods[c.aliases[name]]
        return None

    def all_fields(self, ci):
        """Dataclass / namedtuple fields in base-first order: [(name, annotation, default)]; later overrides keep position."""
        out = []
        for c in reversed(self.mro(ci)):
            for f in c.fields:
                names = [x[0] for x in out]
                if f[0] in names:
                    out[names.index(f[0])] = f
                else:
                    out.append(f)
        return out

    def is_subclass(self, ci, other):
        return other in self.mro(ci)

    def subclasses(self, ci):
        return [c for c in self.classes.values() if ci in self.mro(c)]

    def exc_parent(self, name):
        """Parent exception class name for builtin or program exception classes."""
        if name in BUILTIN_EXC:
            return BUILTIN_EXC[name]
        for c in self.classes.values():
            if c.name == name:
                for b in c.bases:
                    return b.split(".")[-1]
        return "Exception"

    def exc_is(self, name, ancestor):
        seen = 0
        while name is not None and seen < 20:
            if name == ancestor:
                return True
            name = self.exc_parent(name)
            seen += 1
        return False
